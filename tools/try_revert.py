#!/usr/bin/env python3
"""try_revert.py <fix-commit> <check-id> [...]: runs checks against /repo with ONE fix commit reverted (overlay
build of `git show -R`, /repo untouched). A repaired defect is recorded as `fixed` in known_findings.json and
must be reported as a VIOLATION again when it returns."""
import json, os, subprocess, sys, tempfile, shutil
commit, ids = sys.argv[1], sys.argv[2:]
tmp = tempfile.mkdtemp(prefix='revert-ov-')
files = subprocess.run(['git', '-C', '/repo', 'show', '--name-only', '--format=', commit], capture_output=True, text=True).stdout.split()
work = os.path.join(tmp, 'w')
for f in files:
    os.makedirs(os.path.dirname(os.path.join(work, f)), exist_ok=True)
    shutil.copy(os.path.join('/repo', f), os.path.join(work, f))
diff = subprocess.run(['git', '-C', '/repo', 'show', '--format=', commit], capture_output=True, text=True).stdout
r = subprocess.run(['patch', '-R', '-p1', '-s', '-d', work], input=diff, capture_output=True, text=True)
if r.returncode != 0:
    print('REVERT-DOES-NOT-APPLY', r.stdout[:300]); sys.exit(2)
repl = {'/repo/' + f: os.path.join(work, f) for f in files}
ov = os.path.join(tmp, 'overlay.json'); json.dump({'Replace': repl}, open(ov, 'w'))
env = dict(os.environ, VERIF_OVERLAY=ov)
for i in ids:
    p = subprocess.run(['/verif/check', i], env=env, capture_output=True, text=True)
    lines = [l for l in p.stdout.splitlines() if l.startswith(('VIOLATION', 'check=', 'BUILD-FAILED', 'HARNESS')) or 'signature=' in l]
    print(f'== {commit} reverted, {i} exit={p.returncode}'); print('\n'.join(l[:200] for l in lines[:8]))
shutil.rmtree(tmp)
