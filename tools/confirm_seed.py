#!/usr/bin/env python3
"""confirm_seed.py <worktree> <seed-name>: independently confirms a seeded change in its scratch worktree
(compiles; the baseline tests of the touched packages still pass; the demonstration fails with the change and
passes without it) and stores it under /verif/seeded/<seed-name>/ (patch.diff, demo, meta.json)."""
import json, os, subprocess, sys, shutil, re
wt, name = sys.argv[1], sys.argv[2]
env = dict(os.environ, GOFLAGS='-mod=mod', GOPROXY='off', GOSUMDB='off')
def sh(cmd, **kw): return subprocess.run(cmd, shell=True, cwd=wt, env=env, capture_output=True, text=True, **kw)
root_demo = os.path.join(wt, 'demo_test.go')
if os.path.exists(root_demo): os.rename(root_demo, os.path.join(wt, 'demo_test.go.copy'))
meta = json.load(open(os.path.join(wt, 'meta.json')))
patch = open(os.path.join(wt, 'patch.diff')).read()
files = re.findall(r'^\+\+\+ b/(.*)$', patch, re.M)
pkgs = sorted({'./' + os.path.dirname(f) for f in files})
res = {}
res['diff_matches_patch'] = sh('git diff -- ' + ' '.join(files)).stdout.strip() == patch.strip()
b = sh('go build ./...'); res['build_ok'] = b.returncode == 0
# baseline tests of the touched packages (stable_pass only), demo excluded
base = json.load(open('/root/.vp/BASELINE.json'))['stable_pass']
demo = meta.get('demo', {})
demo_file = demo.get('file', '')
demo_path = None
for cand in [demo_file, os.path.join(demo.get('package_dir', ''), os.path.basename(demo_file))]:
    if cand and os.path.exists(os.path.join(wt, cand)) and cand.endswith('_test.go') and os.path.dirname(cand):
        demo_path = cand; break
if demo_path is None:
    for r, _, fs in os.walk(wt):
        for f in fs:
            if f.startswith('zz_') and f.endswith('_test.go'): demo_path = os.path.relpath(os.path.join(r, f), wt)
res['demo_file'] = demo_path
demo_src = open(os.path.join(wt, demo_path)).read()
demo_tests = re.findall(r'^func (Test\w+)\(', demo_src, re.M)
demo_pkg = './' + os.path.dirname(demo_path)
hidden = os.path.join(wt, demo_path + '.hidden')
os.rename(os.path.join(wt, demo_path), hidden)
missing = []
for pkg in pkgs:
    imp = 'github.com/projecteru2/core/' + pkg[2:]
    want = [t.split('::')[1] for t in base if t.split('::')[0] == imp and '/' not in t.split('::')[1]]
    if not want: continue
    r = sh(f"go test -json -vet=off -count=1 {pkg} -run '^({'|'.join(want)})$'")
    passed = set()
    for l in r.stdout.splitlines():
        try: e = json.loads(l)
        except Exception: continue
        if e.get('Action') == 'pass' and e.get('Test'): passed.add(e['Test'])
    missing += [f'{imp}::{t}' for t in want if t not in passed]
res['baseline_tests_missing_with_change'] = missing
os.rename(hidden, os.path.join(wt, demo_path))
race = '-race ' if '-race' in demo.get('run', '') else ''
run = f"go test {race}-count=1 -vet=off {demo_pkg} -run '^({'|'.join(demo_tests)})$'"
with_change = sh(run)
sh('git apply -R patch.diff')
without = sh(run)
sh('git apply patch.diff')
res['demo_fails_with_change'] = with_change.returncode != 0
res['demo_passes_without_change'] = without.returncode == 0
res['demo_cmd'] = run
ok = res['diff_matches_patch'] and res['build_ok'] and not missing and res['demo_fails_with_change'] and res['demo_passes_without_change']
print(json.dumps(res, indent=1)); print('CONFIRMED' if ok else 'NOT-CONFIRMED')
if ok:
    out = f'/verif/seeded/{name}'; os.makedirs(out, exist_ok=True)
    open(f'{out}/patch.diff', 'w').write(patch)
    shutil.copy(os.path.join(wt, demo_path), f'{out}/' + os.path.basename(demo_path) + '.txt')
    meta['confirmed_by_lead'] = res
    meta['demo_file_in_repo'] = demo_path
    json.dump(meta, open(f'{out}/meta.json', 'w'), indent=1)
