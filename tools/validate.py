#!/usr/bin/env python3-vt
import json, jsonschema, sys, glob
jsonschema.validate(json.load(open('/verif/MANIFEST.json')), json.load(open('/root/.vp/MANIFEST.schema.json')))
es = json.load(open('/root/.vp/EVIDENCE.schema.json'))
m = json.load(open('/verif/MANIFEST.json'))
bad = 0
for c in m['checks']:
    try:
        jsonschema.validate(json.load(open(c['evidence_file'])), es)
    except Exception as e:
        bad += 1; print('BAD', c['evidence_file'], str(e)[:300])
print('manifest ok;', len(m['checks']), 'checks;', bad, 'bad evidence')
sys.exit(1 if bad else 0)
