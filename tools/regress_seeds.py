#!/usr/bin/env python3
"""regress_seeds.py [seed-id ...]: runs, for every seeded change under /verif/seeded (or the ones named), the
check of its property against the change (overlay build, /repo untouched) and reports whether it is still
detected. Exit 1 if any seed is missed. Not part of any registered check; a maintenance tool."""
import json, os, subprocess, sys
root = os.path.dirname(os.path.dirname(os.path.abspath(__file__)))
seeds = sys.argv[1:] or sorted(os.listdir(os.path.join(root, 'seeded')))
missed = []
for s in seeds:
    d = os.path.join(root, 'seeded', s)
    if not os.path.exists(os.path.join(d, 'patch.diff')):
        continue
    meta = json.load(open(os.path.join(d, 'meta.json')))
    prop = meta.get('property') or s.split('-')[0]
    p = subprocess.run(['python3', os.path.join(root, 'tools', 'try_seed.py'), d, prop], capture_output=True, text=True)
    out = p.stdout
    caught = 'VIOLATION property=' + prop in out
    sigs = [l.strip().split(' count=')[0].replace('signature=', '') for l in out.splitlines() if 'signature=' in l]
    print(f"{s}: {'caught' if caught else 'MISSED'} {sigs[:3]}", flush=True)
    if 'PATCH-DOES-NOT-APPLY' in out:
        print('   patch does not apply to the current tree');
    if not caught and not str(meta.get('detection', '')).startswith('NOT '):
        missed.append(s)  # seeds whose meta says "NOT DETECTED / NOT CLAIMED" are documented limits
print('missed:', missed)
sys.exit(1 if missed else 0)
