#!/usr/bin/env python3
"""Regenerates /verif/MANIFEST.json from tools/manifest_table.json (one row per claimed check)
and properties.jsonl (everything not claimed is listed under not_applicable with its reason)."""
import json, subprocess
root = '/verif'
table = json.load(open(f'{root}/tools/manifest_table.json'))
props = [json.loads(l)['id'] for l in open(f'{root}/properties.jsonl')]
checks = []
claimed = set()
for row in table['checks']:
    pid = row['id']; claimed.add(pid)
    checks.append({
        'property_id': pid,
        'quick_cmd': f'./check {pid} --tier quick',
        'thorough_cmd': f'./check {pid} --tier thorough',
        'evidence_file': f'/verif/evidence/{pid}.json',
        'replay_cmd_template': f'./check {pid} --replay {{path}}',
        'engine': row['engine'],
        'level_claimed': {'category': row['level'], 'text': row['text'], 'design_ref': row.get('design_ref', f'DESIGN.md §4 {pid}')},
        'level_note': row['note'],
        'technique': row['technique'],
    })
na = []
for pid in props:
    if pid not in claimed:
        na.append({'property_id': pid, 'reason': table['not_applicable'].get(pid, 'check not built yet in this round (planned in DESIGN.md §4); nothing is claimed for it')})
hooks = table['hooks']
m = {
    'version': 1,
    'setup_cmd': table['setup_cmd'],
    'hooks': hooks,
    'engines': table['engines'],
    'checks': checks,
    'notes': table['notes'],
    'not_applicable': na,
}
json.dump(m, open(f'{root}/MANIFEST.json', 'w'), indent=1)
print(f'{len(checks)} checks, {len(na)} not applicable')
