#!/usr/bin/env python3
"""Runs the repository's test suite with the verif guard OFF and compares with /root/.vp/BASELINE.json."""
import json, subprocess, sys
base = json.load(open('/root/.vp/BASELINE.json'))
p = subprocess.run('cd /repo && go build ./... && go test -mod=mod -json -vet=off -count=1 -timeout 25m ./...', shell=True, capture_output=True, text=True)
passed = set()
for l in p.stdout.splitlines():
    try: e = json.loads(l)
    except Exception: continue
    if e.get('Action') == 'pass' and e.get('Test'):
        passed.add(e['Package'] + '::' + e['Test'])
missing = [t for t in base['stable_pass'] if t not in passed]
print(f'passed={len(passed)} baseline={len(base["stable_pass"])} missing={len(missing)}')
for m in missing: print('MISSING', m)
sys.exit(1 if missing else 0)
