#!/usr/bin/env python3
"""try_seed.py <worktree-or-seeded-dir> <check-id> [<check-id> ...] [--tier thorough]
Runs checks against a seeded change WITHOUT touching /repo: the changed files of the worktree
(or the files produced by applying <dir>/patch.diff to a scratch copy) are handed to the build
through VERIF_OVERLAY."""
import json, os, subprocess, sys, tempfile, shutil
d = sys.argv[1]; ids = [a for a in sys.argv[2:] if not a.startswith('--')]
tier = 'thorough' if '--tier' in sys.argv and sys.argv[sys.argv.index('--tier')+1] == 'thorough' else 'quick'
tmp = tempfile.mkdtemp(prefix='seed-ov-')
repl = {}
patch = os.path.join(d, 'patch.diff')
files = [l[6:].strip() for l in open(patch) if l.startswith('+++ b/')]
for f in files:
    src = os.path.join(tmp, f.replace('/', '__'))
    shutil.copy(os.path.join('/repo', f), src)
    repl['/repo/' + f] = src
# apply the patch to the copies
work = os.path.join(tmp, 'w'); os.makedirs(work)
for f in files:
    os.makedirs(os.path.dirname(os.path.join(work, f)), exist_ok=True)
    shutil.copy(os.path.join('/repo', f), os.path.join(work, f))
r = subprocess.run(['patch', '-p1', '-s', '-d', work, '-i', os.path.abspath(patch)], capture_output=True, text=True)
if r.returncode != 0:
    print('PATCH-DOES-NOT-APPLY', r.stdout, r.stderr); sys.exit(2)
for f in files:
    shutil.copy(os.path.join(work, f), repl['/repo/' + f])
ov = os.path.join(tmp, 'overlay.json'); json.dump({'Replace': repl}, open(ov, 'w'))
env = dict(os.environ, VERIF_OVERLAY=ov)
for i in ids:
    p = subprocess.run(['/verif/check', i, '--tier', tier], env=env, capture_output=True, text=True)
    lines = [l for l in p.stdout.splitlines() if l.startswith(('VIOLATION', 'check=', 'BUILD-FAILED', 'HARNESS')) or 'signature=' in l]
    print(f'== {i} exit={p.returncode}'); print('\n'.join(l[:260] for l in lines[:60]))
shutil.rmtree(tmp)
