#!/bin/bash
# Offline setup: pre-build the orchestrator and the harness test binary so the first check
# does not pay the cold build. Everything comes from /repo, /verif and the module cache.
set -e
cd /verif/harness
export GOFLAGS=-mod=mod GOPROXY=off GOSUMDB=off GOTOOLCHAIN=local
mkdir -p /verif/.build /verif/evidence /verif/replays
go1.26 build -o /verif/.build/vcheck.setup ./cmd/vcheck && rm -f /verif/.build/vcheck.setup
go1.26 test -c -tags verif -vet=off -o /verif/.build/harness.test ./checks
echo setup ok
