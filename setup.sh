#!/bin/bash
# Offline setup: pre-build the orchestrator and the harness test binary so the first check
# does not pay the cold build. Everything comes from /repo, /verif and the module cache.
set -e
ROOT="$(cd "$(dirname "$0")" && pwd)"
cd "$ROOT/harness"
export GOFLAGS=-mod=mod GOPROXY=off GOSUMDB=off GOTOOLCHAIN=local
mkdir -p "$ROOT"/.build "$ROOT"/evidence "$ROOT"/replays
go1.26 build -o "$ROOT"/.build/vcheck.setup ./cmd/vcheck && rm -f "$ROOT"/.build/vcheck.setup
go1.26 test -c -tags verif -vet=off -o "$ROOT"/.build/harness.test ./checks
echo setup ok
