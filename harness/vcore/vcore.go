// Package vcore is the shared bookkeeping of the verification harness: the per-worker
// run context (tier, shard, budget), the counters every check reports, and the JSON
// result a worker hands back to the orchestrator (cmd/vcheck).
package vcore

import (
	"crypto/sha256"
	"encoding/hex"
	"encoding/json"
	"fmt"
	"os"
	"sort"
	"strconv"
	"strings"
	"sync"
	"time"
)

// Violation is one counterexample. Signature identifies the *class* of counterexample
// (clause of the property / operation / cause); it is what known_findings.json matches.
type Violation struct {
	Signature string `json:"signature"`
	Detail    string `json:"detail"`
	Replay    any    `json:"replay,omitempty"`
}

// Result is what one worker (one shard of one check) reports.
type Result struct {
	Property    string           `json:"property"`
	Level       string           `json:"level"`
	Shard       int              `json:"shard"`
	NShards     int              `json:"nshards"`
	Evaluations int64            `json:"evaluations"`
	Nontrivial  int64            `json:"distinct_nontrivial"`
	States      int64            `json:"states"`
	Transitions int64            `json:"transitions"`
	Executions  int64            `json:"executions"`
	Validated   int64            `json:"traces_validated_against_impl"`
	Exhaustive  bool             `json:"exhaustive"`
	CapHit      string           `json:"cap_hit,omitempty"`
	Rule        string           `json:"rule"`
	Bounds      map[string]any   `json:"bounds,omitempty"`
	Outcomes    map[string]int64 `json:"outcomes,omitempty"`
	Samples     []any            `json:"samples,omitempty"`
	Assumptions []string         `json:"assumptions,omitempty"`
	Violations  []Violation      `json:"violations,omitempty"`
	SigCounts   map[string]int64 `json:"signature_counts,omitempty"`
	Notes       []string         `json:"notes,omitempty"`
	WallS       float64          `json:"wall_s"`
	HarnessErr  string           `json:"harness_error,omitempty"`
}

// Ctx is handed to a check body.
type Ctx struct {
	Tier     string // quick | thorough
	Shard    int
	NShards  int
	Seed     int64
	Deadline time.Time
	Replay   json.RawMessage // non-nil: replay exactly this case

	mu       sync.Mutex
	res      Result
	seen     map[[16]byte]struct{}
	maxViol  int
	maxSamp  int
	caseIdx  int64
	sampleAt map[int64]bool
}

// NewCtxFromEnv builds the context from VERIF_* environment variables.
func NewCtxFromEnv(property string) *Ctx {
	c := &Ctx{Tier: "quick", NShards: 1, seen: map[[16]byte]struct{}{}, maxViol: 8, maxSamp: 6}
	if t := os.Getenv("VERIF_TIER"); t != "" {
		c.Tier = t
	}
	if s := os.Getenv("VERIF_SHARD"); s != "" {
		p := strings.Split(s, "/")
		c.Shard, _ = strconv.Atoi(p[0])
		c.NShards, _ = strconv.Atoi(p[1])
	}
	if s := os.Getenv("VERIF_SEED"); s != "" {
		c.Seed, _ = strconv.ParseInt(s, 10, 64)
	}
	budget := 600 * time.Second
	if s := os.Getenv("VERIF_BUDGET_S"); s != "" {
		if n, err := strconv.Atoi(s); err == nil {
			budget = time.Duration(n) * time.Second
		}
	}
	c.Deadline = time.Now().Add(budget)
	if p := os.Getenv("VERIF_REPLAY"); p != "" {
		b, err := os.ReadFile(p)
		if err != nil {
			panic(err)
		}
		var w struct {
			Replay json.RawMessage `json:"replay"`
		}
		if json.Unmarshal(b, &w) == nil && len(w.Replay) > 0 {
			c.Replay = w.Replay
		} else {
			c.Replay = b
		}
	}
	c.res.Property = property
	c.res.Shard, c.res.NShards = c.Shard, c.NShards
	c.res.Exhaustive = true
	c.res.Outcomes = map[string]int64{}
	c.res.SigCounts = map[string]int64{}
	c.res.Bounds = map[string]any{}
	return c
}

func (c *Ctx) Thorough() bool { return c.Tier == "thorough" }

// Mine reports whether the case with this index belongs to this shard, and advances nothing.
func (c *Ctx) Mine(i int64) bool { return c.NShards <= 1 || int(i%int64(c.NShards)) == c.Shard }

// Expired reports whether the internal budget is used up; the caller must then stop and
// call CapHit so that the evidence says exhaustive:false.
func (c *Ctx) Expired() bool { return time.Now().After(c.Deadline) }

func (c *Ctx) CapHit(what string) {
	c.mu.Lock()
	c.res.Exhaustive = false
	if c.res.CapHit == "" {
		c.res.CapHit = what
	}
	c.mu.Unlock()
}

func (c *Ctx) SetLevel(l string)      { c.res.Level = l }
func (c *Ctx) SetRule(r string)       { c.res.Rule = r }
func (c *Ctx) Bound(k string, v any)  { c.mu.Lock(); c.res.Bounds[k] = v; c.mu.Unlock() }
func (c *Ctx) Assume(a string)        { c.res.Assumptions = append(c.res.Assumptions, a) }
func (c *Ctx) Note(f string, a ...any) { c.mu.Lock(); c.res.Notes = append(c.res.Notes, fmt.Sprintf(f, a...)); c.mu.Unlock() }
func (c *Ctx) Eval()                  { c.mu.Lock(); c.res.Evaluations++; c.mu.Unlock() }
func (c *Ctx) EvalN(n int64)          { c.mu.Lock(); c.res.Evaluations += n; c.mu.Unlock() }
func (c *Ctx) Exec()                  { c.mu.Lock(); c.res.Executions++; c.mu.Unlock() }
func (c *Ctx) State()                 { c.mu.Lock(); c.res.States++; c.mu.Unlock() }
func (c *Ctx) AddStates(n int64)      { c.mu.Lock(); c.res.States += n; c.mu.Unlock() }
func (c *Ctx) Transition()            { c.mu.Lock(); c.res.Transitions++; c.mu.Unlock() }
func (c *Ctx) AddTransitions(n int64) { c.mu.Lock(); c.res.Transitions += n; c.mu.Unlock() }
func (c *Ctx) Validated(n int64)      { c.mu.Lock(); c.res.Validated += n; c.mu.Unlock() }
func (c *Ctx) Outcome(s string)       { c.mu.Lock(); c.res.Outcomes[s]++; c.mu.Unlock() }
func (c *Ctx) Evaluations() int64     { return c.res.Evaluations }

// Nontrivial records a distinct non-trivial case identified by key (counted once).
func (c *Ctx) Nontrivial(key string) bool {
	h := sha256.Sum256([]byte(key))
	var k [16]byte
	copy(k[:], h[:16])
	c.mu.Lock()
	defer c.mu.Unlock()
	if _, ok := c.seen[k]; ok {
		return false
	}
	c.seen[k] = struct{}{}
	c.res.Nontrivial++
	return true
}

// Sample keeps a handful of actual cases for the evidence file.
func (c *Ctx) Sample(x any) {
	c.mu.Lock()
	defer c.mu.Unlock()
	if len(c.res.Samples) < c.maxSamp {
		c.res.Samples = append(c.res.Samples, x)
	}
}

// WantSample is true while fewer than the sample cap have been kept (cheap pre-check).
func (c *Ctx) WantSample() bool { return len(c.res.Samples) < c.maxSamp }

// Violate records a counterexample. Only the first few per signature keep their details.
func (c *Ctx) Violate(sig, detail string, replay any) {
	c.mu.Lock()
	defer c.mu.Unlock()
	c.res.SigCounts[sig]++
	if c.res.SigCounts[sig] > 2 || len(c.res.Violations) >= 64 {
		return
	}
	c.res.Violations = append(c.res.Violations, Violation{Signature: sig, Detail: detail, Replay: replay})
}

// Journal records the case a worker is about to run in $VERIF_TMP/current-case.json. Code of the
// repository that panics in a goroutine of its own takes the whole worker down before any
// oracle can speak; the driver then reads the journal and reports the crash as a violation of
// that case (signature sig) instead of a harness error. JournalDone removes the record.
func (c *Ctx) Journal(sig string, cs any) {
	if d := os.Getenv("VERIF_TMP"); d != "" {
		b, _ := json.Marshal(map[string]any{"signature": sig, "case": cs})
		os.WriteFile(d+"/current-case.json", b, 0o644)
	}
}

func (c *Ctx) JournalDone() {
	if d := os.Getenv("VERIF_TMP"); d != "" {
		os.Remove(d + "/current-case.json")
	}
}

func (c *Ctx) HarnessError(f string, a ...any) {
	c.mu.Lock()
	if c.res.HarnessErr == "" {
		c.res.HarnessErr = fmt.Sprintf(f, a...)
	}
	c.mu.Unlock()
}

// Finish writes the result to VERIF_OUT (or stdout).
func (c *Ctx) Finish(start time.Time) {
	c.res.WallS = time.Since(start).Seconds()
	b, _ := json.Marshal(&c.res)
	if p := os.Getenv("VERIF_OUT"); p != "" {
		if err := os.WriteFile(p, b, 0o644); err != nil {
			panic(err)
		}
		return
	}
	fmt.Println(string(b))
}

// Hash is a short stable hash for replay file names and canonical keys.
func Hash(parts ...string) string {
	h := sha256.New()
	for _, p := range parts {
		h.Write([]byte(p))
		h.Write([]byte{0})
	}
	return hex.EncodeToString(h.Sum(nil))[:12]
}

// SortedKeys returns the keys of a string-keyed map in order.
func SortedKeys[V any](m map[string]V) []string {
	ks := make([]string, 0, len(m))
	for k := range m {
		ks = append(ks, k)
	}
	sort.Strings(ks)
	return ks
}

// JSON is a terse canonical rendering used for keys and messages.
func JSON(v any) string {
	b, err := json.Marshal(v)
	if err != nil {
		return fmt.Sprintf("%+v", v)
	}
	return string(b)
}
