// Package world assembles real core components over simulated backends.
package world

import (
	"context"
	"encoding/json"
	"fmt"
	"time"

	"github.com/projecteru2/core/resource/cobalt"
	"github.com/projecteru2/core/resource/plugins/cpumem"
	cpumemtypes "github.com/projecteru2/core/resource/plugins/cpumem/types"
	"github.com/projecteru2/core/store/etcdv3/meta"
	coretypes "github.com/projecteru2/core/types"
	clientv3 "go.etcd.io/etcd/client/v3"

	"verif/harness/memetcd"
)

// PluginEnv is the real cpumem plugin (and a real cobalt manager holding it) on memetcd.
type PluginEnv struct {
	Srv    *memetcd.Server
	Cli    *clientv3.Client
	KV     *meta.ETCD
	Plugin *cpumem.Plugin
	Mgr    *cobalt.Manager
	Config coretypes.Config
	cancel context.CancelFunc
}

// BaseConfig is the configuration every world starts from.
func BaseConfig() coretypes.Config {
	cfg := coretypes.Config{}
	cfg.GlobalTimeout = 300 * time.Second
	cfg.LockTimeout = 30 * time.Second
	cfg.ConnectionTimeout = 10 * time.Second
	cfg.HAKeepaliveInterval = 16 * time.Second
	cfg.MaxConcurrency = 100000
	cfg.Scheduler.ShareBase = 100
	cfg.Scheduler.MaxShare = -1
	cfg.Scheduler.MaxDeployCount = 10000
	cfg.Etcd.Prefix = "/eru"
	cfg.Etcd.LockPrefix = "__lock__/eru"
	cfg.GRPCConfig.ServiceDiscoveryPushInterval = time.Second
	cfg.GRPCConfig.ServiceHeartbeatInterval = 5 * time.Second
	cfg.ProbeTarget = "8.8.8.8:80"
	cfg.WALOpenTimeout = 2 * time.Second
	return cfg
}

func NewPluginEnv(shareBase, maxShare int) *PluginEnv {
	cfg := BaseConfig()
	cfg.Scheduler.ShareBase = shareBase
	cfg.Scheduler.MaxShare = maxShare
	ctx, cancel := context.WithCancel(context.Background())
	srv := memetcd.New()
	cli := srv.NewClient(ctx)
	kv := meta.NewETCDWithClient(cli, cfg.Etcd)
	p := cpumem.NewPluginWithStore(cfg, kv)
	mgr, _ := cobalt.New(cfg)
	mgr.AddPlugins(p)
	return &PluginEnv{Srv: srv, Cli: cli, KV: kv, Plugin: p, Mgr: mgr, Config: cfg, cancel: cancel}
}

func (e *PluginEnv) Close() {
	e.cancel()
	e.Cli.Lease.Close()
}

// NodeKey is where the cpumem plugin keeps a node's capacity and usage.
func NodeKey(node string) string { return fmt.Sprintf("/resource/cpumem/%s", node) }

// SetNodeRaw writes a node resource record directly (bypassing the plugin's validation).
func (e *PluginEnv) SetNodeRaw(node string, info *cpumemtypes.NodeResourceInfo) {
	b, _ := json.Marshal(info)
	e.Srv.PutRaw(NodeKey(node), string(b))
}

// GetNodeRaw reads a node resource record directly.
func (e *PluginEnv) GetNodeRaw(node string) (*cpumemtypes.NodeResourceInfo, bool) {
	v, ok := e.Srv.Get(NodeKey(node))
	if !ok {
		return nil, false
	}
	info := &cpumemtypes.NodeResourceInfo{}
	if err := json.Unmarshal([]byte(v), info); err != nil {
		return nil, false
	}
	return info, true
}

// ToRaw converts a typed value into the RawParams-style map the plugin API takes.
func ToRaw(v any) map[string]any {
	b, _ := json.Marshal(v)
	m := map[string]any{}
	_ = json.Unmarshal(b, &m)
	return m
}

func jsonUnmarshal(b []byte, v any) error { return json.Unmarshal(b, v) }
