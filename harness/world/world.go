package world

import (
	"context"
	"errors"
	"fmt"
	"os"
	"path/filepath"
	"sort"
	"sync"
	"sync/atomic"
	"time"

	"github.com/alicebob/miniredis/v2"
	goredis "github.com/go-redis/redis/v8"
	"github.com/panjf2000/ants/v2"
	"github.com/projecteru2/core/cluster/calcium"
	"github.com/projecteru2/core/discovery/helium"
	enginefactory "github.com/projecteru2/core/engine/factory"
	"github.com/projecteru2/core/resource/cobalt"
	"github.com/projecteru2/core/resource/plugins/cpumem"
	"github.com/projecteru2/core/store"
	"github.com/projecteru2/core/store/etcdv3"
	"github.com/projecteru2/core/store/etcdv3/meta"
	storeredis "github.com/projecteru2/core/store/redis"
	coretypes "github.com/projecteru2/core/types"
	"github.com/projecteru2/core/utils"
	walkv "github.com/projecteru2/core/wal/kv"
	clientv3 "go.etcd.io/etcd/client/v3"

	"verif/harness/memetcd"
)

// Step is one externally visible step of a core instance: a backend request, an engine
// call or a WAL read/write. It is what the fault injector, the crash injector, the trace
// recorder and the scheduler see.
type Step struct {
	Layer string // etcd | redis | engine | wal
	Kind  string
	Key   string
	Write bool
}

func (s Step) String() string { return s.Layer + "." + s.Kind + "(" + s.Key + ")" }

// Interceptor is called before each step takes effect. A non-nil error makes the step fail
// without effect.
type Interceptor func(ctx context.Context, s Step) error

// ErrDead is returned for every step of an instance that has been crashed.
var ErrDead = errors.New("verif: instance is dead")

// ErrInjected is the error fault injection returns.
var ErrInjected = errors.New("verif: injected failure")

// Who extracts the logical thread name the harness put in the context.
func Who(ctx context.Context) string {
	if ctx == nil {
		return ""
	}
	if v, ok := ctx.Value(coretypes.TracingID).(string); ok {
		return v
	}
	return ""
}

// WithThread names the logical thread of an API call (the repository propagates this value
// through utils.NewInheritCtx, so pool goroutines keep it).
func WithThread(ctx context.Context, name string) context.Context {
	return context.WithValue(ctx, coretypes.TracingID, name)
}

// Backend is everything that outlives a core process: etcd, redis, the engines and the WAL
// file.
type Backend struct {
	Etcd    *memetcd.Server
	Redis   *miniredis.Miniredis
	Eng     *Engines
	Dir     string
	WALPath string
	nInst   int
}

func NewBackend(dir string, withRedis bool) *Backend {
	b := &Backend{Etcd: memetcd.New(), Eng: NewEngines(), Dir: dir, WALPath: filepath.Join(dir, "core.wal")}
	b.Etcd.SetWho(Who)
	if withRedis {
		mr, err := miniredis.Run()
		if err != nil {
			panic(err)
		}
		b.Redis = mr
	}
	return b
}

func (b *Backend) Close() {
	if b.Redis != nil {
		b.Redis.Close()
	}
	os.Remove(b.WALPath)
}

// Snap is a restorable copy of the backend state.
type Snap struct {
	Etcd *memetcd.Snapshot
	Eng  *EngineSnap
	WAL  []byte
	// Redis is restored by replaying a dump
	Redis map[string]redisVal
}

type redisVal struct {
	Type string
	Str  string
	TTL  time.Duration
	Hash map[string]string
}

// Save copies the backend state. No instance may be running.
func (b *Backend) Save() *Snap {
	s := &Snap{Etcd: b.Etcd.Snapshot(), Eng: b.Eng.Save()}
	if data, err := os.ReadFile(b.WALPath); err == nil {
		s.WAL = data
	}
	if b.Redis != nil {
		s.Redis = map[string]redisVal{}
		for _, k := range b.Redis.Keys() {
			v := redisVal{Type: b.Redis.Type(k), TTL: b.Redis.TTL(k)}
			switch v.Type {
			case "string":
				v.Str, _ = b.Redis.Get(k)
			case "hash":
				v.Hash = map[string]string{}
				fields, _ := b.Redis.HKeys(k)
				for _, f := range fields {
					v.Hash[f] = b.Redis.HGet(k, f)
				}
			}
			s.Redis[k] = v
		}
	}
	return s
}

// Restore replaces the backend state. No instance may be running.
func (b *Backend) Restore(s *Snap) {
	b.Etcd.Restore(s.Etcd)
	b.Eng.Restore(s.Eng)
	if s.WAL == nil {
		os.Remove(b.WALPath)
	} else if err := os.WriteFile(b.WALPath, s.WAL, 0o600); err != nil {
		panic(err)
	}
	if b.Redis != nil {
		b.Redis.FlushAll()
		for k, v := range s.Redis {
			switch v.Type {
			case "string":
				b.Redis.Set(k, v.Str)
			case "hash":
				for f, x := range v.Hash {
					b.Redis.HSet(k, f, x)
				}
			}
			if v.TTL > 0 {
				b.Redis.SetTTL(k, v.TTL)
			}
		}
	}
}

// Instance is one core process: real Calcium, store, resource manager, WAL handle.
type Instance struct {
	B      *Backend
	Name   string
	Cfg    coretypes.Config
	Cal    *calcium.Calcium
	Store  store.Store
	Merc   *etcdv3.Mercury
	Redi   *storeredis.Rediaron
	KV     *meta.ETCD
	Cli    *clientv3.Client
	RCli   *goredis.Client
	Mgr    *cobalt.Manager
	Plugin *cpumem.Plugin
	WALKV  *icKV
	Helium *helium.Helium

	pools  []*ants.PoolWithFunc
	ctx    context.Context
	cancel context.CancelFunc
	icept  atomic.Pointer[Interceptor]
	dead   atomic.Bool
	closed bool
}

// InstanceOpts selects the store backend.
type InstanceOpts struct {
	Redis      bool // metadata store on redis (the resource plugin always uses etcd)
	NoWAL      bool
	WithHelium bool
	Cfg        *coretypes.Config
	// WrapStore lets a check put a recording/altering wrapper between Calcium and the real store
	WrapStore func(store.Store) store.Store
}

func (i *Instance) step(ctx context.Context, s Step) error {
	if i.dead.Load() {
		return ErrDead
	}
	if f := i.icept.Load(); f != nil {
		if err := (*f)(ctx, s); err != nil {
			return err
		}
		if i.dead.Load() { // crashed at this very step: it has no effect
			return ErrDead
		}
	}
	return nil
}

// SetInterceptor installs (or clears, with nil) the step interceptor of this instance.
func (i *Instance) SetInterceptor(f Interceptor) {
	if f == nil {
		i.icept.Store(nil)
		return
	}
	i.icept.Store(&f)
}

// Dead reports whether the instance has been killed.
func (i *Instance) Dead() bool { return i.dead.Load() }

// Kill marks the instance dead: every later step of it fails without effect.
func (i *Instance) Kill() { i.dead.Store(true) }

func (b *Backend) NewInstance(opts InstanceOpts) (*Instance, error) {
	b.nInst++
	cfg := BaseConfig()
	if opts.Cfg != nil {
		cfg = *opts.Cfg
	}
	cfg.WALFile = b.WALPath
	ctx, cancel := context.WithCancel(context.Background())
	inst := &Instance{B: b, Name: fmt.Sprintf("core%d", b.nInst), Cfg: cfg, ctx: ctx, cancel: cancel}

	hook := func(ctx context.Context, p memetcd.Point) error {
		return inst.step(ctx, Step{Layer: "etcd", Kind: p.Kind, Key: p.Key, Write: p.Write})
	}
	inst.Cli = b.Etcd.NewClientHook(ctx, hook)
	inst.KV = meta.NewETCDWithClient(inst.Cli, cfg.Etcd)
	newPool := func() *ants.PoolWithFunc {
		p, err := utils.NewPool(cfg.MaxConcurrency)
		if err != nil {
			panic(err)
		}
		inst.pools = append(inst.pools, p)
		return p
	}
	if opts.Redis {
		if b.Redis == nil {
			cancel()
			return nil, errors.New("backend has no redis")
		}
		cfg.Store = "redis"
		cfg.Redis.Addr = b.Redis.Addr()
		cfg.Redis.LockPrefix = "/lock"
		inst.RCli = goredis.NewClient(&goredis.Options{Addr: b.Redis.Addr(), IdleCheckFrequency: -1, MaxRetries: -1})
		inst.RCli.AddHook(redisHook{inst})
		inst.Redi = storeredis.NewWithClient(inst.RCli, cfg, newPool())
		inst.Store = inst.Redi
	} else {
		inst.Merc = etcdv3.NewWithKV(cfg, inst.KV, newPool())
		inst.Store = inst.Merc
	}
	if opts.WrapStore != nil {
		inst.Store = opts.WrapStore(inst.Store)
	}
	inst.Cfg = cfg
	inst.Plugin = cpumem.NewPluginWithStore(cfg, inst.KV)
	inst.Mgr, _ = cobalt.New(cfg)
	inst.Mgr.AddPlugins(inst.Plugin)

	enginefactory.RegisterEngineForVerif(FakevPrefix, b.Eng.makeFor(func(ctx context.Context, p EnginePoint) error {
		return inst.step(ctx, Step{Layer: "engine", Kind: p.Op, Key: p.Node + "/" + p.ID, Write: p.Op != "inspect" && p.Op != "info" && p.Op != "logs"})
	}))
	enginefactory.ResetEngineCacheForVerif(cfg)

	var err error
	if opts.NoWAL {
		inst.Cal, err = calcium.NewForVerifWithWALKV(cfg, inst.Store, inst.Mgr, &nullKV{}, newPool(), nil)
	} else {
		lith := walkv.NewLithium()
		if err = lith.Open(b.WALPath, 0o600, cfg.WALOpenTimeout); err != nil {
			cancel()
			return nil, fmt.Errorf("open wal: %w", err)
		}
		inst.WALKV = &icKV{KV: lith, inst: inst}
		inst.Cal, err = calcium.NewForVerifWithWALKV(cfg, inst.Store, inst.Mgr, inst.WALKV, newPool(), nil)
	}
	if err != nil {
		cancel()
		return nil, err
	}
	return inst, nil
}

// Close shuts the instance down (pools, WAL handle, client). Safe to call twice.
func (i *Instance) Close() {
	if i.closed {
		return
	}
	i.closed = true
	i.cancel()
	i.Cal.ShutdownForVerif(2 * time.Second)
	for _, p := range i.pools {
		_ = p.ReleaseTimeout(2 * time.Second)
	}
	if i.RCli != nil {
		i.RCli.Close()
	}
	i.Cli.Lease.Close()
}

// Crash kills the instance and releases what a dead process would release: its bbolt file
// lock, and (after the stated assumption that its sessions have expired) its leases.
func (i *Instance) Crash() {
	i.Kill()
	i.cancel()
	if i.WALKV != nil {
		_ = i.WALKV.KV.Close()
	}
}

// ---------------------------------------------------------------- WAL kv wrapper

type icKV struct {
	walkv.KV
	inst *Instance
	mu   sync.Mutex
	puts []string // values of all successful puts, in order (what has ever been logged)
}

// Puts returns the values of every event this instance has written to its WAL so far.
func (k *icKV) Puts() []string {
	k.mu.Lock()
	defer k.mu.Unlock()
	return append([]string{}, k.puts...)
}

func (k *icKV) Put(key, val []byte) error {
	if err := k.inst.step(context.Background(), Step{Layer: "wal", Kind: "put", Key: string(key), Write: true}); err != nil {
		return err
	}
	err := k.KV.Put(key, val)
	if err == nil {
		k.mu.Lock()
		k.puts = append(k.puts, string(val))
		k.mu.Unlock()
	}
	return err
}

func (k *icKV) Delete(key []byte) error {
	if err := k.inst.step(context.Background(), Step{Layer: "wal", Kind: "delete", Key: string(key), Write: true}); err != nil {
		return err
	}
	return k.KV.Delete(key)
}

func (k *icKV) NextSequence() (uint64, error) {
	if err := k.inst.step(context.Background(), Step{Layer: "wal", Kind: "seq", Write: true}); err != nil {
		return 0, err
	}
	return k.KV.NextSequence()
}

// nullKV is a WAL that stores nothing (for worlds that do not exercise recovery).
type nullKV struct {
	mu  sync.Mutex
	seq uint64
}

func (n *nullKV) Open(string, os.FileMode, time.Duration) error { return nil }
func (n *nullKV) Close() error                                  { return nil }
func (n *nullKV) Put([]byte, []byte) error                      { return nil }
func (n *nullKV) Get([]byte) ([]byte, error)                    { return nil, errors.New("not found") }
func (n *nullKV) Delete([]byte) error                           { return nil }
func (n *nullKV) NextSequence() (uint64, error) {
	n.mu.Lock()
	defer n.mu.Unlock()
	n.seq++
	return n.seq, nil
}
func (n *nullKV) Scan([]byte) (<-chan walkv.ScanEntry, func()) {
	ch := make(chan walkv.ScanEntry)
	close(ch)
	return ch, func() {}
}

// ---------------------------------------------------------------- redis hook

type redisHook struct{ inst *Instance }

func (h redisHook) BeforeProcess(ctx context.Context, cmd goredis.Cmder) (context.Context, error) {
	key := ""
	if args := cmd.Args(); len(args) > 1 {
		key = fmt.Sprint(args[1])
	}
	name := cmd.Name()
	write := true
	switch name {
	case "get", "mget", "exists", "keys", "scan", "ttl", "hgetall", "hget", "ping", "psubscribe", "subscribe":
		write = false
	}
	return ctx, h.inst.step(ctx, Step{Layer: "redis", Kind: name, Key: key, Write: write})
}
func (h redisHook) AfterProcess(context.Context, goredis.Cmder) error { return nil }
func (h redisHook) BeforeProcessPipeline(ctx context.Context, cmds []goredis.Cmder) (context.Context, error) {
	key := ""
	for _, c := range cmds {
		if args := c.Args(); len(args) > 1 && c.Name() != "multi" && c.Name() != "exec" {
			key = fmt.Sprint(args[1])
			break
		}
	}
	return ctx, h.inst.step(ctx, Step{Layer: "redis", Kind: "pipeline", Key: key, Write: true})
}
func (h redisHook) AfterProcessPipeline(context.Context, []goredis.Cmder) error { return nil }

// ---------------------------------------------------------------- engines per instance

func (w *Engines) makeFor(h EngineHook) func(ctx context.Context, cfg coretypes.Config, nodename, endpoint, ca, cert, key string) (engineAPI, error) {
	return func(ctx context.Context, cfg coretypes.Config, nodename, endpoint, ca, cert, key string) (engineAPI, error) {
		e, err := w.Make(ctx, cfg, nodename, endpoint, ca, cert, key)
		if err != nil {
			return nil, err
		}
		e.(*fakev).hook = h
		return e, nil
	}
}

// SortedStrings is a tiny helper used by canonical forms.
func SortedStrings(m map[string]struct{}) []string {
	out := make([]string, 0, len(m))
	for k := range m {
		out = append(out, k)
	}
	sort.Strings(out)
	return out
}

// WALEvent is one entry of the recovery log file.
type WALEvent struct {
	Key  string
	Type string
	Item string
}

// WALEvents reads the WAL file directly. No instance may hold the file open.
func (b *Backend) WALEvents() ([]WALEvent, error) {
	if _, err := os.Stat(b.WALPath); err != nil {
		return nil, nil
	}
	lith := walkv.NewLithium()
	if err := lith.Open(b.WALPath, 0o600, 2*time.Second); err != nil {
		return nil, err
	}
	defer lith.Close()
	ch, _ := lith.Scan([]byte("/events/"))
	var out []WALEvent
	for e := range ch {
		if e.Error() != nil {
			return out, e.Error()
		}
		k, v := e.Pair()
		var ev struct {
			Type string `json:"type"`
			Item []byte `json:"item"`
		}
		if err := jsonUnmarshal(v, &ev); err != nil {
			out = append(out, WALEvent{Key: string(k), Type: "?", Item: string(v)})
			continue
		}
		out = append(out, WALEvent{Key: string(k), Type: ev.Type, Item: string(ev.Item)})
	}
	return out, nil
}

// NewObserverStore builds a second, un-intercepted real store on the backend (no engines, no
// Calcium): checks use it to call read APIs such as GetDeployStatus while an instance is
// running. Must be created and closed inside the same bubble as its users.
func (b *Backend) NewObserverStore(redis bool) (store.Store, func()) {
	cfg := BaseConfig()
	ctx, cancel := context.WithCancel(context.Background())
	pool, _ := utils.NewPool(1000)
	if redis {
		cfg.Redis.Addr = b.Redis.Addr()
		cli := goredis.NewClient(&goredis.Options{Addr: b.Redis.Addr(), IdleCheckFrequency: -1, MaxRetries: -1})
		return storeredis.NewWithClient(cli, cfg, pool), func() {
			cancel()
			cli.Close()
			_ = pool.ReleaseTimeout(2 * time.Second)
		}
	}
	cli := b.Etcd.NewClientHook(ctx, func(context.Context, memetcd.Point) error { return nil })
	kv := meta.NewETCDWithClient(cli, cfg.Etcd)
	return etcdv3.NewWithKV(cfg, kv, pool), func() {
		cancel()
		cli.Lease.Close()
		_ = pool.ReleaseTimeout(2 * time.Second)
	}
}
