package world

import (
	"context"
	"testing"
	"time"
)

func TestWorldSmoke(t *testing.T) {
	start := time.Now()
	b := NewBackend(t.TempDir(), false)
	defer b.Close()
	inst, err := b.NewInstance(InstanceOpts{})
	if err != nil {
		t.Fatal(err)
	}
	ctx := WithThread(context.Background(), "T0")
	steps := 0
	inst.SetInterceptor(func(ctx context.Context, s Step) error { steps++; return nil })
	if _, err := inst.Cal.AddPod(ctx, "p", ""); err != nil {
		t.Fatal(err)
	}
	for _, n := range []NodeSpec{{Name: "n1", Pod: "p", CPU: 2, Memory: 1000, Test: true}, {Name: "n2", Pod: "p", CPU: 4, Memory: 1000, NUMA: true, Test: true}} {
		if _, err := inst.Cal.AddNode(ctx, n.Options()); err != nil {
			t.Fatal(err)
		}
	}
	msgs, err := inst.Create(ctx, DeploySpec{Pod: "p", Count: 3, Strategy: "AUTO", Bind: true, CPU: 1, Memory: 100})
	if err != nil {
		t.Fatal(err)
	}
	for _, m := range msgs {
		if m.Error != nil {
			t.Fatalf("create: %v", m.Error)
		}
	}
	inst.Quiesce()
	v := b.View(false)
	t.Logf("steps=%d pods=%v nodes=%v workloads=%d containers=%d processing=%v other=%v", steps, v.Pods, v.Nodes, len(v.Workloads), len(v.Containers), v.Processing, v.OtherKeys)
	for n := range v.Nodes {
		if d := v.CompareUsage(n); len(d) > 0 {
			t.Errorf("node %s: %v", n, d)
		}
		t.Logf("node %s usage %+v", n, v.NodeRes[n].Usage)
	}
	var ids []string
	for id := range v.Workloads {
		ids = append(ids, id)
	}
	ch, err := inst.Cal.RemoveWorkload(ctx, ids, true)
	if err != nil {
		t.Fatal(err)
	}
	for m := range ch {
		if !m.Success {
			t.Errorf("remove %s failed: %s", m.WorkloadID, m.Hook)
		}
	}
	inst.Quiesce()
	v = b.View(false)
	if len(v.Workloads) != 0 || len(v.Containers) != 0 {
		t.Errorf("left over: %d workloads %d containers", len(v.Workloads), len(v.Containers))
	}
	for n := range v.Nodes {
		if d := v.CompareUsage(n); len(d) > 0 {
			t.Errorf("node %s after remove: %v", n, d)
		}
	}
	inst.Close()
	t.Logf("took %v, steps %d", time.Since(start), steps)
}
