package world

import (
	"bytes"
	"context"
	"errors"
	"fmt"
	"io"
	"sort"
	"strings"
	"sync"
	"time"

	"github.com/projecteru2/core/engine"
	"github.com/projecteru2/core/engine/fake"
	enginetypes "github.com/projecteru2/core/engine/types"
	resourcetypes "github.com/projecteru2/core/resource/types"
	coretypes "github.com/projecteru2/core/types"
)

// FakevPrefix is the endpoint prefix of the harness engine. It is deliberately not "mock://":
// nodes on mock:// endpoints are marked Test and bypass the heartbeat/availability logic.
const FakevPrefix = "fakev://"

// EnginePoint is one engine call, handed to the hook before it takes effect.
type EnginePoint struct {
	Op   string // create | start | stop | remove | inspect | update | copy | logs | wait | attach | info
	Node string
	ID   string
}

// EngineHook may return an error to make the call fail without effect.
type EngineHook func(ctx context.Context, p EnginePoint) error

// Container is one fake container.
type Container struct {
	ID      string
	Node    string
	Name    string
	Labels  map[string]string
	Params  resourcetypes.Resources // engine params last applied (create or update)
	Created resourcetypes.Resources // engine params given at creation
	Running bool
	Files   map[string]FileRec
	Updates int
	Lambda  bool
	Stdin   bool
}

type FileRec struct {
	Content []byte
	UID     int
	GID     int
	Mode    int64
}

// Script controls run-time behaviour of containers (logs, wait, copy) per engine world.
type Script struct {
	LogLines    []string // lines on stdout of VirtualizationLogs / Attach
	LogsErr     error    // VirtualizationLogs fails to open
	AttachErr   error
	WaitCode    int64
	WaitMsg     string
	WaitErr     error
	CopyMode    map[string]string // per container id: "" accept | "reject" (fail without reading) | "partial" (read one chunk then fail)
	InspectUser string
	LogStagger  time.Duration // > 0: the k-th log stream opened ends k*LogStagger after the first
}

// Engines is the set of all fake engines of one world (one "datacenter").
type Engines struct {
	mu         sync.Mutex
	containers map[string]*Container
	seq        int
	hook       EngineHook
	Script     Script
	logOpened  int
}

func NewEngines() *Engines {
	return &Engines{containers: map[string]*Container{}, Script: Script{CopyMode: map[string]string{}}}
}

func (w *Engines) SetHook(h EngineHook) { w.mu.Lock(); w.hook = h; w.mu.Unlock() }

func (w *Engines) point(ctx context.Context, op, node, id string) error {
	w.mu.Lock()
	h := w.hook
	w.mu.Unlock()
	if h == nil {
		return nil
	}
	return h(ctx, EnginePoint{Op: op, Node: node, ID: id})
}

// Make is the factory function registered under FakevPrefix.
func (w *Engines) Make(_ context.Context, _ coretypes.Config, nodename, endpoint, ca, cert, key string) (engine.API, error) {
	ep := &enginetypes.Params{Nodename: nodename, Endpoint: endpoint, CA: ca, Cert: cert, Key: key}
	return &fakev{EngineWithErr: fake.EngineWithErr{DefaultErr: errors.New("fakev: not implemented"), EP: ep}, w: w, node: nodename}, nil
}

// Snapshot returns a deep copy of all containers, sorted by id.
func (w *Engines) Snapshot() []*Container {
	w.mu.Lock()
	defer w.mu.Unlock()
	out := make([]*Container, 0, len(w.containers))
	for _, c := range w.containers {
		out = append(out, c.clone())
	}
	sort.Slice(out, func(i, j int) bool { return out[i].ID < out[j].ID })
	return out
}

// EngineSnap is the restorable state of the engines.
type EngineSnap struct {
	Containers []*Container
	Seq        int
}

func (w *Engines) Save() *EngineSnap {
	cs := w.Snapshot()
	w.mu.Lock()
	defer w.mu.Unlock()
	return &EngineSnap{Containers: cs, Seq: w.seq}
}

func (w *Engines) Restore(s *EngineSnap) {
	w.mu.Lock()
	defer w.mu.Unlock()
	w.containers = map[string]*Container{}
	for _, c := range s.Containers {
		w.containers[c.ID] = c.clone()
	}
	w.seq = s.Seq
	w.logOpened = 0
}

func (c *Container) clone() *Container {
	n := *c
	n.Labels = map[string]string{}
	for k, v := range c.Labels {
		n.Labels[k] = v
	}
	n.Files = map[string]FileRec{}
	for k, v := range c.Files {
		v.Content = append([]byte{}, v.Content...)
		n.Files[k] = v
	}
	n.Params = cloneResources(c.Params)
	n.Created = cloneResources(c.Created)
	return &n
}

func cloneResources(r resourcetypes.Resources) resourcetypes.Resources {
	if r == nil {
		return nil
	}
	out := resourcetypes.Resources{}
	for k, v := range r {
		m := resourcetypes.RawParams{}
		for kk, vv := range v {
			m[kk] = vv
		}
		out[k] = m
	}
	return out
}

func (w *Engines) Get(id string) (*Container, bool) {
	w.mu.Lock()
	defer w.mu.Unlock()
	c, ok := w.containers[id]
	if !ok {
		return nil, false
	}
	return c.clone(), true
}

type engineAPI = engine.API

type fakev struct {
	fake.EngineWithErr
	w    *Engines
	node string
	hook EngineHook // per-instance hook (nil = the world's)
}

func (f *fakev) point(ctx context.Context, op, id string) error {
	if f.hook != nil {
		return f.hook(ctx, EnginePoint{Op: op, Node: f.node, ID: id})
	}
	return f.w.point(ctx, op, f.node, id)
}

func (f *fakev) Info(ctx context.Context) (*enginetypes.Info, error) {
	if err := f.point(ctx, "info", ""); err != nil {
		return nil, err
	}
	return &enginetypes.Info{Type: "fakev", ID: f.node, NCPU: 4, MemTotal: 1000}, nil
}
func (f *fakev) Ping(context.Context) error { return nil }
func (f *fakev) CloseConn() error           { return nil }

func (f *fakev) ImageLocalDigests(context.Context, string) ([]string, error) {
	return []string{"d"}, nil
}
func (f *fakev) ImageRemoteDigest(context.Context, string) (string, error) { return "d", nil }

func (f *fakev) VirtualizationCreate(ctx context.Context, opts *enginetypes.VirtualizationCreateOptions) (*enginetypes.VirtualizationCreated, error) {
	if err := f.point(ctx, "create", opts.Name); err != nil {
		return nil, err
	}
	w := f.w
	w.mu.Lock()
	defer w.mu.Unlock()
	w.seq++
	// 64 hex digits, like a container id; deterministic per world
	id := fmt.Sprintf("%s%060d", hex4(f.node), w.seq)
	c := &Container{ID: id, Node: f.node, Name: opts.Name, Labels: map[string]string{}, Params: cloneResources(opts.EngineParams), Created: cloneResources(opts.EngineParams), Files: map[string]FileRec{}, Lambda: opts.Lambda, Stdin: opts.Stdin}
	for k, v := range opts.Labels {
		c.Labels[k] = v
	}
	w.containers[id] = c
	return &enginetypes.VirtualizationCreated{ID: id, Name: opts.Name, Labels: map[string]string{}}, nil
}

func hex4(s string) string {
	h := uint32(2166136261)
	for i := 0; i < len(s); i++ {
		h = (h ^ uint32(s[i])) * 16777619
	}
	return fmt.Sprintf("%04x", h&0xffff)
}

func (f *fakev) find(id string) (*Container, error) {
	c, ok := f.w.containers[id]
	if !ok || c.Node != f.node {
		return nil, coretypes.ErrWorkloadNotExists
	}
	return c, nil
}

func (f *fakev) VirtualizationStart(ctx context.Context, id string) error {
	if err := f.point(ctx, "start", id); err != nil {
		return err
	}
	f.w.mu.Lock()
	defer f.w.mu.Unlock()
	c, err := f.find(id)
	if err != nil {
		return err
	}
	c.Running = true
	return nil
}

func (f *fakev) VirtualizationStop(ctx context.Context, id string, _ time.Duration) error {
	if err := f.point(ctx, "stop", id); err != nil {
		return err
	}
	f.w.mu.Lock()
	defer f.w.mu.Unlock()
	c, err := f.find(id)
	if err != nil {
		return err
	}
	c.Running = false
	return nil
}

func (f *fakev) VirtualizationRemove(ctx context.Context, id string, _, force bool) error {
	if err := f.point(ctx, "remove", id); err != nil {
		return err
	}
	f.w.mu.Lock()
	defer f.w.mu.Unlock()
	c, err := f.find(id)
	if err != nil {
		return err
	}
	if c.Running && !force {
		return errors.New("fakev: container is running")
	}
	delete(f.w.containers, id)
	return nil
}

func (f *fakev) VirtualizationSuspend(ctx context.Context, id string) error {
	return f.VirtualizationStop(ctx, id, 0)
}
func (f *fakev) VirtualizationResume(ctx context.Context, id string) error {
	return f.VirtualizationStart(ctx, id)
}

func (f *fakev) VirtualizationInspect(ctx context.Context, id string) (*enginetypes.VirtualizationInfo, error) {
	if err := f.point(ctx, "inspect", id); err != nil {
		return nil, err
	}
	f.w.mu.Lock()
	defer f.w.mu.Unlock()
	c, err := f.find(id)
	if err != nil {
		return nil, err
	}
	labels := map[string]string{}
	for k, v := range c.Labels {
		labels[k] = v
	}
	return &enginetypes.VirtualizationInfo{ID: id, Running: c.Running, Labels: labels, User: f.w.Script.InspectUser, Networks: map[string]string{}}, nil
}

func (f *fakev) VirtualizationUpdateResource(ctx context.Context, id string, params resourcetypes.Resources) error {
	if err := f.point(ctx, "update", id); err != nil {
		return err
	}
	f.w.mu.Lock()
	defer f.w.mu.Unlock()
	c, err := f.find(id)
	if err != nil {
		return err
	}
	c.Params = cloneResources(params)
	c.Updates++
	return nil
}

func (f *fakev) VirtualizationCopyTo(ctx context.Context, id, target string, content []byte, uid, gid int, mode int64) error {
	return f.VirtualizationCopyChunkTo(ctx, id, target, int64(len(content)), bytes.NewReader(content), uid, gid, mode)
}

func (f *fakev) VirtualizationCopyChunkTo(ctx context.Context, id, target string, size int64, content io.Reader, uid, gid int, mode int64) error {
	if err := f.point(ctx, "copy", id); err != nil {
		return err
	}
	f.w.mu.Lock()
	mode_ := f.w.Script.CopyMode[id]
	_, err := f.find(id)
	f.w.mu.Unlock()
	if err != nil {
		return err
	}
	switch mode_ {
	case "reject":
		return errors.New("fakev: copy rejected")
	case "partial":
		buf := make([]byte, 2048)
		_, _ = io.ReadFull(content, buf)
		return errors.New("fakev: copy aborted after partial read")
	}
	data, err := io.ReadAll(content)
	if err != nil {
		return err
	}
	f.w.mu.Lock()
	defer f.w.mu.Unlock()
	c, err := f.find(id)
	if err != nil {
		return err
	}
	c.Files[target] = FileRec{Content: data, UID: uid, GID: gid, Mode: mode}
	_ = size
	return nil
}

func (f *fakev) logReader() io.ReadCloser {
	text := strings.Join(f.w.Script.LogLines, "\n")
	if len(f.w.Script.LogLines) > 0 {
		text += "\n"
	}
	if d := f.w.Script.LogStagger; d > 0 {
		// the k-th stream opened in this world ends k*d later than the first (workloads that end one after the other)
		f.w.mu.Lock()
		k := f.w.logOpened
		f.w.logOpened++
		f.w.mu.Unlock()
		return io.NopCloser(&delayedReader{r: strings.NewReader(text), delay: time.Duration(k) * d})
	}
	return io.NopCloser(strings.NewReader(text))
}

// delayedReader delivers its content at once and reports EOF only after delay has passed.
type delayedReader struct {
	r     io.Reader
	delay time.Duration
	slept bool
}

func (d *delayedReader) Read(p []byte) (int, error) {
	n, err := d.r.Read(p)
	if err == io.EOF && !d.slept {
		d.slept = true
		time.Sleep(d.delay)
	}
	return n, err
}

func (f *fakev) VirtualizationLogs(ctx context.Context, opts *enginetypes.VirtualizationLogStreamOptions) (io.ReadCloser, io.ReadCloser, error) {
	if err := f.point(ctx, "logs", opts.ID); err != nil {
		return nil, nil, err
	}
	if f.w.Script.LogsErr != nil {
		return nil, nil, f.w.Script.LogsErr
	}
	return f.logReader(), io.NopCloser(strings.NewReader("")), nil
}

type nopWriteCloser struct{ io.Writer }

func (nopWriteCloser) Close() error { return nil }

func (f *fakev) VirtualizationAttach(ctx context.Context, id string, _, _ bool) (io.ReadCloser, io.ReadCloser, io.WriteCloser, error) {
	if err := f.point(ctx, "attach", id); err != nil {
		return nil, nil, nil, err
	}
	if f.w.Script.AttachErr != nil {
		return nil, nil, nil, f.w.Script.AttachErr
	}
	return f.logReader(), io.NopCloser(strings.NewReader("")), nopWriteCloser{io.Discard}, nil
}

func (f *fakev) VirtualizationResize(context.Context, string, uint, uint) error { return nil }

func (f *fakev) VirtualizationWait(ctx context.Context, id, _ string) (*enginetypes.VirtualizationWaitResult, error) {
	if err := f.point(ctx, "wait", id); err != nil {
		return nil, err
	}
	if f.w.Script.WaitErr != nil {
		return nil, f.w.Script.WaitErr
	}
	f.w.mu.Lock()
	if c, err := f.find(id); err == nil {
		c.Running = false
	}
	f.w.mu.Unlock()
	return &enginetypes.VirtualizationWaitResult{Code: f.w.Script.WaitCode, Message: f.w.Script.WaitMsg}, nil
}

func (f *fakev) VirtualizationCopyFrom(ctx context.Context, id, path string) ([]byte, int, int, int64, error) {
	f.w.mu.Lock()
	defer f.w.mu.Unlock()
	c, err := f.find(id)
	if err != nil {
		return nil, 0, 0, 0, err
	}
	fr, ok := c.Files[path]
	if !ok {
		return nil, 0, 0, 0, errors.New("fakev: no such file")
	}
	return fr.Content, fr.UID, fr.GID, fr.Mode, nil
}
