package world

import (
	"context"
	"fmt"
	"sort"
	"strings"
	"time"

	cpumemtypes "github.com/projecteru2/core/resource/plugins/cpumem/types"
	resourcetypes "github.com/projecteru2/core/resource/types"
	coretypes "github.com/projecteru2/core/types"
)

// NodeSpec describes a node to add.
type NodeSpec struct {
	Name   string
	Pod    string
	CPU    int   // number of cores (share base pieces each)
	Memory int64 // bytes (plain integer)
	NUMA   bool  // split cores over two NUMA nodes, memory halved
	Test   bool  // mark as test node (always available)
	Labels map[string]string
}

func (n NodeSpec) Options() *coretypes.AddNodeOptions {
	res := resourcetypes.RawParams{"cpu": n.CPU, "memory": n.Memory}
	if n.NUMA {
		var a, b []string
		for i := 0; i < n.CPU; i++ {
			if i < (n.CPU+1)/2 {
				a = append(a, fmt.Sprint(i))
			} else {
				b = append(b, fmt.Sprint(i))
			}
		}
		res["numa-cpu"] = []string{strings.Join(a, ","), strings.Join(b, ",")}
		res["numa-memory"] = []string{fmt.Sprint(n.Memory / 2), fmt.Sprint(n.Memory / 2)}
	}
	return &coretypes.AddNodeOptions{
		Nodename: n.Name, Endpoint: FakevPrefix + n.Name, Podname: n.Pod, Labels: n.Labels, Test: n.Test,
		Resources: resourcetypes.Resources{"cpumem": res},
	}
}

// DeploySpec describes a create request.
type DeploySpec struct {
	App      string
	Entry    string
	Pod      string
	Count    int
	Strategy string
	Limit    int
	Filter   *coretypes.NodeFilter
	Bind     bool
	CPU      float64
	Memory   int64
	Lambda   bool
	Stdin    bool
	Files    []coretypes.LinuxFile
}

func (d DeploySpec) Options() *coretypes.DeployOptions {
	entry := d.Entry
	if entry == "" {
		entry = "web"
	}
	app := d.App
	if app == "" {
		app = "app"
	}
	nf := d.Filter
	if nf == nil {
		nf = &coretypes.NodeFilter{Podname: d.Pod}
	}
	req := resourcetypes.RawParams{"cpu-request": d.CPU, "memory-request": d.Memory}
	if d.Bind {
		req["cpu-bind"] = true
	}
	return &coretypes.DeployOptions{
		Name: app, Entrypoint: &coretypes.Entrypoint{Name: entry, Commands: []string{"run"}}, Podname: d.Pod, NodeFilter: nf,
		Image: "img", Count: d.Count, DeployStrategy: d.Strategy, NodesLimit: d.Limit, IgnorePull: true,
		Resources: resourcetypes.Resources{"cpumem": req}, Lambda: d.Lambda, OpenStdin: d.Stdin, Files: d.Files,
	}
}

// Create runs CreateWorkload and drains the channel.
func (i *Instance) Create(ctx context.Context, d DeploySpec) ([]*coretypes.CreateWorkloadMessage, error) {
	ch, err := i.Cal.CreateWorkload(ctx, d.Options())
	if err != nil {
		return nil, err
	}
	var out []*coretypes.CreateWorkloadMessage
	for m := range ch {
		out = append(out, m)
	}
	return out, nil
}

// Quiesce waits until the instance's pools are idle (background remaps finished). Outside a
// bubble this polls the pool counters; time is real but the wait is only for in-memory work.
func (i *Instance) Quiesce() {
	deadline := time.Now().Add(20 * time.Second)
	for time.Now().Before(deadline) {
		busy := 0
		for _, p := range i.pools {
			busy += p.Running()
		}
		if busy == 0 {
			// double check after a yield: a task may be about to submit another
			time.Sleep(50 * time.Microsecond)
			busy = 0
			for _, p := range i.pools {
				busy += p.Running()
			}
			if busy == 0 {
				return
			}
		}
		time.Sleep(20 * time.Microsecond)
	}
}

// ---------------------------------------------------------------- observation (bypasses interceptors)

// WorkloadRec is a recorded workload as read straight from the store backend.
type WorkloadRec struct {
	ID       string
	Name     string
	Node     string
	Pod      string
	Res      *cpumemtypes.WorkloadResource
	RawValue string
}

// View is a direct, hook-free reading of the backend.
type View struct {
	Pods       []string
	Nodes      map[string]string                        // name -> pod
	NodeRaw    map[string]string                        // name -> stored node record
	NodeRes    map[string]*cpumemtypes.NodeResourceInfo // plugin records
	Workloads  map[string]*WorkloadRec
	Processing []string
	DeployKeys []string
	NodeWKeys  []string
	StatusKeys []string
	Containers []*Container
	OtherKeys  []string
}

// View reads the backend directly. redisStore says where the metadata lives.
func (b *Backend) View(redisStore bool) *View {
	v := &View{Nodes: map[string]string{}, NodeRaw: map[string]string{}, NodeRes: map[string]*cpumemtypes.NodeResourceInfo{}, Workloads: map[string]*WorkloadRec{}}
	type kvp struct{ k, val string }
	var meta []kvp
	for _, e := range b.Etcd.Dump("") {
		if strings.HasPrefix(e.Key, "/resource/cpumem/") {
			info := &cpumemtypes.NodeResourceInfo{}
			if jsonUnmarshal([]byte(e.Value), info) == nil {
				v.NodeRes[strings.TrimPrefix(e.Key, "/resource/cpumem/")] = info
			}
			continue
		}
		if !redisStore {
			meta = append(meta, kvp{e.Key, e.Value})
		} else {
			v.OtherKeys = append(v.OtherKeys, e.Key)
		}
	}
	if redisStore && b.Redis != nil {
		ks := b.Redis.Keys()
		sort.Strings(ks)
		for _, k := range ks {
			val, _ := b.Redis.Get(k)
			meta = append(meta, kvp{k, val})
		}
	}
	for _, e := range meta {
		k := e.k
		switch {
		case strings.HasPrefix(k, "/pod/info/"):
			v.Pods = append(v.Pods, strings.TrimPrefix(k, "/pod/info/"))
		case strings.HasPrefix(k, "/node/") && strings.Contains(k, ":workloads/"):
			v.NodeWKeys = append(v.NodeWKeys, k)
		case strings.HasPrefix(k, "/node/") && strings.Contains(k, ":pod/"):
			// /node/<pod>:pod/<node>
		case strings.HasPrefix(k, "/node/") && (strings.HasSuffix(k, ":ca") || strings.HasSuffix(k, ":cert") || strings.HasSuffix(k, ":key")):
		case strings.HasPrefix(k, "/node/"):
			n := &coretypes.Node{}
			if jsonUnmarshal([]byte(e.val), n) == nil {
				v.Nodes[n.Name] = n.Podname
				v.NodeRaw[n.Name] = e.val
			}
		case strings.HasPrefix(k, "/workloads/"):
			w := &coretypes.Workload{}
			if jsonUnmarshal([]byte(e.val), w) == nil {
				rec := &WorkloadRec{ID: w.ID, Name: w.Name, Node: w.Nodename, Pod: w.Podname, RawValue: e.val}
				if raw, ok := w.Resources["cpumem"]; ok {
					wr := &cpumemtypes.WorkloadResource{}
					if wr.Parse(raw) == nil {
						rec.Res = wr
					}
				}
				v.Workloads[w.ID] = rec
			}
		case strings.HasPrefix(k, "/deploy/"):
			v.DeployKeys = append(v.DeployKeys, k)
		case strings.HasPrefix(k, "/processing/"):
			v.Processing = append(v.Processing, k+"="+e.val)
		case strings.HasPrefix(k, "/status"):
			v.StatusKeys = append(v.StatusKeys, k)
		default:
			v.OtherKeys = append(v.OtherKeys, k)
		}
	}
	sort.Strings(v.Pods)
	v.Containers = b.Eng.Snapshot()
	return v
}

// UsageFromWorkloads recomputes, independently of the plugin, what a node's usage must be
// given the workloads recorded on it.
func (v *View) UsageFromWorkloads(node string) *cpumemtypes.NodeResource {
	u := &cpumemtypes.NodeResource{CPUMap: cpumemtypes.CPUMap{}, NUMAMemory: cpumemtypes.NUMAMemory{}}
	cpu100 := 0.0
	for _, w := range v.Workloads {
		if w.Node != node || w.Res == nil {
			continue
		}
		cpu100 += w.Res.CPURequest
		u.Memory += w.Res.MemoryRequest
		for c, p := range w.Res.CPUMap {
			u.CPUMap[c] += p
		}
		for n, m := range w.Res.NUMAMemory {
			u.NUMAMemory[n] += m
		}
	}
	u.CPU = cpu100
	return u
}

// CompareUsage returns the differences between the recorded usage of a node and the sum over
// its recorded workloads (empty = consistent), plus capacity overruns.
func (v *View) CompareUsage(node string) []string {
	info, ok := v.NodeRes[node]
	if !ok {
		return []string{"no resource record for node " + node}
	}
	want := v.UsageFromWorkloads(node)
	var diffs []string
	if d := info.Usage.CPU - want.CPU; d > 0.005 || d < -0.005 {
		diffs = append(diffs, fmt.Sprintf("cpu usage %.2f != sum of workloads %.2f", info.Usage.CPU, want.CPU))
	}
	if info.Usage.Memory != want.Memory {
		diffs = append(diffs, fmt.Sprintf("memory usage %d != sum of workloads %d", info.Usage.Memory, want.Memory))
	}
	cores := map[string]struct{}{}
	for c := range info.Capacity.CPUMap {
		cores[c] = struct{}{}
	}
	for c := range info.Usage.CPUMap {
		cores[c] = struct{}{}
	}
	for c := range want.CPUMap {
		cores[c] = struct{}{}
	}
	for _, c := range SortedStrings(cores) {
		if info.Usage.CPUMap[c] != want.CPUMap[c] {
			diffs = append(diffs, fmt.Sprintf("core %s usage %d != sum of workloads %d", c, info.Usage.CPUMap[c], want.CPUMap[c]))
		}
		if info.Usage.CPUMap[c] > info.Capacity.CPUMap[c] {
			diffs = append(diffs, fmt.Sprintf("core %s usage %d > capacity %d", c, info.Usage.CPUMap[c], info.Capacity.CPUMap[c]))
		}
	}
	numas := map[string]struct{}{}
	for n := range info.Capacity.NUMAMemory {
		numas[n] = struct{}{}
	}
	for n := range info.Usage.NUMAMemory {
		numas[n] = struct{}{}
	}
	for n := range want.NUMAMemory {
		numas[n] = struct{}{}
	}
	for _, n := range SortedStrings(numas) {
		if info.Usage.NUMAMemory[n] != want.NUMAMemory[n] {
			diffs = append(diffs, fmt.Sprintf("numa %s memory usage %d != sum of workloads %d", n, info.Usage.NUMAMemory[n], want.NUMAMemory[n]))
		}
		if info.Usage.NUMAMemory[n] > info.Capacity.NUMAMemory[n] {
			diffs = append(diffs, fmt.Sprintf("numa %s memory usage %d > capacity %d", n, info.Usage.NUMAMemory[n], info.Capacity.NUMAMemory[n]))
		}
	}
	if info.Capacity.Memory > 0 && info.Usage.Memory > info.Capacity.Memory {
		diffs = append(diffs, fmt.Sprintf("memory usage %d > capacity %d", info.Usage.Memory, info.Capacity.Memory))
	}
	return diffs
}
