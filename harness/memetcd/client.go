package memetcd

import (
	"context"
	"fmt"
	"io"
	"sort"
	"sync"
	"time"

	pb "go.etcd.io/etcd/api/v3/etcdserverpb"
	"go.etcd.io/etcd/api/v3/mvccpb"
	"go.etcd.io/etcd/api/v3/v3rpc/rpctypes"
	clientv3 "go.etcd.io/etcd/client/v3"
	"google.golang.org/grpc"
	"google.golang.org/grpc/metadata"
)

// NewClient returns a *real* clientv3.Client whose KV, Lease and Watcher talk to s.
// The client's context is ctx; Close the returned client (and its Lease) when done.
func (s *Server) NewClient(ctx context.Context) *clientv3.Client {
	return s.NewClientHook(ctx, nil)
}

// NewClientHook is NewClient with a hook private to this client (nil = the server's hook).
// A core instance gets its own client, so its requests can be intercepted, failed or dropped
// (crash) independently of other instances sharing the server.
func (s *Server) NewClientHook(ctx context.Context, h Hook) *clientv3.Client {
	c := clientv3.NewCtxClient(ctx)
	c.KV = clientv3.NewKVFromKVClient(kvClient{s, h}, c)
	c.Lease = clientv3.NewLeaseFromLeaseClient(leaseClient{s, h}, c, 5*time.Second)
	c.Watcher = &watcherAPI{s: s, h: h}
	return c
}

func (s *Server) pointH(ctx context.Context, h Hook, p Point) error {
	if h != nil {
		return h(ctx, p)
	}
	return s.point(ctx, p)
}

// ---------------------------------------------------------------- KV

type kvClient struct {
	s *Server
	h Hook
}

func ctxErr(ctx context.Context) error {
	if err := ctx.Err(); err != nil {
		return err
	}
	return nil
}

func (c kvClient) Range(ctx context.Context, in *pb.RangeRequest, _ ...grpc.CallOption) (*pb.RangeResponse, error) {
	if err := ctxErr(ctx); err != nil {
		return nil, err
	}
	if err := c.s.pointH(ctx, c.h, Point{Kind: "range", Key: string(in.Key)}); err != nil {
		return nil, err
	}
	c.s.mu.Lock()
	defer c.s.mu.Unlock()
	c.s.expireLocked()
	return c.s.rangeLocked(in)
}

func (c kvClient) Put(ctx context.Context, in *pb.PutRequest, _ ...grpc.CallOption) (*pb.PutResponse, error) {
	if err := ctxErr(ctx); err != nil {
		return nil, err
	}
	if err := c.s.pointH(ctx, c.h, Point{Kind: "put", Key: string(in.Key), Write: true}); err != nil {
		return nil, err
	}
	s := c.s
	s.mu.Lock()
	defer s.mu.Unlock()
	s.expireLocked()
	if len(in.Key) == 0 {
		return nil, rpctypes.ErrGRPCEmptyKey
	}
	if in.Lease != 0 {
		if _, ok := s.leases[in.Lease]; !ok {
			return nil, rpctypes.ErrGRPCLeaseNotFound
		}
	}
	if (in.IgnoreValue || in.IgnoreLease) && s.kvs[string(in.Key)] == nil {
		return nil, rpctypes.ErrGRPCKeyNotFound
	}
	s.rev++
	resp, evs, err := s.putLocked(ctx, in, s.rev)
	if err != nil {
		s.rev--
		return nil, err
	}
	resp.Header = s.header()
	s.publishLocked(evs)
	return resp, nil
}

func (c kvClient) DeleteRange(ctx context.Context, in *pb.DeleteRangeRequest, _ ...grpc.CallOption) (*pb.DeleteRangeResponse, error) {
	if err := ctxErr(ctx); err != nil {
		return nil, err
	}
	if err := c.s.pointH(ctx, c.h, Point{Kind: "delete", Key: string(in.Key), Write: true}); err != nil {
		return nil, err
	}
	s := c.s
	s.mu.Lock()
	defer s.mu.Unlock()
	s.expireLocked()
	if len(s.keysInRange(in.Key, in.RangeEnd)) == 0 {
		return &pb.DeleteRangeResponse{Header: s.header()}, nil
	}
	s.rev++
	resp, evs := s.deleteLocked(in, s.rev)
	resp.Header = s.header()
	s.publishLocked(evs)
	return resp, nil
}

// firstTxnKey labels a transaction by the smallest key it mentions (the repository builds
// multi-key transactions from Go maps, so positional order is not stable between runs).
func firstTxnKey(t *pb.TxnRequest) string {
	best := ""
	take := func(k []byte) {
		if len(k) == 0 {
			return
		}
		if best == "" || string(k) < best {
			best = string(k)
		}
	}
	var walk func(t *pb.TxnRequest)
	walk = func(t *pb.TxnRequest) {
		for _, c := range t.Compare {
			take(c.Key)
		}
		for _, branch := range [][]*pb.RequestOp{t.Success, t.Failure} {
			for _, op := range branch {
				switch x := op.Request.(type) {
				case *pb.RequestOp_RequestPut:
					take(x.RequestPut.Key)
				case *pb.RequestOp_RequestRange:
					take(x.RequestRange.Key)
				case *pb.RequestOp_RequestDeleteRange:
					take(x.RequestDeleteRange.Key)
				case *pb.RequestOp_RequestTxn:
					walk(x.RequestTxn)
				}
			}
		}
	}
	walk(t)
	return best
}

func (c kvClient) Txn(ctx context.Context, in *pb.TxnRequest, _ ...grpc.CallOption) (*pb.TxnResponse, error) {
	if err := ctxErr(ctx); err != nil {
		return nil, err
	}
	if err := c.s.pointH(ctx, c.h, Point{Kind: "txn", Key: firstTxnKey(in), Write: txnWrites(in)}); err != nil {
		return nil, err
	}
	s := c.s
	s.mu.Lock()
	defer s.mu.Unlock()
	s.expireLocked()
	if err := checkDup(in); err != nil {
		return nil, err
	}
	path := s.txnPath(in)
	if _, err := s.validatePath(in, path); err != nil {
		return nil, err
	}
	var evs []Event
	rev := s.rev + 1
	resp, err := s.txnLocked(ctx, in, rev, &evs, &path)
	if err != nil {
		// validation above makes this unreachable for writes that already happened
		return nil, err
	}
	if len(evs) > 0 {
		s.rev = rev
	}
	setHeaders(resp, s.header())
	s.publishLocked(evs)
	return resp, nil
}

func (c kvClient) Compact(ctx context.Context, in *pb.CompactionRequest, _ ...grpc.CallOption) (*pb.CompactionResponse, error) {
	c.s.mu.Lock()
	defer c.s.mu.Unlock()
	return &pb.CompactionResponse{Header: c.s.header()}, nil
}

// ---------------------------------------------------------------- Lease

type leaseClient struct {
	s *Server
	h Hook
}

func (c leaseClient) LeaseGrant(ctx context.Context, in *pb.LeaseGrantRequest, _ ...grpc.CallOption) (*pb.LeaseGrantResponse, error) {
	if err := ctxErr(ctx); err != nil {
		return nil, err
	}
	if err := c.s.pointH(ctx, c.h, Point{Kind: "grant", Key: fmt.Sprint(in.TTL), Write: true}); err != nil {
		return nil, err
	}
	s := c.s
	s.mu.Lock()
	defer s.mu.Unlock()
	s.expireLocked()
	id := in.ID
	if id == 0 {
		s.nextLease++
		id = s.nextLease
	} else if _, ok := s.leases[id]; ok {
		return nil, rpctypes.ErrGRPCLeaseExist
	}
	ttl := in.TTL
	if ttl < 1 {
		ttl = 1 // etcd's minimum lease TTL (election timeout based) is rounded up; see conformance
	}
	s.leases[id] = &lease{TTL: ttl, Expiry: s.now().Add(time.Duration(ttl) * time.Second), Keys: map[string]struct{}{}}
	return &pb.LeaseGrantResponse{Header: s.header(), ID: id, TTL: ttl}, nil
}

func (c leaseClient) LeaseRevoke(ctx context.Context, in *pb.LeaseRevokeRequest, _ ...grpc.CallOption) (*pb.LeaseRevokeResponse, error) {
	if err := ctxErr(ctx); err != nil {
		return nil, err
	}
	if err := c.s.pointH(ctx, c.h, Point{Kind: "revoke", Key: fmt.Sprint(in.ID), Write: true}); err != nil {
		return nil, err
	}
	s := c.s
	s.mu.Lock()
	defer s.mu.Unlock()
	s.expireLocked()
	if !s.revokeLocked(in.ID) {
		return nil, rpctypes.ErrGRPCLeaseNotFound
	}
	return &pb.LeaseRevokeResponse{Header: s.header()}, nil
}

func (c leaseClient) LeaseTimeToLive(ctx context.Context, in *pb.LeaseTimeToLiveRequest, _ ...grpc.CallOption) (*pb.LeaseTimeToLiveResponse, error) {
	if err := ctxErr(ctx); err != nil {
		return nil, err
	}
	if err := c.s.pointH(ctx, c.h, Point{Kind: "ttl", Key: fmt.Sprint(in.ID)}); err != nil {
		return nil, err
	}
	s := c.s
	s.mu.Lock()
	defer s.mu.Unlock()
	s.expireLocked()
	l, ok := s.leases[in.ID]
	if !ok {
		return &pb.LeaseTimeToLiveResponse{Header: s.header(), ID: in.ID, TTL: -1}, nil
	}
	resp := &pb.LeaseTimeToLiveResponse{Header: s.header(), ID: in.ID, GrantedTTL: l.TTL, TTL: int64(l.Expiry.Sub(s.now()) / time.Second)}
	if in.Keys {
		ks := make([]string, 0, len(l.Keys))
		for k := range l.Keys {
			ks = append(ks, k)
		}
		sort.Strings(ks)
		for _, k := range ks {
			resp.Keys = append(resp.Keys, []byte(k))
		}
	}
	return resp, nil
}

func (c leaseClient) LeaseLeases(ctx context.Context, in *pb.LeaseLeasesRequest, _ ...grpc.CallOption) (*pb.LeaseLeasesResponse, error) {
	s := c.s
	s.mu.Lock()
	defer s.mu.Unlock()
	s.expireLocked()
	resp := &pb.LeaseLeasesResponse{Header: s.header()}
	ids := make([]int64, 0, len(s.leases))
	for id := range s.leases {
		ids = append(ids, id)
	}
	sort.Slice(ids, func(i, j int) bool { return ids[i] < ids[j] })
	for _, id := range ids {
		resp.Leases = append(resp.Leases, &pb.LeaseStatus{ID: id})
	}
	return resp, nil
}

// keepAliveStream is the fake bidirectional LeaseKeepAlive stream; the real lessor's
// send/recv loops run against it.
type keepAliveStream struct {
	s    *Server
	h    Hook
	ctx  context.Context
	mu   sync.Mutex
	q    []*pb.LeaseKeepAliveResponse
	wake chan struct{}
}

func (c leaseClient) LeaseKeepAlive(ctx context.Context, _ ...grpc.CallOption) (pb.Lease_LeaseKeepAliveClient, error) {
	if err := ctxErr(ctx); err != nil {
		return nil, err
	}
	return &keepAliveStream{s: c.s, h: c.h, ctx: ctx, wake: make(chan struct{}, 1)}, nil
}

func (k *keepAliveStream) Send(r *pb.LeaseKeepAliveRequest) error {
	if err := ctxErr(k.ctx); err != nil {
		return err
	}
	if err := k.s.pointH(k.ctx, k.h, Point{Kind: "keepalive", Key: fmt.Sprint(r.ID), Write: true}); err != nil {
		return err
	}
	s := k.s
	s.mu.Lock()
	s.expireLocked()
	resp := &pb.LeaseKeepAliveResponse{Header: s.header(), ID: r.ID}
	if l, ok := s.leases[r.ID]; ok {
		l.Expiry = s.now().Add(time.Duration(l.TTL) * time.Second)
		resp.TTL = l.TTL
	}
	s.mu.Unlock()
	k.mu.Lock()
	k.q = append(k.q, resp)
	k.mu.Unlock()
	select {
	case k.wake <- struct{}{}:
	default:
	}
	return nil
}

func (k *keepAliveStream) Recv() (*pb.LeaseKeepAliveResponse, error) {
	for {
		k.mu.Lock()
		if len(k.q) > 0 {
			r := k.q[0]
			k.q = k.q[1:]
			k.mu.Unlock()
			return r, nil
		}
		k.mu.Unlock()
		select {
		case <-k.wake:
		case <-k.ctx.Done():
			return nil, k.ctx.Err()
		}
	}
}

func (k *keepAliveStream) Header() (metadata.MD, error) { return nil, nil }
func (k *keepAliveStream) Trailer() metadata.MD         { return nil }
func (k *keepAliveStream) CloseSend() error             { return nil }
func (k *keepAliveStream) Context() context.Context     { return k.ctx }
func (k *keepAliveStream) SendMsg(m any) error          { return k.Send(m.(*pb.LeaseKeepAliveRequest)) }
func (k *keepAliveStream) RecvMsg(m any) error          { return io.EOF }

// ---------------------------------------------------------------- Watch

type watcher struct {
	key, end []byte
	ch       chan clientv3.WatchResponse
	ctx      context.Context
	mu       sync.Mutex
	q        [][]Event
	wake     chan struct{}
}

type watcherAPI struct {
	s *Server
	h Hook
}

func (s *Server) publishLocked(evs []Event) {
	if len(evs) == 0 {
		return
	}
	s.history = append(s.history, evs...)
	for w := range s.watchers {
		var mine []Event
		for _, e := range evs {
			if inRange(e.Key, w.key, w.end) {
				mine = append(mine, e)
			}
		}
		if len(mine) > 0 {
			w.push(mine)
		}
	}
}

func (w *watcher) push(evs []Event) {
	w.mu.Lock()
	w.q = append(w.q, evs)
	w.mu.Unlock()
	select {
	case w.wake <- struct{}{}:
	default:
	}
}

func toClientEvents(evs []Event) []*clientv3.Event {
	out := make([]*clientv3.Event, 0, len(evs))
	for _, e := range evs {
		t := mvccpb.PUT
		if e.Delete {
			t = mvccpb.DELETE
		}
		out = append(out, &clientv3.Event{Type: t, Kv: e.KV})
	}
	return out
}

// Watch registers the watch synchronously (the real client registers asynchronously; see
// DESIGN.md §5) and streams batches of events with the same revision.
func (a *watcherAPI) Watch(ctx context.Context, key string, opts ...clientv3.OpOption) clientv3.WatchChan {
	op := clientv3.OpGet(key, opts...)
	s := a.s
	w := &watcher{key: op.KeyBytes(), end: op.RangeBytes(), ch: make(chan clientv3.WatchResponse), ctx: ctx, wake: make(chan struct{}, 1)}
	_ = s.pointH(ctx, a.h, Point{Kind: "watch", Key: key})
	s.mu.Lock()
	s.expireLocked()
	if rev := op.Rev(); rev > 0 {
		var batch []Event
		var cur int64
		for _, e := range s.history {
			if e.Rev < rev || !inRange(e.Key, w.key, w.end) {
				continue
			}
			if cur != 0 && e.Rev != cur {
				w.q = append(w.q, batch)
				batch = nil
			}
			cur = e.Rev
			batch = append(batch, e)
		}
		if len(batch) > 0 {
			w.q = append(w.q, batch)
		}
	}
	s.watchers[w] = struct{}{}
	s.mu.Unlock()
	go func() {
		defer func() {
			s.mu.Lock()
			delete(s.watchers, w)
			s.mu.Unlock()
			close(w.ch)
		}()
		for {
			w.mu.Lock()
			var b []Event
			if len(w.q) > 0 {
				b = w.q[0]
				w.q = w.q[1:]
			}
			w.mu.Unlock()
			if b == nil {
				select {
				case <-w.wake:
					continue
				case <-ctx.Done():
					return
				}
			}
			resp := clientv3.WatchResponse{Header: pb.ResponseHeader{ClusterId: 1, MemberId: 1, Revision: b[0].Rev, RaftTerm: 1}, Events: toClientEvents(b)}
			select {
			case w.ch <- resp:
			case <-ctx.Done():
				return
			}
		}
	}()
	return w.ch
}

func (a *watcherAPI) RequestProgress(ctx context.Context) error { return nil }
func (a *watcherAPI) Close() error                              { return nil }

// ---------------------------------------------------------------- snapshot / dump

// Snapshot is a deep copy of the server state. Lease expiries are stored as remaining
// durations so that a snapshot can be restored under a different clock.
type Snapshot struct {
	Rev       int64
	NextLease int64
	KVs       map[string]kv
	Leases    map[int64]SnapLease
}

type SnapLease struct {
	TTL       int64
	Remaining time.Duration
	Keys      []string
}

func (s *Server) Snapshot() *Snapshot {
	s.mu.Lock()
	defer s.mu.Unlock()
	s.expireLocked()
	sn := &Snapshot{Rev: s.rev, NextLease: s.nextLease, KVs: map[string]kv{}, Leases: map[int64]SnapLease{}}
	for k, v := range s.kvs {
		c := *v
		c.Value = append([]byte{}, v.Value...)
		sn.KVs[k] = c
	}
	now := s.now()
	for id, l := range s.leases {
		ks := make([]string, 0, len(l.Keys))
		for k := range l.Keys {
			ks = append(ks, k)
		}
		sort.Strings(ks)
		sn.Leases[id] = SnapLease{TTL: l.TTL, Remaining: l.Expiry.Sub(now), Keys: ks}
	}
	return sn
}

// Restore replaces the state (watchers are dropped, history is cleared).
func (s *Server) Restore(sn *Snapshot) {
	s.mu.Lock()
	defer s.mu.Unlock()
	s.rev, s.nextLease = sn.Rev, sn.NextLease
	s.kvs = map[string]*kv{}
	for k, v := range sn.KVs {
		c := v
		c.Value = append([]byte{}, v.Value...)
		s.kvs[k] = &c
	}
	s.leases = map[int64]*lease{}
	now := s.now()
	for id, l := range sn.Leases {
		nl := &lease{TTL: l.TTL, Expiry: now.Add(l.Remaining), Keys: map[string]struct{}{}}
		for _, k := range l.Keys {
			nl.Keys[k] = struct{}{}
		}
		s.leases[id] = nl
	}
	s.history = nil
	s.watchers = map[*watcher]struct{}{}
}

// Entry is one key in a Dump.
type Entry struct {
	Key      string
	Value    string
	Lease    int64
	LeaseTTL int64         // granted TTL of the lease (0 = none)
	Remain   time.Duration // remaining lifetime (0 = none)
	Creator  string
	Version  int64
}

// Dump returns all keys with the given prefix ("" = all) in key order, bypassing the hook.
func (s *Server) Dump(prefix string) []Entry {
	s.mu.Lock()
	defer s.mu.Unlock()
	s.expireLocked()
	ks := make([]string, 0, len(s.kvs))
	for k := range s.kvs {
		if len(k) >= len(prefix) && k[:len(prefix)] == prefix {
			ks = append(ks, k)
		}
	}
	sort.Strings(ks)
	now := s.now()
	out := make([]Entry, 0, len(ks))
	for _, k := range ks {
		v := s.kvs[k]
		e := Entry{Key: k, Value: string(v.Value), Lease: v.Lease, Creator: v.Creator, Version: v.Version}
		if l, ok := s.leases[v.Lease]; ok {
			e.LeaseTTL = l.TTL
			e.Remain = l.Expiry.Sub(now)
		}
		out = append(out, e)
	}
	return out
}

// Get reads one key directly (no hook). ok=false if absent.
func (s *Server) Get(key string) (string, bool) {
	s.mu.Lock()
	defer s.mu.Unlock()
	s.expireLocked()
	v, ok := s.kvs[key]
	if !ok {
		return "", false
	}
	return string(v.Value), true
}

// PutRaw writes a key directly (no hook, no lease); used to inject drift.
func (s *Server) PutRaw(key, val string) {
	s.mu.Lock()
	defer s.mu.Unlock()
	s.rev++
	_, evs, _ := s.putLocked(context.Background(), &pb.PutRequest{Key: []byte(key), Value: []byte(val)}, s.rev)
	s.publishLocked(evs)
}

// DeleteRaw removes a key directly (no hook).
func (s *Server) DeleteRaw(key string) {
	s.mu.Lock()
	defer s.mu.Unlock()
	if _, ok := s.kvs[key]; !ok {
		return
	}
	s.rev++
	_, evs := s.deleteLocked(&pb.DeleteRangeRequest{Key: []byte(key)}, s.rev)
	s.publishLocked(evs)
}

// Leases lists live lease ids with their keys (sorted), bypassing the hook.
func (s *Server) Leases() map[int64][]string {
	s.mu.Lock()
	defer s.mu.Unlock()
	s.expireLocked()
	out := map[int64][]string{}
	for id, l := range s.leases {
		ks := make([]string, 0, len(l.Keys))
		for k := range l.Keys {
			ks = append(ks, k)
		}
		sort.Strings(ks)
		out[id] = ks
	}
	return out
}

// RevokeLease revokes a lease directly (fault injection: "the session is lost").
func (s *Server) RevokeLease(id int64) bool {
	s.mu.Lock()
	defer s.mu.Unlock()
	return s.revokeLocked(id)
}

// NumWatchers is used by tests of the harness itself.
func (s *Server) NumWatchers() int { s.mu.Lock(); defer s.mu.Unlock(); return len(s.watchers) }

// RevokeAll revokes every lease (models: all sessions of dead clients have expired).
func (s *Server) RevokeAll() {
	s.mu.Lock()
	defer s.mu.Unlock()
	ids := make([]int64, 0, len(s.leases))
	for id := range s.leases {
		ids = append(ids, id)
	}
	sort.Slice(ids, func(i, j int) bool { return ids[i] < ids[j] })
	for _, id := range ids {
		s.revokeLocked(id)
	}
}
