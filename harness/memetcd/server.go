// Package memetcd is an in-process, single-mutex model of an etcd v3 server that plugs
// *underneath the real etcd v3 client* (pb.KVClient, pb.LeaseClient, clientv3.Watcher).
// It exists so that the real meta.ETCD / Mercury / cpumem / etcdlock / concurrency code can
// run against a backend whose state is a value (snapshot, restore, dump) and whose every
// request passes a hook (scheduling point, fault point, crash point, trace recorder).
// The model is bound to the real server by the conformance check (checks/conformance.go),
// which replays exhaustively enumerated request sequences against the embedded etcd.
package memetcd

import (
	"bytes"
	"context"
	"sort"
	"sync"
	"time"

	pb "go.etcd.io/etcd/api/v3/etcdserverpb"
	"go.etcd.io/etcd/api/v3/mvccpb"
	"go.etcd.io/etcd/api/v3/v3rpc/rpctypes"
)

// Point describes one backend request, handed to the hook before the request takes effect.
type Point struct {
	Kind   string // range | put | delete | txn | grant | revoke | keepalive | ttl | watch
	Key    string // first key touched (or lease id)
	Write  bool
	Detail string
}

// Hook is called (outside the server mutex) before every request. A non-nil error is
// returned to the client and the request has no effect.
type Hook func(ctx context.Context, p Point) error

type kv struct {
	Value   []byte
	Create  int64
	Mod     int64
	Version int64
	Lease   int64
	Creator string // harness-only: who wrote this key version (thread name), for C26
}

type lease struct {
	TTL    int64
	Expiry time.Time
	Keys   map[string]struct{}
}

// Event is a recorded change.
type Event struct {
	Rev    int64
	Delete bool
	Key    string
	KV     *mvccpb.KeyValue
	Prev   *mvccpb.KeyValue
}

// Server is the in-memory etcd.
type Server struct {
	mu        sync.Mutex
	rev       int64
	kvs       map[string]*kv
	leases    map[int64]*lease
	nextLease int64
	history   []Event
	watchers  map[*watcher]struct{}
	hook      Hook
	offset    time.Duration
	whoFn     func(ctx context.Context) string
}

func New() *Server {
	return &Server{rev: 1, kvs: map[string]*kv{}, leases: map[int64]*lease{}, nextLease: 1000, watchers: map[*watcher]struct{}{}}
}

func (s *Server) SetHook(h Hook)                            { s.mu.Lock(); s.hook = h; s.mu.Unlock() }
func (s *Server) SetWho(f func(ctx context.Context) string) { s.mu.Lock(); s.whoFn = f; s.mu.Unlock() }
func (s *Server) now() time.Time                            { return time.Now().Add(s.offset) }
func (s *Server) Advance(d time.Duration) {
	s.mu.Lock()
	s.offset += d
	s.expireLocked()
	s.mu.Unlock()
}
func (s *Server) Tick()      { s.mu.Lock(); s.expireLocked(); s.mu.Unlock() }
func (s *Server) Rev() int64 { s.mu.Lock(); defer s.mu.Unlock(); return s.rev }

func (s *Server) point(ctx context.Context, p Point) error {
	s.mu.Lock()
	h := s.hook
	s.mu.Unlock()
	if h == nil {
		return nil
	}
	return h(ctx, p)
}

func (s *Server) who(ctx context.Context) string {
	if s.whoFn != nil {
		return s.whoFn(ctx)
	}
	return ""
}

func (s *Server) header() *pb.ResponseHeader {
	return &pb.ResponseHeader{ClusterId: 1, MemberId: 1, Revision: s.rev, RaftTerm: 1}
}

func toKV(key string, v *kv) *mvccpb.KeyValue {
	return &mvccpb.KeyValue{Key: []byte(key), Value: append([]byte{}, v.Value...), CreateRevision: v.Create, ModRevision: v.Mod, Version: v.Version, Lease: v.Lease}
}

// expireLocked revokes every lease whose expiry has passed.
func (s *Server) expireLocked() {
	now := s.now()
	var ids []int64
	for id, l := range s.leases {
		if !now.Before(l.Expiry) {
			ids = append(ids, id)
		}
	}
	sort.Slice(ids, func(i, j int) bool { return ids[i] < ids[j] })
	for _, id := range ids {
		s.revokeLocked(id)
	}
}

func (s *Server) revokeLocked(id int64) bool {
	l, ok := s.leases[id]
	if !ok {
		return false
	}
	delete(s.leases, id)
	keys := make([]string, 0, len(l.Keys))
	for k := range l.Keys {
		keys = append(keys, k)
	}
	sort.Strings(keys)
	if len(keys) > 0 {
		s.rev++
		var evs []Event
		for _, k := range keys {
			if v, ok := s.kvs[k]; ok {
				evs = append(evs, Event{Rev: s.rev, Delete: true, Key: k, KV: &mvccpb.KeyValue{Key: []byte(k), ModRevision: s.rev}, Prev: toKV(k, v)})
				delete(s.kvs, k)
			}
		}
		s.publishLocked(evs)
	}
	return true
}

func inRange(k string, key, end []byte) bool {
	if len(end) == 0 {
		return k == string(key)
	}
	if bytes.Compare([]byte(k), key) < 0 {
		return false
	}
	if len(end) == 1 && end[0] == 0 {
		return true
	}
	return bytes.Compare([]byte(k), end) < 0
}

func (s *Server) keysInRange(key, end []byte) []string {
	var ks []string
	if len(end) == 0 {
		if _, ok := s.kvs[string(key)]; ok {
			ks = append(ks, string(key))
		}
		return ks
	}
	for k := range s.kvs {
		if inRange(k, key, end) {
			ks = append(ks, k)
		}
	}
	sort.Strings(ks)
	return ks
}

func (s *Server) rangeLocked(r *pb.RangeRequest) (*pb.RangeResponse, error) {
	if r.Revision > s.rev {
		return nil, rpctypes.ErrGRPCFutureRev
	}
	ks := s.keysInRange(r.Key, r.RangeEnd)
	kvs := make([]*mvccpb.KeyValue, 0, len(ks))
	for _, k := range ks {
		kvs = append(kvs, toKV(k, s.kvs[k]))
	}
	resp := &pb.RangeResponse{Header: s.header(), Count: int64(len(kvs))}
	if r.CountOnly {
		return resp, nil
	}
	// etcd applies the create/mod-revision filters after counting
	filt := kvs[:0]
	for _, x := range kvs {
		if r.MinModRevision != 0 && x.ModRevision < r.MinModRevision {
			continue
		}
		if r.MaxModRevision != 0 && x.ModRevision > r.MaxModRevision {
			continue
		}
		if r.MinCreateRevision != 0 && x.CreateRevision < r.MinCreateRevision {
			continue
		}
		if r.MaxCreateRevision != 0 && x.CreateRevision > r.MaxCreateRevision {
			continue
		}
		filt = append(filt, x)
	}
	kvs = filt
	order := r.SortOrder
	if r.SortTarget != pb.RangeRequest_KEY && order == pb.RangeRequest_NONE {
		order = pb.RangeRequest_ASCEND
	}
	if order != pb.RangeRequest_NONE {
		less := func(a, b *mvccpb.KeyValue) bool {
			switch r.SortTarget {
			case pb.RangeRequest_VERSION:
				return a.Version < b.Version
			case pb.RangeRequest_CREATE:
				return a.CreateRevision < b.CreateRevision
			case pb.RangeRequest_MOD:
				return a.ModRevision < b.ModRevision
			case pb.RangeRequest_VALUE:
				return bytes.Compare(a.Value, b.Value) < 0
			}
			return bytes.Compare(a.Key, b.Key) < 0
		}
		if order == pb.RangeRequest_ASCEND {
			sort.SliceStable(kvs, func(i, j int) bool { return less(kvs[i], kvs[j]) })
		} else {
			sort.SliceStable(kvs, func(i, j int) bool { return less(kvs[j], kvs[i]) })
		}
	}
	if r.Limit > 0 && int64(len(kvs)) > r.Limit {
		kvs = kvs[:r.Limit]
		resp.More = true
	}
	if r.KeysOnly {
		for _, x := range kvs {
			x.Value = nil
		}
	}
	resp.Kvs = kvs
	return resp, nil
}

func (s *Server) putLocked(ctx context.Context, r *pb.PutRequest, rev int64) (*pb.PutResponse, []Event, error) {
	key := string(r.Key)
	old := s.kvs[key]
	leaseID := r.Lease
	val := r.Value
	if r.IgnoreValue || r.IgnoreLease {
		if old == nil {
			return nil, nil, rpctypes.ErrGRPCKeyNotFound
		}
		if r.IgnoreValue {
			val = old.Value
		}
		if r.IgnoreLease {
			leaseID = old.Lease
		}
	}
	if leaseID != 0 {
		if _, ok := s.leases[leaseID]; !ok {
			return nil, nil, rpctypes.ErrGRPCLeaseNotFound
		}
	}
	nv := &kv{Value: append([]byte{}, val...), Create: rev, Mod: rev, Version: 1, Lease: leaseID, Creator: s.who(ctx)}
	var prev *mvccpb.KeyValue
	if old != nil {
		prev = toKV(key, old)
		nv.Create = old.Create
		nv.Version = old.Version + 1
		if old.Lease != 0 && old.Lease != leaseID {
			if l, ok := s.leases[old.Lease]; ok {
				delete(l.Keys, key)
			}
		}
	}
	if leaseID != 0 {
		s.leases[leaseID].Keys[key] = struct{}{}
	}
	s.kvs[key] = nv
	resp := &pb.PutResponse{}
	if r.PrevKv {
		resp.PrevKv = prev
	}
	return resp, []Event{{Rev: rev, Key: key, KV: toKV(key, nv), Prev: prev}}, nil
}

func (s *Server) deleteLocked(r *pb.DeleteRangeRequest, rev int64) (*pb.DeleteRangeResponse, []Event) {
	ks := s.keysInRange(r.Key, r.RangeEnd)
	resp := &pb.DeleteRangeResponse{Deleted: int64(len(ks))}
	var evs []Event
	for _, k := range ks {
		v := s.kvs[k]
		prev := toKV(k, v)
		if r.PrevKv {
			resp.PrevKvs = append(resp.PrevKvs, prev)
		}
		if v.Lease != 0 {
			if l, ok := s.leases[v.Lease]; ok {
				delete(l.Keys, k)
			}
		}
		delete(s.kvs, k)
		evs = append(evs, Event{Rev: rev, Delete: true, Key: k, KV: &mvccpb.KeyValue{Key: []byte(k), ModRevision: rev}, Prev: prev})
	}
	return resp, evs
}

func cmpInt(a, b int64) int {
	switch {
	case a < b:
		return -1
	case a > b:
		return 1
	}
	return 0
}

func (s *Server) compareOne(c *pb.Compare, key string, v *kv) bool {
	var r int
	switch c.Target {
	case pb.Compare_VERSION:
		var x int64
		if v != nil {
			x = v.Version
		}
		r = cmpInt(x, c.GetVersion())
	case pb.Compare_CREATE:
		var x int64
		if v != nil {
			x = v.Create
		}
		r = cmpInt(x, c.GetCreateRevision())
	case pb.Compare_MOD:
		var x int64
		if v != nil {
			x = v.Mod
		}
		r = cmpInt(x, c.GetModRevision())
	case pb.Compare_LEASE:
		var x int64
		if v != nil {
			x = v.Lease
		}
		r = cmpInt(x, c.GetLease())
	case pb.Compare_VALUE:
		// etcd: a value comparison on a missing key fails
		if v == nil {
			return false
		}
		r = bytes.Compare(v.Value, c.GetValue())
	}
	switch c.Result {
	case pb.Compare_EQUAL:
		return r == 0
	case pb.Compare_NOT_EQUAL:
		return r != 0
	case pb.Compare_GREATER:
		return r > 0
	case pb.Compare_LESS:
		return r < 0
	}
	return false
}

func (s *Server) compare(c *pb.Compare) bool {
	if len(c.RangeEnd) == 0 {
		return s.compareOne(c, string(c.Key), s.kvs[string(c.Key)])
	}
	ks := s.keysInRange(c.Key, c.RangeEnd)
	for _, k := range ks {
		if !s.compareOne(c, k, s.kvs[k]) {
			return false
		}
	}
	return true
}

func txnWrites(t *pb.TxnRequest) bool {
	for _, branch := range [][]*pb.RequestOp{t.Success, t.Failure} {
		for _, op := range branch {
			switch x := op.Request.(type) {
			case *pb.RequestOp_RequestPut, *pb.RequestOp_RequestDeleteRange:
				return true
			case *pb.RequestOp_RequestTxn:
				if txnWrites(x.RequestTxn) {
					return true
				}
			}
		}
	}
	return false
}

// checkIntervals mirrors etcd's request validation (v3rpc/key.go): within one branch a key
// may be put at most once (then/else of one nested txn are mutually exclusive) and puts may
// not overlap deletes.
func checkIntervals(reqs []*pb.RequestOp) (map[string]struct{}, [][2][]byte, error) {
	var dels [][2][]byte
	hit := func(k string) bool {
		for _, d := range dels {
			if inRange(k, d[0], d[1]) {
				return true
			}
		}
		return false
	}
	for _, req := range reqs {
		if x, ok := req.Request.(*pb.RequestOp_RequestDeleteRange); ok {
			dels = append(dels, [2][]byte{x.RequestDeleteRange.Key, x.RequestDeleteRange.RangeEnd})
		}
	}
	puts := map[string]struct{}{}
	for _, req := range reqs {
		x, ok := req.Request.(*pb.RequestOp_RequestTxn)
		if !ok {
			continue
		}
		putsThen, delsThen, err := checkIntervals(x.RequestTxn.Success)
		if err != nil {
			return nil, nil, err
		}
		putsElse, delsElse, err := checkIntervals(x.RequestTxn.Failure)
		if err != nil {
			return nil, nil, err
		}
		for k := range putsThen {
			if _, ok := puts[k]; ok || hit(k) {
				return nil, nil, rpctypes.ErrGRPCDuplicateKey
			}
			puts[k] = struct{}{}
		}
		for k := range putsElse {
			if _, ok := puts[k]; ok {
				if _, safe := putsThen[k]; !safe {
					return nil, nil, rpctypes.ErrGRPCDuplicateKey
				}
			}
			if hit(k) {
				return nil, nil, rpctypes.ErrGRPCDuplicateKey
			}
			puts[k] = struct{}{}
		}
		dels = append(dels, delsThen...)
		dels = append(dels, delsElse...)
	}
	for _, req := range reqs {
		x, ok := req.Request.(*pb.RequestOp_RequestPut)
		if !ok {
			continue
		}
		k := string(x.RequestPut.Key)
		if _, ok := puts[k]; ok || hit(k) {
			return nil, nil, rpctypes.ErrGRPCDuplicateKey
		}
		puts[k] = struct{}{}
	}
	return puts, dels, nil
}

func checkDup(t *pb.TxnRequest) error {
	if _, _, err := checkIntervals(t.Success); err != nil {
		return err
	}
	_, _, err := checkIntervals(t.Failure)
	return err
}

// txnPath evaluates every compare of the executed path up front, as etcd does
// (apply.go compareToPath): nested compares see the state *before* any op of the txn.
func (s *Server) txnPath(t *pb.TxnRequest) []bool {
	ok := true
	for _, c := range t.Compare {
		if !s.compare(c) {
			ok = false
			break
		}
	}
	path := []bool{ok}
	ops := t.Failure
	if ok {
		ops = t.Success
	}
	for _, op := range ops {
		if x, isTxn := op.Request.(*pb.RequestOp_RequestTxn); isTxn {
			path = append(path, s.txnPath(x.RequestTxn)...)
		}
	}
	return path
}

// validatePath checks the leases (and ignore-flags) of the puts on the executed path before
// anything is applied, so that a failing txn has no partial effect.
func (s *Server) validatePath(t *pb.TxnRequest, path []bool) ([]bool, error) {
	ok := path[0]
	path = path[1:]
	ops := t.Failure
	if ok {
		ops = t.Success
	}
	for _, op := range ops {
		switch x := op.Request.(type) {
		case *pb.RequestOp_RequestPut:
			r := x.RequestPut
			if (r.IgnoreValue || r.IgnoreLease) && s.kvs[string(r.Key)] == nil {
				return nil, rpctypes.ErrGRPCKeyNotFound
			}
			if r.Lease != 0 {
				if _, ok := s.leases[r.Lease]; !ok {
					return nil, rpctypes.ErrGRPCLeaseNotFound
				}
			}
		case *pb.RequestOp_RequestRange:
			if x.RequestRange.Revision > s.rev {
				return nil, rpctypes.ErrGRPCFutureRev
			}
		case *pb.RequestOp_RequestTxn:
			var err error
			if path, err = s.validatePath(x.RequestTxn, path); err != nil {
				return nil, err
			}
		}
	}
	return path, nil
}

func (s *Server) txnLocked(ctx context.Context, t *pb.TxnRequest, rev int64, evs *[]Event, path *[]bool) (*pb.TxnResponse, error) {
	ok := (*path)[0]
	*path = (*path)[1:]
	ops := t.Failure
	if ok {
		ops = t.Success
	}
	resp := &pb.TxnResponse{Succeeded: ok}
	for _, op := range ops {
		switch x := op.Request.(type) {
		case *pb.RequestOp_RequestRange:
			rr, err := s.rangeLocked(x.RequestRange)
			if err != nil {
				return nil, err
			}
			resp.Responses = append(resp.Responses, &pb.ResponseOp{Response: &pb.ResponseOp_ResponseRange{ResponseRange: rr}})
		case *pb.RequestOp_RequestPut:
			pr, e, err := s.putLocked(ctx, x.RequestPut, rev)
			if err != nil {
				return nil, err
			}
			*evs = append(*evs, e...)
			resp.Responses = append(resp.Responses, &pb.ResponseOp{Response: &pb.ResponseOp_ResponsePut{ResponsePut: pr}})
		case *pb.RequestOp_RequestDeleteRange:
			dr, e := s.deleteLocked(x.RequestDeleteRange, rev)
			*evs = append(*evs, e...)
			resp.Responses = append(resp.Responses, &pb.ResponseOp{Response: &pb.ResponseOp_ResponseDeleteRange{ResponseDeleteRange: dr}})
		case *pb.RequestOp_RequestTxn:
			tr, err := s.txnLocked(ctx, x.RequestTxn, rev, evs, path)
			if err != nil {
				return nil, err
			}
			resp.Responses = append(resp.Responses, &pb.ResponseOp{Response: &pb.ResponseOp_ResponseTxn{ResponseTxn: tr}})
		}
	}
	return resp, nil
}

func setHeaders(t *pb.TxnResponse, h *pb.ResponseHeader) {
	t.Header = h
	for _, r := range t.Responses {
		switch x := r.Response.(type) {
		case *pb.ResponseOp_ResponseRange:
			x.ResponseRange.Header = h
		case *pb.ResponseOp_ResponsePut:
			x.ResponsePut.Header = h
		case *pb.ResponseOp_ResponseDeleteRange:
			x.ResponseDeleteRange.Header = h
		case *pb.ResponseOp_ResponseTxn:
			setHeaders(x.ResponseTxn, h)
		}
	}
}
