package checks

import (
	"context"
	"fmt"
	"os"
	"sort"
	"strings"
	"testing"

	coretypes "github.com/projecteru2/core/types"

	"verif/harness/vcore"
	"verif/harness/world"
)

// C21: node selection yields exactly the filtered set of distinct nodes.
//
// World (built through the real API on both store backends):
//   p1 { a: up (heartbeat status present), labels {k:v}
//        b: down (non-test node without heartbeat status)
//        c: heartbeat present but bypassed (SetNode Bypass=true), labels {k:v} }
//   p2 { d: up }
// Every node has ample capacity (4 cores, 1000 bytes; requests ask for 1 byte), so that every
// node handed to the resource manager shows up in the result of the operation.
//
// Operations (observation points of the selected node set):
//   capacity  : CalculateCapacity(strategy DUMMY) -> keys of CapacityMessage.NodeCapacities
//               = the node names handed to the resource manager inside withNodesPodLocked
//   listimage : ListImage(podname, nodenames)     -> one message per selected node (multiset,
//               so repeats are visible); only filters ListImage can express
//   create    : CreateWorkload(strategy EACH, count 1) -> one workload per selected node
//               (multiset of nodes of the successfully created workloads); podname p1 only
//
// Oracle (from the property text only):
//   include list given  -> exactly the distinct named nodes, each once, whatever their state,
//                          order and repeats; a name that does not exist must fail the call
//   otherwise           -> nodes of the pod (all pods when podname is empty) carrying the
//                          requested labels, minus excluded ones, minus down/bypassed ones
//                          unless All.

func init() {
	register(Meta{ID: "C21", Level: "exploration", BudgetQuick: 200, BudgetThor: 1500, GoMaxProcs: 2},
		func(t *testing.T, c *vcore.Ctx) { c21Explore(t, c) })
}

type c21Case struct {
	Op       string   `json:"op"`
	Includes []string `json:"includes,omitempty"`
	Excludes []string `json:"excludes,omitempty"`
	Labels   string   `json:"labels,omitempty"` // "" | "k:v" | "k:w"
	All      bool     `json:"all,omitempty"`
	Pod      string   `json:"pod"`
	Backend  string   `json:"backend"`
}

type c21Node struct {
	pod      string
	labelled bool
	down     bool
	bypassed bool
}

var c21World = map[string]c21Node{
	"a": {pod: "p1", labelled: true},
	"b": {pod: "p1", down: true},
	"c": {pod: "p1", labelled: true, bypassed: true},
	"d": {pod: "p2"},
}

// c21Expect is the reference: the expected set of nodes and whether the call must fail.
func c21Expect(cc *c21Case) (want []string, mustFail bool) {
	set := map[string]bool{}
	if len(cc.Includes) > 0 {
		for _, n := range cc.Includes {
			if _, ok := c21World[n]; !ok {
				return nil, true
			}
			set[n] = true
		}
	} else {
		excl := map[string]bool{}
		for _, n := range cc.Excludes {
			excl[n] = true
		}
		for name, n := range c21World {
			if cc.Pod != "" && n.pod != cc.Pod {
				continue
			}
			if !c21Carries(n.labelled, cc.Labels) {
				continue
			}
			if excl[name] {
				continue
			}
			if !cc.All && (n.down || n.bypassed) {
				continue
			}
			set[name] = true
		}
	}
	for n := range set {
		want = append(want, n)
	}
	sort.Strings(want)
	return want, false
}

// c21Carries: labelled nodes carry exactly {k:v}; a requested label matches only a node that
// has the key with that very value (so "k:w", "k:" and "m:" - an empty value, a key nobody has - match nobody)
func c21Carries(labelled bool, req string) bool {
	switch req {
	case "":
		return true
	case "k:v":
		return labelled
	}
	return false
}

func c21Labels(s string) map[string]string {
	if s == "" {
		return nil
	}
	kv := strings.SplitN(s, ":", 2)
	return map[string]string{kv[0]: kv[1]}
}

func c21Cases(thorough bool, backend string) []c21Case {
	var cs []c21Case
	// quick already goes to length 3: the smallest include list whose selection differs from
	// the set semantics needs a repeat AND a later distinct name
	maxLen, createLen := 3, 2
	if thorough {
		maxLen, createLen = 4, 3
	}
	names := []string{"a", "b", "c", "d", "missing"}
	excludes := [][]string{nil, {"a"}, {"d"}, {"a", "d"}}
	labels := []string{"", "k:v", "k:w", "k:", "m:"}
	// 1. pod-based selection: every exclude subset x label set x All x podname
	for _, pod := range []string{"p1", ""} {
		for _, all := range []bool{false, true} {
			for _, lab := range labels {
				for _, ex := range excludes {
					cs = append(cs, c21Case{Op: "capacity", Excludes: ex, Labels: lab, All: all, Pod: pod, Backend: backend})
					if pod == "p1" {
						cs = append(cs, c21Case{Op: "create", Excludes: ex, Labels: lab, All: all, Pod: pod, Backend: backend})
					}
				}
			}
		}
		cs = append(cs, c21Case{Op: "listimage", Pod: pod, Backend: backend})
	}
	// 2. include lists: every sequence with repeats, both All values and podnames
	for _, inc := range seqs(names, maxLen) {
		for _, pod := range []string{"p1", ""} {
			for _, all := range []bool{false, true} {
				cs = append(cs, c21Case{Op: "capacity", Includes: inc, All: all, Pod: pod, Backend: backend})
			}
			cs = append(cs, c21Case{Op: "listimage", Includes: inc, Pod: pod, Backend: backend})
		}
		if len(inc) <= createLen {
			cs = append(cs, c21Case{Op: "create", Includes: inc, Pod: "p1", Backend: backend})
		}
		// an include list wins over excludes and labels: combine them on the short lists
		if len(inc) <= 1 {
			for _, lab := range labels {
				for _, ex := range excludes {
					if lab == "" && ex == nil {
						continue
					}
					cs = append(cs, c21Case{Op: "capacity", Includes: inc, Excludes: ex, Labels: lab, Pod: "p1", Backend: backend})
				}
			}
		}
	}
	return cs
}

func c21Explore(t *testing.T, c *vcore.Ctx) {
	dir := os.Getenv("VERIF_TMP")
	if dir == "" {
		dir = t.TempDir()
	}
	maxLen := 3
	if c.Thorough() {
		maxLen = 4
	}
	c.SetRule("node filters over pods p1{a up+label k:v, b down (no heartbeat), c bypassed+label k:v}, p2{d up}: include lists = every sequence over {a,b,c,d,missing} up to length 3 (thorough 4) with repeats in every order; otherwise every exclude subset of {a,d} x labels {none,{k:v},{k:w},{k:''} (carried key, empty value),{m:''} (key nobody carries, empty value)} x All{F,T} x podname {p1, empty=all pods}; observed through CalculateCapacity(DUMMY) node-capacity keys, ListImage per-node messages (multiset) and CreateWorkload(EACH,1) placements; both store backends; non-trivial = cases whose expected selection differs from 'all nodes of the pod' (a filter actually removes or adds something) or whose include list has repeats / foreign-pod / non-up nodes")
	c.Bound("include_list_max_len", maxLen)
	c.Bound("nodes", "a(up,k:v) b(down) c(bypassed,k:v) @p1; d(up) @p2; plus one non-existent name")
	c.Bound("exclude_sets", "subsets of {a,d}")
	c.Bound("label_sets", "none, {k:v}, {k:w}, {k:''}, {m:''}")
	c.Bound("backends", "etcd, redis")
	c.Assume("every node has capacity for the 1-byte request, so the DUMMY capacity map has one key per node handed to the resource manager")
	base := 0
	for _, be := range []string{"etcd", "redis"} {
		b := world.NewBackend(dir, be == "redis")
		snap, err := c21Setup(t, b, be == "redis")
		if err != nil {
			c.HarnessError("setup %s: %v", be, err)
			b.Close()
			return
		}
		if c.Replay != nil {
			var cc c21Case
			if err := jsonUnmarshal(c.Replay, &cc); err != nil {
				c.HarnessError("replay: %v", err)
				return
			}
			if cc.Backend == be {
				c21One(t, c, b, snap, &cc)
			}
			b.Close()
			continue
		}
		cases := c21Cases(c.Thorough(), be)
		for i := range cases {
			if !c.Mine(int64(base + i)) {
				continue
			}
			if c.Expired() {
				c.CapHit("budget reached")
				b.Close()
				return
			}
			c21One(t, c, b, snap, &cases[i])
		}
		base += len(cases)
		b.Close()
	}
}

func c21Setup(t *testing.T, b *world.Backend, redis bool) (*world.Snap, error) {
	var err error
	tr := wexec(t, b, world.InstanceOpts{Redis: redis, NoWAL: true}, nil, 5, func(ctx context.Context, inst *world.Instance) {
		for _, p := range []string{"p1", "p2"} {
			if _, e := inst.Cal.AddPod(ctx, p, ""); e != nil {
				err = e
				return
			}
		}
		added := map[string]*coretypes.Node{}
		for _, name := range []string{"a", "b", "c", "d"} {
			w := c21World[name]
			spec := world.NodeSpec{Name: name, Pod: w.pod, CPU: 4, Memory: 1000}
			if w.labelled {
				spec.Labels = map[string]string{"k": "v"}
			}
			n, e := inst.Cal.AddNode(ctx, spec.Options())
			if e != nil {
				err = fmt.Errorf("add node %s: %w", name, e)
				return
			}
			added[name] = n
		}
		// heartbeat for every node but b. The TTL is 100 years: the lease is granted at the bubble's
		// virtual clock (year 2000) while Save/Restore run at the real clock, so it must outlive both.
		for _, name := range []string{"a", "c", "d"} {
			if e := inst.Store.SetNodeStatus(ctx, added[name], 100*365*24*3600); e != nil {
				err = fmt.Errorf("status %s: %w", name, e)
				return
			}
		}
		if _, e := inst.Cal.SetNode(ctx, &coretypes.SetNodeOptions{Nodename: "c", Bypass: coretypes.TriTrue}); e != nil {
			err = fmt.Errorf("bypass c: %w", e)
			return
		}
	}, func(ctx context.Context, inst *world.Instance) {
		// the states the oracle assumes, read back through the public API
		if err != nil {
			return
		}
		for name, w := range c21World {
			n, e := inst.Cal.GetNode(ctx, name)
			if e != nil {
				err = fmt.Errorf("get node %s: %w", name, e)
				return
			}
			if n.Bypass != w.bypassed || n.Available == w.down || n.Podname != w.pod || (len(n.Labels) > 0) != w.labelled {
				err = fmt.Errorf("node %s is not in the intended state: available=%v bypass=%v pod=%s labels=%v", name, n.Available, n.Bypass, n.Podname, n.Labels)
				return
			}
		}
	})
	if tr.Deadlock != "" {
		return nil, fmt.Errorf("%s", tr.Deadlock)
	}
	if err != nil {
		return nil, err
	}
	return b.Save(), nil
}

func c21One(t *testing.T, c *vcore.Ctx, b *world.Backend, snap *world.Snap, cc *c21Case) {
	// a counterexample is believed only if it shows again on a second run of the same case (the
	// system is deterministic; an error swallowed inside the store under overload is not)
	first := c21Try(t, c, b, snap, cc, 0, true)
	if len(first) == 0 {
		return
	}
	again := map[string]bool{}
	for _, v := range c21Try(t, c, b, snap, cc, 0, false) {
		again[v[0]] = true
	}
	for _, v := range first {
		if again[v[0]] {
			c.Violate(v[0], v[1], cc)
		} else {
			c.Note("not reproduced on the second run, dropped: %s %s", v[0], v[1])
		}
	}
}

// c21Try runs one case and returns the (signature, detail) pairs of what it found; the counters
// are only touched when count is set.
func c21Try(t *testing.T, c *vcore.Ctx, b *world.Backend, snap *world.Snap, cc *c21Case, attempt int, count bool) (found [][2]string) {
	b.Restore(snap)
	nf := &coretypes.NodeFilter{Podname: cc.Pod, Includes: cc.Includes, Excludes: cc.Excludes, Labels: c21Labels(cc.Labels), All: cc.All}
	var got []string // multiset of node names the operation acted on
	var callErr error
	tr := wexec(t, b, world.InstanceOpts{Redis: cc.Backend == "redis", NoWAL: true}, nil, 9, func(ctx context.Context, inst *world.Instance) {
		switch cc.Op {
		case "capacity":
			do := world.DeploySpec{Pod: cc.Pod, Count: 1, Strategy: "DUMMY", Memory: 1, Filter: nf}.Options()
			msg, err := inst.Cal.CalculateCapacity(ctx, do)
			callErr = err
			if err == nil && msg != nil {
				for n := range msg.NodeCapacities {
					got = append(got, n)
				}
			}
		case "listimage":
			ch, err := inst.Cal.ListImage(ctx, &coretypes.ImageOptions{Podname: cc.Pod, Nodenames: cc.Includes})
			callErr = err
			if err == nil {
				for m := range ch {
					got = append(got, m.Nodename)
				}
			}
		case "create":
			do := world.DeploySpec{Pod: cc.Pod, Count: 1, Strategy: "EACH", Memory: 1, Filter: nf}.Options()
			ch, err := inst.Cal.CreateWorkload(ctx, do)
			callErr = err
			if err == nil {
				for m := range ch {
					if m.Error != nil {
						if callErr == nil {
							callErr = m.Error
						}
						continue
					}
					got = append(got, m.Nodename)
				}
			}
		}
	}, nil)
	if c24Transient(callErr) && attempt < 4 {
		// the loopback redis connection timed out on the real clock (overloaded machine): run the case again
		return c21Try(t, c, b, snap, cc, attempt+1, count)
	}
	if c24Transient(callErr) {
		c.CapHit("transport error of the redis connection (overloaded machine): case skipped")
		return nil
	}
	if count {
		c.Eval()
	}
	sort.Strings(got)
	want, mustFail := c21Expect(cc)
	kind := "pod"
	if len(cc.Includes) > 0 {
		kind = "include"
	}
	viol := func(sig, detail string) {
		found = append(found, [2]string{"C21/" + kind + "/" + sig, fmt.Sprintf("%s | op=%s expected=%v observed=%v err=%v | case=%s", detail, cc.Op, want, got, errStr(callErr), vcore.JSON(cc))})
	}
	if tr.Deadlock != "" {
		viol("operation-stuck", firstLine(tr.Deadlock))
		return
	}
	// non-trivial: the filter does something
	nontrivial := false
	if kind == "include" {
		seen := map[string]bool{}
		for _, n := range cc.Includes {
			w, ok := c21World[n]
			if seen[n] || !ok || w.down || w.bypassed || (cc.Pod != "" && w.pod != cc.Pod) {
				nontrivial = true
			}
			seen[n] = true
		}
	} else {
		inPod := 0
		for _, w := range c21World {
			if cc.Pod == "" || w.pod == cc.Pod {
				inPod++
			}
		}
		nontrivial = len(want) != inPod || cc.All
	}
	if nontrivial && count {
		c.Nontrivial(vcore.JSON(cc))
	}
	res := "ok"
	if callErr != nil {
		res = "error"
	}
	if count {
		c.Outcome(fmt.Sprintf("%s/%s/%s/selected=%d", cc.Op, kind, res, len(got)))
	}
	if count && nontrivial && callErr == nil && c.WantSample() {
		c.Sample(map[string]any{"case": cc, "expected": want, "observed": got})
	}

	if mustFail {
		if callErr == nil || len(got) > 0 {
			viol("missing-name-accepted", "an include list naming a node that does not exist did not fail the call")
		}
		return
	}
	if len(want) == 0 {
		// nothing to act on: an error or an empty result are both "acts on no node"
		if len(got) > 0 {
			c21Extra(cc, got, want, viol)
		}
		return
	}
	if callErr != nil && len(got) == 0 {
		viol("call-failed", "the selection is not empty but the call failed")
		return
	}
	c21Extra(cc, got, want, viol)
	gotSet := map[string]int{}
	for _, n := range got {
		gotSet[n]++
	}
	for _, n := range want {
		if gotSet[n] == 0 {
			viol("node-dropped", fmt.Sprintf("node %s belongs to the selection but was not acted on", n))
			break
		}
	}
	return found
}

// c21Extra reports nodes acted on that are not in the expected set, or more than once.
func c21Extra(cc *c21Case, got, want []string, viol func(sig, detail string)) {
	wantSet := map[string]bool{}
	for _, n := range want {
		wantSet[n] = true
	}
	excl := map[string]bool{}
	for _, n := range cc.Excludes {
		excl[n] = true
	}
	count := map[string]int{}
	reported := map[string]bool{}
	rep := func(sig, detail string) {
		if !reported[sig] {
			reported[sig] = true
			viol(sig, detail)
		}
	}
	for _, n := range got {
		count[n]++
		if count[n] == 2 {
			rep("duplicate-kept", fmt.Sprintf("node %s was acted on more than once", n))
		}
		if wantSet[n] || count[n] > 1 {
			continue
		}
		w, known := c21World[n]
		switch {
		case len(cc.Includes) > 0 || !known:
			rep("extra-node", fmt.Sprintf("node %s was acted on but is not named", n))
		case excl[n]:
			rep("excluded-node-selected", fmt.Sprintf("excluded node %s was acted on", n))
		case cc.Pod != "" && w.pod != cc.Pod:
			rep("other-pod-node-selected", fmt.Sprintf("node %s of pod %s was acted on", n, w.pod))
		case !c21Carries(w.labelled, cc.Labels):
			rep("label-ignored", fmt.Sprintf("node %s does not carry the requested labels", n))
		case !cc.All && w.down:
			rep("down-node-selected", fmt.Sprintf("down node %s was acted on without All", n))
		case !cc.All && w.bypassed:
			rep("bypassed-node-selected", fmt.Sprintf("bypassed node %s was acted on without All", n))
		default:
			rep("extra-node", fmt.Sprintf("node %s was acted on but is not in the selection", n))
		}
	}
}
