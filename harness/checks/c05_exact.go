package checks

import (
	"fmt"
	"math"
	"testing"

	"verif/harness/vcore"
)

// C05: every bound request i/base (i = 1..3*base) on nodes with enough free cores gets
// exactly round(req*base) pieces: whole cores at a full share plus at most one fragment,
// and the recorded cpu_request agrees with the pieces.

func init() {
	register(Meta{ID: "C05", Level: "exploration", ShardsQuick: 8, ShardsThor: 16, BudgetQuick: 150, BudgetThor: 900, GoMaxProcs: 2},
		func(t *testing.T, c *vcore.Ctx) { exactEnum(c) })
}

type exactCase struct {
	Base  int     `json:"share_base"`
	Node  string  `json:"node_shape"`
	I     int     `json:"pieces"`
	CPU   float64 `json:"cpu_request"`
	Limit float64 `json:"cpu_limit"`
}

func exactNodes(base int) map[string]*nState {
	return map[string]*nState{
		"4-full":            {Cap: []int{base, base, base, base}, Use: []int{0, 0, 0, 0}, MemCap: 100},
		"2-full+2-half-used": {Cap: []int{base, base, base, base}, Use: []int{0, 0, base / 2, base / 2}, MemCap: 100},
		"numa-2+2": {Cap: []int{base, base, base, base}, Use: []int{0, 0, 0, 0}, MemCap: 100, NUMA: []string{"0", "0", "1", "1"},
			NMemCap: map[string]int64{"0": 50, "1": 50}, NMemUse: map[string]int64{"0": 0, "1": 0}},
		"4-double-share": {Cap: []int{2 * base, 2 * base, 2 * base, 2 * base}, Use: []int{0, 0, 0, 0}, MemCap: 100},
	}
}

func exactEnum(c *vcore.Ctx) {
	c.SetRule("every bound CPU request i/base for i in 1..3*base (written as the decimal a user would type), share base {100,10,1000}, node shapes {4 free cores, 2 free + 2 half-used, NUMA 2+2, 4 double-share cores}, cpu-limit {0, = request}; count 1; " +
		"non-trivial = an allocation was produced; distinct by (base,node,i,limit)")
	envs := penvCache{}
	defer envs.close()
	run := func(ec *exactCase) {
		env := envs.get(ec.Base, -1)
		st := exactNodes(ec.Base)[ec.Node]
		env.SetNodeRaw("n", st.info())
		rq := wReq{Bind: true, CPU: ec.CPU, CPULimit: ec.Limit, Mem: 10}
		var resp interface{}
		_ = resp
		panicked := guard(c, "C05", ec, func() {
			r, err := env.Plugin.CalculateDeploy(bg, "n", 1, rq.raw())
			c.Eval()
			if err != nil {
				c.Outcome("refused")
				// 4 cores free in every shape except the half-used one; a refusal below the free amount is C07's subject
				return
			}
			c.Outcome("allocated")
			c.Nontrivial(fmt.Sprintf("%d/%s/%d/%v", ec.Base, ec.Node, ec.I, ec.Limit))
			w, err := parseWR(r.WorkloadsResource[0])
			if err != nil {
				c.HarnessError("parse: %v", err)
				return
			}
			sum, full, frag := 0, 0, 0
			for _, p := range w.CPUMap {
				sum += p
				if p == ec.Base {
					full++
				} else {
					frag++
				}
			}
			viol := func(sig, f string, a ...any) {
				c.Violate("C05/"+sig, fmt.Sprintf(f, a...)+fmt.Sprintf(" | case=%s cpu_map=%v recorded_request=%v", vcore.JSON(ec), w.CPUMap, w.CPURequest), ec)
			}
			if sum != ec.I {
				viol("wrong-piece-total", "requested %v cores = %d pieces at base %d, given %d pieces", ec.CPU, ec.I, ec.Base, sum)
			}
			if frag > 1 {
				viol("more-than-one-fragment", "%d fragment cores", frag)
			}
			if math.Abs(w.CPURequest*float64(ec.Base)-float64(sum)) >= 0.5 {
				viol("recorded-amount-disagrees", "recorded cpu_request %v x base %d != %d pieces given", w.CPURequest, ec.Base, sum)
			}
			if math.Abs(w.CPURequest-ec.CPU) > 1e-9 {
				viol("recorded-amount-changed", "recorded cpu_request %v != requested %v", w.CPURequest, ec.CPU)
			}
			if c.WantSample() && frag == 1 && full >= 1 {
				c.Sample(map[string]any{"case": ec, "cpu_map": w.CPUMap})
			}
		})
		_ = panicked
	}
	if c.Replay != nil {
		var ec exactCase
		if err := jsonUnmarshal(c.Replay, &ec); err != nil {
			c.HarnessError("replay: %v", err)
			return
		}
		var rc exactReallocCase
		if jsonUnmarshal(c.Replay, &rc) == nil && rc.Origin > 0 {
			exactRealloc(c, envs, rc.Base, rc.Node, rc.Origin, rc.Delta)
			return
		}
		run(&ec)
		return
	}
	bases := []int{100, 10}
	if c.Thorough() {
		bases = []int{100, 10, 1000}
	}
	c.Bound("share_bases", bases)
	var idx int64
	for _, base := range bases {
		for name := range exactNodes(base) {
			for i := 1; i <= 3*base; i++ {
				idx++
				if !c.Mine(idx) {
					continue
				}
				// the decimal the user types: i/base printed with the base's precision
				var cpu float64
				fmt.Sscan(fmt.Sprintf("%.*f", int(math.Round(math.Log10(float64(base)))), float64(i)/float64(base)), &cpu)
				for _, lim := range []float64{0, cpu} {
					run(&exactCase{Base: base, Node: name, I: i, CPU: cpu, Limit: lim})
				}
			}
		}
	}
	// a bound instance that is re-allocated is still a bound instance: after every realloc
	// (keep-bind or re-bind; request and/or limit delta) the pieces must again total the
	// recorded amount
	for _, base := range []int{100, 10} {
		for _, name := range []string{"4-full", "numa-2+2"} {
			for _, tenth := range []int{3, 5, 10, 12, 15, 17} {
				for _, rq := range []wReq{
					{Keep: true}, {Keep: true, CPU: 0.5}, {Keep: true, CPULimit: 0.5}, {Keep: true, CPU: 0.5, CPULimit: 0.5}, {Keep: true, CPU: -0.2},
					{Bind: true, CPU: 0.5}, {Bind: true, CPULimit: 0.7}, {Keep: true, Mem: 10}, {Keep: true, CPULimit: 1.5, Mem: 10},
				} {
					idx++
					if !c.Mine(idx) {
						continue
					}
					exactRealloc(c, envs, base, name, float64(tenth)/10, rq)
				}
			}
		}
	}
}

type exactReallocCase struct {
	Base   int     `json:"share_base"`
	Node   string  `json:"node_shape"`
	Origin float64 `json:"origin_cpu"`
	Delta  wReq    `json:"realloc_request"`
}

func exactRealloc(c *vcore.Ctx, envs penvCache, base int, node string, origin float64, delta wReq) {
	ec := &exactReallocCase{Base: base, Node: node, Origin: origin, Delta: delta}
	env := envs.get(base, -1)
	st := exactNodes(base)[node]
	env.SetNodeRaw("n", st.info())
	guard(c, "C05", ec, func() {
		r, err := env.Plugin.CalculateDeploy(bg, "n", 1, wReq{Bind: true, CPU: origin, Mem: 10}.raw())
		c.Eval()
		if err != nil {
			return
		}
		if _, err := env.Plugin.SetNodeResourceUsage(bg, "n", nil, nil, r.WorkloadsResource, true, true); err != nil {
			return
		}
		rr, err := env.Plugin.CalculateRealloc(bg, "n", r.WorkloadsResource[0], delta.raw())
		c.Eval()
		if err != nil {
			c.Outcome("realloc-refused")
			return
		}
		w, err := parseWR(rr.WorkloadResource)
		if err != nil {
			c.HarnessError("parse: %v", err)
			return
		}
		if len(w.CPUMap) == 0 {
			c.Outcome("realloc-unbound")
			return
		}
		c.Outcome("realloc-bound")
		c.Nontrivial(vcore.JSON(ec))
		sum, frag := 0, 0
		for _, p := range w.CPUMap {
			sum += p
			if p%base != 0 {
				frag++
			}
		}
		if math.Abs(w.CPURequest*float64(base)-float64(sum)) >= 0.5 {
			c.Violate("C05/realloc/recorded-amount-disagrees", fmt.Sprintf("after realloc the workload records cpu_request %v (= %v pieces at base %d) but holds %d pieces %v | case=%s", w.CPURequest, w.CPURequest*float64(base), base, sum, w.CPUMap, vcore.JSON(ec)), ec)
		}
		if frag > 1 {
			c.Violate("C05/realloc/more-than-one-fragment", fmt.Sprintf("after realloc %d fragment cores: %v | case=%s", frag, w.CPUMap, vcore.JSON(ec)), ec)
		}
	})
}
