package checks

import (
	"context"
	"fmt"
	"sort"
	"strings"
	"sync"
	"testing"
	"testing/synctest"
	"time"

	"verif/harness/vcore"
	"verif/harness/world"
)

// ---------------------------------------------------------------------------------------
// Engine E4: stateless exploration of thread interleavings at backend-request granularity.
//
// One execution = one synctest bubble. Every intercepted step (etcd/redis request, engine
// call) issued on behalf of a named thread parks its goroutine; at exact quiescence
// (synctest.Wait) the scheduler picks which parked goroutine to release. Time is virtual:
// when nobody is parked and threads are unfinished the scheduler lets virtual time pass.
// Exploration is depth-first over choice prefixes with iterative preemption bounding
// (switching away from the thread that ran last while it is still enabled costs one).
// ---------------------------------------------------------------------------------------

type schedThread struct {
	Name string
	Run  func(ctx context.Context, x *schedRun)
}

// schedScenario describes what runs in every execution.
type schedScenario struct {
	Name      string
	Opts      world.InstanceOpts
	Snap      *world.Snap // backend state restored before every execution (nil = leave as is)
	Threads   []schedThread
	Horizon   time.Duration // virtual time after which unfinished threads are reported stuck
	Quantum   time.Duration // virtual time step when nobody is parked
	Instances int           // number of core instances (threads are spread round-robin); default 1
	// Control decides which steps are scheduling points (default: every step of a named thread)
	Control func(thread string, s world.Step) bool
	// AtQuiescence is called at every quiescent state (scheduler goroutine; threads are parked)
	AtQuiescence func(x *schedRun)
	// Finally is called when all threads have returned (or the horizon passed), before shutdown
	Finally func(x *schedRun)
	// TimeFirst > 0 allows up to that many "let time pass although someone is parked" choices
	TimeFirst int
	// TimeFirstStep is how much time such a choice lets pass (default: Quantum)
	TimeFirstStep time.Duration
	// AllDeviations makes the bound count every non-default choice (deviation bounding) instead
	// of preemptions only; needed when threads block often, because switches away from a
	// blocked thread are free under preemption bounding and multiply the schedule space
	AllDeviations bool
	// ExtraNames are context thread names whose steps are scheduling points although no thread
	// body of that name exists (background components started by a thread body)
	ExtraNames []string
	// OnRelease is called by the scheduler right before a parked step is released
	OnRelease func(x *schedRun, thread, label string)
	// FailStep makes a step of a thread fail without effect (scripted fault; must be deterministic)
	FailStep func(thread string, s world.Step, label string) bool
}

type parkedG struct {
	thread string
	label  string
	ch     chan struct{}
	seq    int
}

type decision struct {
	Menu    []string // "thread:label" in canonical menu order
	Choice  int
	Preempt []bool // per menu entry: choosing it is a preemption
	TimeAlt bool   // a "let time pass" alternative exists (index len(Menu))
}

// schedRun is the state of one execution, visible to thread bodies and callbacks.
type schedRun struct {
	B         *world.Backend
	Insts     []*world.Instance
	Start     time.Time
	mu        sync.Mutex
	parked    []*parkedG
	seq       int
	done      map[string]bool
	Events    []string // thread-recorded observations, in order
	Decisions []decision
	Stuck     string
	Diverged  bool
	last      string
	Data      map[string]any // scenario scratch
	threadOf  map[string]int
}

// Inst returns the core instance a thread runs on.
func (x *schedRun) Inst(thread string) *world.Instance {
	return x.Insts[x.threadOf[thread]%len(x.Insts)]
}

// Event records an observation (callable from thread bodies).
func (x *schedRun) Event(f string, a ...any) {
	x.mu.Lock()
	x.Events = append(x.Events, fmt.Sprintf("%6.2fs ", time.Since(x.Start).Seconds())+fmt.Sprintf(f, a...))
	x.mu.Unlock()
}

// Now is the virtual time since the start of the execution.
func (x *schedRun) Now() time.Duration { return time.Since(x.Start) }

func (x *schedRun) park(thread, label string) {
	ch := make(chan struct{})
	x.mu.Lock()
	x.seq++
	x.parked = append(x.parked, &parkedG{thread: thread, label: label, ch: ch, seq: x.seq})
	x.mu.Unlock()
	<-ch
}

// Yield is an explicit scheduling point inside a thread body.
func (x *schedRun) Yield(thread, label string) { x.park(thread, "yield:"+label) }

// runSchedule executes the scenario once, following prefix and then default choices.
func runSchedule(t *testing.T, b *world.Backend, sc *schedScenario, prefix []int) *schedRun {
	x := &schedRun{B: b, done: map[string]bool{}, Data: map[string]any{}, threadOf: map[string]int{}}
	if sc.Snap != nil {
		b.Restore(sc.Snap)
	}
	quantum := sc.Quantum
	if quantum == 0 {
		quantum = 100 * time.Millisecond
	}
	horizon := sc.Horizon
	if horizon == 0 {
		horizon = 5 * time.Minute
	}
	problem := runBubble(t, func() {
		resetRand(3)
		x.Start = time.Now()
		n := sc.Instances
		if n < 1 {
			n = 1
		}
		names := map[string]bool{}
		for i, th := range sc.Threads {
			names[th.Name] = true
			x.threadOf[th.Name] = i
		}
		for _, n := range sc.ExtraNames {
			names[n] = true
		}
		for i := 0; i < n; i++ {
			inst, err := b.NewInstance(sc.Opts)
			if err != nil {
				x.Stuck = "new instance: " + err.Error()
				return
			}
			inst.SetInterceptor(func(ctx context.Context, s world.Step) error {
				th := world.Who(ctx)
				if !names[th] {
					return nil
				}
				fail := sc.FailStep != nil && sc.FailStep(th, s, normLabel(s))
				if sc.Control != nil && !sc.Control(th, s) {
					if fail {
						return world.ErrInjected
					}
					return nil
				}
				x.park(th, normLabel(s))
				if fail {
					return world.ErrInjected
				}
				return nil
			})
			x.Insts = append(x.Insts, inst)
		}
		var cancels []context.CancelFunc
		var wg sync.WaitGroup
		for _, th := range sc.Threads {
			th := th
			ctx, cancel := context.WithCancel(world.WithThread(context.Background(), th.Name))
			cancels = append(cancels, cancel)
			wg.Add(1)
			go func() {
				defer wg.Done()
				defer func() {
					x.mu.Lock()
					x.done[th.Name] = true
					x.mu.Unlock()
				}()
				th.Run(ctx, x)
			}()
		}
		step := 0
		timeFirstUsed := 0
		for {
			synctest.Wait()
			x.mu.Lock()
			P := append([]*parkedG{}, x.parked...)
			allDone := len(x.done) == len(sc.Threads)
			x.mu.Unlock()
			if sc.AtQuiescence != nil {
				sc.AtQuiescence(x)
			}
			if len(P) == 0 {
				if allDone {
					break
				}
				if time.Since(x.Start) > horizon {
					x.Stuck = fmt.Sprintf("threads still running at the horizon (%v of virtual time): deadlock or livelock", horizon)
					break
				}
				x.advance(quantum)
				continue
			}
			// canonical menu: the thread that ran last first, then by thread name, label, arrival
			sort.Slice(P, func(i, j int) bool {
				a, bb := P[i], P[j]
				la, lb := a.thread == x.last, bb.thread == x.last
				if la != lb {
					return la
				}
				if a.thread != bb.thread {
					return a.thread < bb.thread
				}
				if a.label != bb.label {
					return a.label < bb.label
				}
				return a.seq < bb.seq
			})
			lastEnabled := false
			for _, p := range P {
				if p.thread == x.last {
					lastEnabled = true
				}
			}
			d := decision{}
			for _, p := range P {
				d.Menu = append(d.Menu, p.thread+":"+p.label)
				d.Preempt = append(d.Preempt, lastEnabled && p.thread != x.last)
			}
			d.TimeAlt = sc.TimeFirst > 0 && timeFirstUsed < sc.TimeFirst
			choice := 0
			nAlt := len(P)
			if d.TimeAlt {
				nAlt++
			}
			if nAlt > 1 {
				if step < len(prefix) {
					choice = prefix[step]
					if choice >= nAlt {
						x.Diverged = true
						choice = 0
					}
				}
				step++
				d.Choice = choice
				x.Decisions = append(x.Decisions, d)
			}
			if choice == len(P) { // let time pass first
				timeFirstUsed++
				step := quantum
				if sc.TimeFirstStep > 0 {
					step = sc.TimeFirstStep
				}
				x.Event("time passes (%v) while %d steps are pending", step, len(P))
				for step > 0 {
					q := quantum
					if q > step {
						q = step
					}
					x.advance(q)
					step -= q
				}
				continue
			}
			g := P[choice]
			x.mu.Lock()
			for i, p := range x.parked {
				if p == g {
					x.parked = append(x.parked[:i], x.parked[i+1:]...)
					break
				}
			}
			x.mu.Unlock()
			x.last = g.thread
			if sc.OnRelease != nil {
				sc.OnRelease(x, g.thread, g.label)
			}
			close(g.ch)
		}
		if sc.Finally != nil {
			sc.Finally(x)
		}
		// shutdown: release anything still parked, cancel the threads, close the instances
		for _, inst := range x.Insts {
			inst.SetInterceptor(nil)
		}
		x.mu.Lock()
		for _, p := range x.parked {
			close(p.ch)
		}
		x.parked = nil
		x.mu.Unlock()
		for _, c := range cancels {
			c()
		}
		if x.Stuck != "" {
			for _, inst := range x.Insts {
				inst.Crash()
			}
		}
		synctest.Wait()
		for _, inst := range x.Insts {
			inst.Close()
		}
	})
	if problem != "" && x.Stuck == "" {
		x.Stuck = problem
	}
	return x
}

func (x *schedRun) advance(d time.Duration) {
	time.Sleep(d)
	x.B.Etcd.Tick()
	if x.B.Redis != nil {
		x.B.Redis.FastForward(d)
	}
}

// preemptionsBefore counts the preemptions among the first n decisions.
func preemptionsBefore(ds []decision, n int) int {
	k := 0
	for i := 0; i < n && i < len(ds); i++ {
		c := ds[i].Choice
		if c < len(ds[i].Preempt) && ds[i].Preempt[c] {
			k++
		}
	}
	return k
}

type schedStats struct {
	Executions int
	Diverged   int
	MaxPoints  int
	Bound      int
	Complete   bool
}

// exploreSchedules runs the DFS with the given preemption bound. check is called for every
// execution; the subtrees hanging off the root execution are distributed over the shards.
func exploreSchedules(t *testing.T, c *vcore.Ctx, b *world.Backend, sc *schedScenario, bound int, check func(x *schedRun, choices []int)) schedStats {
	st := schedStats{Bound: bound, Complete: true}
	var subtree int64
	var explore func(prefix []int, depth int)
	explore = func(prefix []int, depth int) {
		if c.Expired() {
			st.Complete = false
			return
		}
		x := runSchedule(t, b, sc, prefix)
		st.Executions++
		c.Exec()
		c.Eval()
		if x.Diverged {
			st.Diverged++
		}
		if len(x.Decisions) > st.MaxPoints {
			st.MaxPoints = len(x.Decisions)
		}
		choices := make([]int, len(x.Decisions))
		for i, d := range x.Decisions {
			choices[i] = d.Choice
		}
		check(x, choices)
		for i := len(prefix); i < len(x.Decisions); i++ {
			d := x.Decisions[i]
			base := preemptionsBefore(x.Decisions, i)
			if sc.AllDeviations {
				base = 0
				for _, pd := range x.Decisions[:i] {
					if pd.Choice != 0 {
						base++
					}
				}
			}
			nAlt := len(d.Menu)
			if d.TimeAlt {
				nAlt++
			}
			for alt := 1; alt < nAlt; alt++ {
				cost := base
				if sc.AllDeviations || (alt < len(d.Preempt) && d.Preempt[alt]) {
					cost++
				}
				if bound >= 0 && cost > bound {
					continue
				}
				if depth == 0 {
					subtree++
					if !c.Mine(subtree) {
						continue
					}
				}
				np := append(append([]int{}, choices[:i]...), alt)
				explore(np, depth+1)
			}
		}
	}
	// the root execution is run (and checked) by every shard; only shard 0 counts it
	explore(nil, 0)
	return st
}

// renderSchedule gives a readable account of an execution for violation details.
func renderSchedule(x *schedRun) string {
	var sb strings.Builder
	for i, d := range x.Decisions {
		c := "time-passes"
		if d.Choice < len(d.Menu) {
			c = d.Menu[d.Choice]
		}
		fmt.Fprintf(&sb, "%d:%s ", i, c)
		if sb.Len() > 1500 {
			sb.WriteString("...")
			break
		}
	}
	return sb.String()
}
