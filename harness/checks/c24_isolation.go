package checks

import (
	"context"
	"fmt"
	"os"
	"path"
	"strings"
	"sync"
	"testing"
	"testing/synctest"

	coretypes "github.com/projecteru2/core/types"
	"github.com/projecteru2/core/utils"

	"verif/harness/vcore"
	"verif/harness/world"
)

// C24: metadata queries are isolated per application, entrypoint and node.
//
// Observed at the Store API (real etcd store over memetcd, real redis store over miniredis).
// A world is a set of (app, entry, node) triples; one workload per triple is recorded with
// Store.AddWorkload under the name utils.MakeWorkloadName(app, entry, ident). Then
//   ListWorkloads(A, E, N)        for every combination of given/empty fields
//   GetDeployStatus(A, E)         before and after CreateProcessing(triple, 2) for every triple
//   WorkloadStatusStream(A, E, N) (etcd only: miniredis has no keyspace notifications) with a
//                                 status report for every workload while the streams are open
// are compared with the reference: the created triples filtered by EQUALITY on the given
// fields. Separately the pure helpers: ParseWorkloadName(MakeWorkloadName(a, e, i)) = (a, e, i).
//
// Worlds of size <= 1 are queried with the FULL name alphabet (so every (query name, stored
// name) pair is covered); larger worlds with the names present (thorough: plus one absent name).

func init() {
	register(Meta{ID: "C24", Level: "exploration", BudgetQuick: 240, BudgetThor: 1500, GoMaxProcs: 2},
		func(t *testing.T, c *vcore.Ctx) { c24Explore(t, c) })
}

type c24Triple struct {
	App   string `json:"app"`
	Entry string `json:"entry"`
	Node  string `json:"node"`
}

type c24Case struct {
	Backend string      `json:"backend"`
	World   []c24Triple `json:"world"`
	Full    bool        `json:"full_query_alphabet"`
	Query   string      `json:"query,omitempty"` // the first failing query (informative; a replay runs all queries of the world)
}

var (
	c24Apps    = []string{"a", "ab", "a_b", "a_", "a/b", "/a", "a/", "a*", "a.b"}
	c24Entries = []string{"e", "ee", "e/f", "b", "*"}
	c24Nodes   = []string{"n", "nn", "n/m", "n_1"}
	// thorough: triples of workloads over the names that interact
	c24AppsT    = []string{"a", "ab", "a/b", "a*"}
	c24EntriesT = []string{"e", "e/f", "b", "*"}
	c24NodesT   = []string{"n", "n/m"}
)

const c24Absent = "zz"

func c24ID(i int) string    { return fmt.Sprintf("%064x", 0xabc0+i) }
func c24Ident(i int) string { return "id" + string(rune('a'+i)) }

// c24Accepted filters the (app, entry) alphabet through the request validation of the API.
func c24Accepted() (apps, entries []string, dropped []string) {
	ok := func(app, entry string) bool {
		o := &coretypes.DeployOptions{Name: app, Entrypoint: &coretypes.Entrypoint{Name: entry}, Podname: "p", Image: "img", Count: 1}
		return o.Validate() == nil
	}
	for _, a := range c24Apps {
		if ok(a, "e") {
			apps = append(apps, a)
		} else {
			dropped = append(dropped, "app:"+a)
		}
	}
	for _, e := range append(append([]string{}, c24Entries...), "e_f") {
		if ok("a", e) {
			entries = append(entries, e)
		} else {
			dropped = append(dropped, "entry:"+e)
		}
	}
	return
}

func c24Triples(apps, entries, nodes []string) []c24Triple {
	var out []c24Triple
	for _, a := range apps {
		for _, e := range entries {
			for _, n := range nodes {
				out = append(out, c24Triple{a, e, n})
			}
		}
	}
	return out
}

func c24In(xs []string, x string) bool {
	for _, y := range xs {
		if x == y {
			return true
		}
	}
	return false
}

// c24Worlds lists the worlds simplest-first.
func c24Worlds(thorough bool, apps, entries []string) []c24Case {
	all := c24Triples(apps, entries, c24Nodes)
	ws := []c24Case{{World: nil, Full: true}}
	for _, t := range all {
		ws = append(ws, c24Case{World: []c24Triple{t}, Full: true})
	}
	for i := range all {
		for j := i + 1; j < len(all); j++ {
			ws = append(ws, c24Case{World: []c24Triple{all[i], all[j]}})
		}
	}
	if thorough {
		var ta, te []string
		for _, a := range c24AppsT {
			if c24In(apps, a) {
				ta = append(ta, a)
			}
		}
		for _, e := range c24EntriesT {
			if c24In(entries, e) {
				te = append(te, e)
			}
		}
		red := c24Triples(ta, te, c24NodesT)
		for i := range red {
			for j := i + 1; j < len(red); j++ {
				for k := j + 1; k < len(red); k++ {
					ws = append(ws, c24Case{World: []c24Triple{red[i], red[j], red[k]}})
				}
			}
		}
	}
	return ws
}

func c24HasGlob(ss ...string) bool {
	for _, s := range ss {
		if strings.ContainsAny(s, "*?[]\\") {
			return true
		}
	}
	return false
}

func c24HasSlash(ss ...string) bool {
	for _, s := range ss {
		if strings.Contains(s, "/") {
			return true
		}
	}
	return false
}

func c24Explore(t *testing.T, c *vcore.Ctx) {
	dir := os.Getenv("VERIF_TMP")
	if dir == "" {
		dir = t.TempDir()
	}
	apps, entries, dropped := c24Accepted()
	c.SetRule("worlds = every set of <= 2 distinct (app, entry, node) triples (thorough: plus every set of 3 over apps {a,ab,a/b,a*} x entries {e,e/f,b,*} x nodes {n,n/m}) with one workload per triple added through Store.AddWorkload; names: apps {a,ab,a_b,a_,a/b,/a,a/,a*,a.b}, entries {e,ee,e/f,b,*}, nodes {n,nn,n/m,n_1}, all accepted by DeployOptions.Validate / AddNodeOptions.Validate; queries per world: ListWorkloads over every given/empty combination of (app, entry, node) (worlds of size <= 1: every name of the alphabet, so every absent name too; larger worlds: the names present, thorough: plus one absent name), GetDeployStatus(app, entry) before and after CreateProcessing(count 2) for every triple, WorkloadStatusStream prefixes on etcd; plus ParseWorkloadName o MakeWorkloadName over all names x idents {a,ab,xyz}; both store backends; non-trivial = worlds with at least one workload")
	c.Bound("apps", c24Apps)
	c.Bound("entries", c24Entries)
	c.Bound("nodes", c24Nodes)
	c.Bound("dropped_by_validation", dropped)
	maxW := 2
	if c.Thorough() {
		maxW = 3
	}
	c.Bound("max_workloads_per_world", maxW)
	c.Bound("backends", "etcd, redis (status stream: etcd only)")
	c.Assume("status reports carry the application/entrypoint the core derives from the workload name (calcium.SetWorkloadsStatus uses ParseWorkloadName), so the stream part sets them that way")

	// pure helpers
	if c.Replay == nil && c.Mine(0) {
		c24Names(c, apps, entries)
	}

	base := int64(1)
	for _, be := range []string{"etcd", "redis"} {
		redis := be == "redis"
		b := world.NewBackend(dir, redis)
		snap, err := c24Setup(t, b, redis)
		if err != nil {
			c.HarnessError("setup %s: %v", be, err)
			b.Close()
			return
		}
		var mine []c24Case
		if c.Replay != nil {
			var cc c24Case
			if err := jsonUnmarshal(c.Replay, &cc); err != nil {
				c.HarnessError("replay: %v", err)
				return
			}
			if cc.Backend == be {
				mine = append(mine, cc)
			}
		} else {
			ws := c24Worlds(c.Thorough(), apps, entries)
			for i := range ws {
				if c.Mine(base + int64(i)) {
					ws[i].Backend = be
					mine = append(mine, ws[i])
				}
			}
			base += int64(len(ws))
		}
		const chunk = 100
		for lo := 0; lo < len(mine); lo += chunk {
			if c.Expired() {
				c.CapHit("budget reached")
				b.Close()
				return
			}
			hi := lo + chunk
			if hi > len(mine) {
				hi = len(mine)
			}
			part := mine[lo:hi]
			problem := runBubble(t, func() {
				inst, err := b.NewInstance(world.InstanceOpts{Redis: redis, NoWAL: true})
				if err != nil {
					panic(err)
				}
				defer inst.Close()
				ctx := world.WithThread(context.Background(), "T0")
				for i := range part {
					b.Restore(snap)
					c24One(ctx, c, inst, &part[i], apps, entries)
				}
			})
			if problem != "" {
				c.HarnessError("%s worlds %d..%d: %s", be, lo, hi, firstLine(problem))
				b.Close()
				return
			}
		}
		b.Close()
	}
}

func c24Names(c *vcore.Ctx, apps, entries []string) {
	for _, a := range apps {
		for _, e := range entries {
			for _, id := range []string{"a", "ab", "xyz"} {
				c.Eval()
				name := utils.MakeWorkloadName(a, e, id)
				ga, ge, gi, err := utils.ParseWorkloadName(name)
				c.Outcome("name/roundtrip")
				if err == nil && ga == a && ge == e && gi == id {
					continue
				}
				sig := "C24/name/roundtrip-mismatch"
				if err == nil && strings.HasPrefix(a, "/") && ga == strings.TrimLeft(a, "/") && ge == e && gi == id {
					sig = "C24/name/leading-slash-lost"
				}
				c.Violate(sig, fmt.Sprintf("ParseWorkloadName(MakeWorkloadName(%q, %q, %q) = %q) = (%q, %q, %q, err=%v)", a, e, id, name, ga, ge, gi, err),
					c24Case{Backend: "names", Query: fmt.Sprintf("%q/%q/%q", a, e, id)})
			}
		}
	}
}

func c24Setup(t *testing.T, b *world.Backend, redis bool) (*world.Snap, error) {
	var err error
	problem := runBubble(t, func() {
		inst, e := b.NewInstance(world.InstanceOpts{Redis: redis, NoWAL: true})
		if e != nil {
			err = e
			return
		}
		defer inst.Close()
		ctx := world.WithThread(context.Background(), "T0")
		if _, e := inst.Store.AddPod(ctx, "p", ""); e != nil {
			err = e
			return
		}
		for _, n := range c24Nodes {
			opts := &coretypes.AddNodeOptions{Nodename: n, Endpoint: world.FakevPrefix + n, Podname: "p", Test: true}
			if e := opts.Validate(); e != nil {
				err = fmt.Errorf("node name %q rejected by validation: %w", n, e)
				return
			}
			if _, e := inst.Store.AddNode(ctx, opts); e != nil {
				err = fmt.Errorf("add node %q: %w", n, e)
				return
			}
		}
		// every node can be read back on its own
		for _, n := range c24Nodes {
			got, e := inst.Store.GetNode(ctx, n)
			if e != nil || got.Name != n {
				err = fmt.Errorf("get node %q: %v %v", n, got, e)
				return
			}
		}
	})
	if problem != "" {
		return nil, fmt.Errorf("%s", problem)
	}
	if err != nil {
		return nil, err
	}
	return b.Save(), nil
}

// c24Transient recognises transport errors of the loopback redis connection (its read deadline
// runs on the real clock, so a badly overloaded machine can trip it). They say nothing about the
// property: the call is repeated, and a world that still cannot be queried is skipped with the
// run marked as not exhaustive.
func c24Transient(err error) bool {
	if err == nil {
		return false
	}
	m := err.Error()
	for _, s := range []string{"i/o timeout", "connection reset", "connection refused", "broken pipe", "use of closed network connection"} {
		if strings.Contains(m, s) {
			return true
		}
	}
	return false
}

func c24Retry(f func() error) error {
	var err error
	for i := 0; i < 5; i++ {
		if err = f(); !c24Transient(err) {
			return err
		}
	}
	return err
}

type c24W struct {
	c24Triple
	ID string
}

func c24Trim(w c24W) c24W {
	w.App, w.Entry, w.Node = strings.Trim(w.App, "/"), strings.Trim(w.Entry, "/"), strings.Trim(w.Node, "/")
	return w
}

func c24Match(w c24W, a, e, n string) bool {
	return (a == "" || w.App == a) && (e == "" || w.Entry == e) && (n == "" || w.Node == n)
}

func c24Values(full, absent bool, alphabet []string, present []string) []string {
	var out []string
	if full {
		out = append(out, alphabet...)
	} else {
		seen := map[string]bool{}
		for _, p := range present {
			if !seen[p] {
				seen[p] = true
				out = append(out, p)
			}
		}
		if absent {
			out = append(out, c24Absent)
		}
	}
	return out
}

func c24One(ctx context.Context, c *vcore.Ctx, inst *world.Instance, cc *c24Case, apps, entries []string) {
	be := cc.Backend
	redis := be == "redis"
	st := inst.Store
	reported := map[string]bool{}
	viol := func(op, cause, query, detail string) {
		sig := "C24/" + be + "/" + op + "/" + cause
		c.Outcome(op + "/" + cause)
		if reported[sig] {
			return
		}
		reported[sig] = true
		rc := *cc
		rc.Query = query
		c.Violate(sig, fmt.Sprintf("%s | query=%s world=%s", detail, query, vcore.JSON(cc.World)), rc)
	}
	var ws []c24W
	for i, t := range cc.World {
		w := c24W{c24Triple: t, ID: c24ID(i)}
		err := c24Retry(func() error {
			return st.AddWorkload(ctx, &coretypes.Workload{ID: w.ID, Name: utils.MakeWorkloadName(t.App, t.Entry, c24Ident(i)), Podname: "p", Nodename: t.Node}, nil)
		})
		if c24Transient(err) {
			c.CapHit("transport error of the redis connection (overloaded machine): world skipped")
			return
		}
		if err != nil {
			c.Eval()
			viol("add", "workload-rejected", vcore.JSON(t), "AddWorkload failed: "+err.Error())
			return
		}
		ws = append(ws, w)
	}
	if len(ws) > 0 {
		c.Nontrivial(be + vcore.JSON(cc.World))
	}
	var pa, pe, pn []string
	for _, w := range ws {
		pa, pe, pn = append(pa, w.App), append(pe, w.Entry), append(pn, w.Node)
	}
	// absent names are covered by the worlds of size <= 1 (full alphabet); the larger worlds add one
	// more absent name in the thorough tier only
	qa, qe, qn := c24Values(cc.Full, c.Thorough(), apps, pa), c24Values(cc.Full, c.Thorough(), entries, pe), c24Values(cc.Full, c.Thorough(), c24Nodes, pn)

	// classify one workload wrongly returned for (a, e, n)
	extraCause := func(a, e, n string, x c24W) string {
		ea, ee, en := a, e, n
		if ea == "" {
			ee = ""
		}
		if ee == "" {
			en = ""
		}
		switch {
		case (ea != a || ee != e || en != n) && c24Match(x, ea, ee, en):
			return "filter-ignored-without-parent"
		case c24Match(c24Trim(x), strings.Trim(a, "/"), strings.Trim(e, "/"), strings.Trim(n, "/")),
			c24Match(c24Trim(x), strings.Trim(ea, "/"), strings.Trim(ee, "/"), strings.Trim(en, "/")):
			return "edge-slash-cleaned" // "/a" and "a/" are the same path segment as "a" (possibly on top of an ignored filter)
		case redis && c24HasGlob(a, e, n):
			return "glob-in-name"
		case c24HasSlash(a, e, n, x.App, x.Entry, x.Node):
			return "prefix-collision-slash"
		}
		return "unexpected-extra"
	}
	judgeSet := func(op, a, e, n string, got []string, err error) {
		c.Eval()
		q := fmt.Sprintf("(%q,%q,%q)", a, e, n)
		if c24Transient(err) {
			c.CapHit("transport error of the redis connection (overloaded machine): query skipped")
			return
		}
		if err != nil {
			viol(op, "query-failed", q, "error: "+err.Error())
			return
		}
		want := map[string]bool{}
		byID := map[string]c24W{}
		for _, w := range ws {
			byID[w.ID] = w
			if c24Match(w, a, e, n) {
				want[w.ID] = true
			}
		}
		seen := map[string]int{}
		okAll := true
		for _, id := range got {
			seen[id]++
			x, known := byID[id]
			switch {
			case !known:
				okAll = false
				viol(op, "unknown-workload", q, "returned id "+id)
			case seen[id] > 1:
				okAll = false
				viol(op, "returned-twice", q, fmt.Sprintf("workload of %s returned more than once", vcore.JSON(x.c24Triple)))
			case !want[id]:
				okAll = false
				viol(op, extraCause(a, e, n, x), q, fmt.Sprintf("returned the workload created under %s", vcore.JSON(x.c24Triple)))
			}
		}
		for _, w := range ws {
			if want[w.ID] && seen[w.ID] == 0 {
				okAll = false
				cause := "workload-missing"
				if c24HasSlash(w.App, w.Entry, w.Node) {
					cause = "slash-name-not-found"
				}
				viol(op, cause, q, fmt.Sprintf("the workload created under %s is not returned", vcore.JSON(w.c24Triple)))
			}
		}
		if okAll {
			c.Outcome(fmt.Sprintf("%s/exact/%d", op, len(want)))
			if len(want) > 0 && len(want) < len(ws) && c.WantSample() {
				c.Sample(map[string]any{"backend": be, "world": cc.World, "op": op, "query": []string{a, e, n}, "returned": len(got)})
			}
		}
	}

	// 1. ListWorkloads over every given/empty combination
	for _, a := range append([]string{""}, qa...) {
		for _, e := range append([]string{""}, qe...) {
			for _, n := range append([]string{""}, qn...) {
				var list []*coretypes.Workload
				err := c24Retry(func() (err error) { list, err = st.ListWorkloads(ctx, a, e, n, 0, nil); return })
				var ids []string
				for _, w := range list {
					ids = append(ids, w.ID)
				}
				judgeSet("list", a, e, n, ids, err)
			}
		}
	}

	// 2. GetDeployStatus, without and with processing records
	judgeCount := func(op, a, e string, perTriple int) {
		c.Eval()
		q := fmt.Sprintf("(%q,%q)", a, e)
		var got map[string]int
		err := c24Retry(func() (err error) { got, err = st.GetDeployStatus(ctx, a, e); return })
		if c24Transient(err) {
			c.CapHit("transport error of the redis connection (overloaded machine): query skipped")
			return
		}
		if err != nil {
			viol(op, "query-failed", q, "error: "+err.Error())
			return
		}
		want := map[string]int{}
		for _, w := range ws {
			if w.App == a && w.Entry == e {
				want[w.Node] += perTriple
			}
		}
		adj := map[string]int{}
		for k, v := range got {
			if v != 0 {
				adj[k] = v
			}
		}
		bad := false
		// a node name with a slash counted under its last segment
		for _, node := range vcore.SortedKeys(want) {
			if d := want[node] - adj[node]; d > 0 && strings.Contains(node, "/") && adj[path.Base(node)]-want[path.Base(node)] >= d {
				bad = true
				viol(op, "node-name-split-slash", q, fmt.Sprintf("expected %v, got %v: node %q is counted as %q", want, got, node, path.Base(node)))
				adj[node] += d
				if adj[path.Base(node)] -= d; adj[path.Base(node)] == 0 {
					delete(adj, path.Base(node))
				}
			}
		}
		// the counts a store would give that treats "/a", "a/" and "a" as one name
		trimmed := map[string]int{}
		for _, w := range ws {
			if c24Match(c24Trim(w), strings.Trim(a, "/"), strings.Trim(e, "/"), "") {
				trimmed[w.Node] += perTriple
			}
		}
		for _, k := range vcore.SortedKeys(adj) {
			if adj[k] > want[k] {
				bad = true
				cause := "count-too-high"
				switch {
				case adj[k] <= trimmed[k]:
					cause = "edge-slash-cleaned"
				case redis && c24HasGlob(a, e):
					cause = "glob-in-name"
				case c24HasSlash(append(append(append([]string{a, e}, pa...), pe...), pn...)...):
					cause = "prefix-collision-slash"
				}
				viol(op, cause, q, fmt.Sprintf("expected %v, got %v", want, got))
				break
			}
		}
		for _, k := range vcore.SortedKeys(want) {
			if adj[k] < want[k] {
				bad = true
				viol(op, "count-too-low", q, fmt.Sprintf("expected %v, got %v", want, got))
				break
			}
		}
		if !bad {
			c.Outcome(fmt.Sprintf("%s/exact/%d", op, len(want)))
		}
	}
	for _, a := range qa {
		for _, e := range qe {
			judgeCount("deploystatus", a, e, 1)
		}
	}

	// 3. status streams (etcd): open every prefix, report a status for every workload, collect
	if !redis && len(ws) > 0 {
		type sq struct{ a, e, n string }
		var qs []sq
		qs = append(qs, sq{})
		for _, a := range qa {
			qs = append(qs, sq{a, "", ""})
			for _, e := range qe {
				qs = append(qs, sq{a, e, ""})
				for _, n := range qn {
					qs = append(qs, sq{a, e, n})
				}
			}
		}
		const batch = 16
		for lo := 0; lo < len(qs); lo += batch {
			hi := lo + batch
			if hi > len(qs) {
				hi = len(qs)
			}
			sctx, cancel := context.WithCancel(ctx)
			var mu sync.Mutex
			got := make([][]string, hi-lo)
			var wg sync.WaitGroup
			for i, q := range qs[lo:hi] {
				ch := st.WorkloadStatusStream(sctx, q.a, q.e, q.n, nil)
				wg.Add(1)
				go func(i int) {
					defer wg.Done()
					for m := range ch {
						mu.Lock()
						got[i] = append(got[i], m.ID)
						mu.Unlock()
					}
				}(i)
			}
			synctest.Wait()
			var serr error
			// the value differs per batch: an unchanged status is (rightly) not written again
			for _, w := range ws {
				sa, se, _, err := utils.ParseWorkloadName(utils.MakeWorkloadName(w.App, w.Entry, "x"))
				if err != nil {
					sa, se = w.App, w.Entry
				}
				if err := st.SetWorkloadStatus(ctx, &coretypes.StatusMeta{ID: w.ID, Running: true, Healthy: true, Extension: []byte(fmt.Sprint("batch", lo)), Appname: sa, Entrypoint: se, Nodename: w.Node}, 0); err != nil {
					serr = err
				}
				synctest.Wait()
			}
			cancel()
			wg.Wait()
			for i, q := range qs[lo:hi] {
				judgeSet("stream", q.a, q.e, q.n, got[i], serr)
			}
		}
	}

	// 4. processing records count per (app, entry) too
	for i, w := range ws {
		err := c24Retry(func() error {
			return st.CreateProcessing(ctx, &coretypes.Processing{Appname: w.App, Entryname: w.Entry, Nodename: w.Node, Ident: "proc" + c24Ident(i)}, 2)
		})
		if c24Transient(err) {
			c.CapHit("transport error of the redis connection (overloaded machine): world skipped")
			return
		}
		if err != nil {
			c.Eval()
			viol("processing", "create-failed", vcore.JSON(w.c24Triple), err.Error())
			return
		}
	}
	if len(ws) > 0 {
		for _, a := range qa {
			for _, e := range qe {
				judgeCount("processing", a, e, 3)
			}
		}
	}
}
