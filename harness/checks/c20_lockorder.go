package checks

import (
	"bytes"
	"context"
	"fmt"
	"os"
	"runtime"
	"sort"
	"strconv"
	"strings"
	"sync"
	"testing"
	"time"

	"github.com/projecteru2/core/lock"
	resourcetypes "github.com/projecteru2/core/resource/types"
	"github.com/projecteru2/core/store"
	coretypes "github.com/projecteru2/core/types"

	"verif/harness/vcore"
	"verif/harness/world"
)

// C20: cluster operations take their distributed locks in one global order. Every operation
// of the quantifier is run (real Calcium over the real store) with every node filter / id
// list of the alphabet through a store wrapper that records CreateLock/Lock/Unlock with the
// goroutine that issued them (a locked callback runs on the goroutine that took the lock).
// Oracle per goroutine, at every acquisition attempt of key k while holding H:
//   rank(h) < rank(k) for all h in H, rank = (class: pod lock < workload lock, key);
//   a node-operation lock is requested only with H empty; no key is requested twice.

func init() {
	register(Meta{ID: "C20", Level: "exploration", BudgetQuick: 240, BudgetThor: 1800, GoMaxProcs: 2},
		func(t *testing.T, c *vcore.Ctx) { c20Explore(t, c) })
}

type c20Case struct {
	Op       string   `json:"op"`
	Includes []string `json:"includes,omitempty"`
	Excludes []string `json:"excludes,omitempty"`
	Pod      string   `json:"pod,omitempty"`
	IDs      []int    `json:"workloads,omitempty"` // indices into the workloads created by the setup (w0@a, w1@b, w2@c)
	Node     string   `json:"node,omitempty"`
	Backend  string   `json:"backend"`
	Reversed bool     `json:"store_lists_nodes_in_reverse_order,omitempty"`
	Cycle    *c20cCase `json:"cycle_case,omitempty"` // second part (c20b_cycles.go)
}

type lockEvent struct {
	G    int64
	Kind string // attempt | acquired | failed | release
	Key  string
}

type lockRec struct {
	mu     sync.Mutex
	events []lockEvent
}

func goid() int64 {
	b := make([]byte, 64)
	b = b[:runtime.Stack(b, false)]
	b = bytes.TrimPrefix(b, []byte("goroutine "))
	b = b[:bytes.IndexByte(b, ' ')]
	n, _ := strconv.ParseInt(string(b), 10, 64)
	return n
}

func (r *lockRec) add(kind, key string) {
	r.mu.Lock()
	r.events = append(r.events, lockEvent{G: goid(), Kind: kind, Key: key})
	r.mu.Unlock()
}

type recStore struct {
	store.Store
	rec     *lockRec
	reverse bool
}

// GetNodesByPod: the Store interface promises no order for listed nodes (etcd lists by key, a real
// redis in no particular order). The harness decides the order: as the backend returned it, or reversed.
func (s recStore) GetNodesByPod(ctx context.Context, nf *coretypes.NodeFilter, opts ...store.Option) ([]*coretypes.Node, error) {
	ns, err := s.Store.GetNodesByPod(ctx, nf, opts...)
	if s.reverse {
		for i, j := 0, len(ns)-1; i < j; i, j = i+1, j-1 {
			ns[i], ns[j] = ns[j], ns[i]
		}
	}
	return ns, err
}

func (s recStore) CreateLock(key string, ttl time.Duration) (lock.DistributedLock, error) {
	l, err := s.Store.CreateLock(key, ttl)
	if err != nil {
		return l, err
	}
	return &recLock{DistributedLock: l, key: key, rec: s.rec}, nil
}

type recLock struct {
	lock.DistributedLock
	key string
	rec *lockRec
	got bool
}

func (l *recLock) Lock(ctx context.Context) (context.Context, error) {
	l.rec.add("attempt", l.key)
	c, err := l.DistributedLock.Lock(ctx)
	if err == nil {
		l.got = true
		l.rec.add("acquired", l.key)
	} else {
		l.rec.add("failed", l.key)
	}
	return c, err
}

func (l *recLock) TryLock(ctx context.Context) (context.Context, error) {
	l.rec.add("attempt", l.key)
	c, err := l.DistributedLock.TryLock(ctx)
	if err == nil {
		l.got = true
		l.rec.add("acquired", l.key)
	} else {
		l.rec.add("failed", l.key)
	}
	return c, err
}

func (l *recLock) Unlock(ctx context.Context) error {
	if l.got {
		l.got = false
		l.rec.add("release", l.key)
	}
	return l.DistributedLock.Unlock(ctx)
}

func lockClass(key string) int {
	switch {
	case strings.HasPrefix(key, "plock_"):
		return 0
	case strings.HasPrefix(key, "clock_"):
		return 1
	case strings.HasPrefix(key, "cnode_op_"):
		return 2
	}
	return 3
}

// checkLockOrder returns (signature, detail) pairs for the recorded events.
func checkLockOrder(events []lockEvent) [][2]string {
	var out [][2]string
	held := map[int64][]string{}
	for _, e := range events {
		switch e.Kind {
		case "attempt":
			H := held[e.G]
			k := e.Key
			for _, h := range H {
				switch {
				case h == k:
					out = append(out, [2]string{"lock-requested-twice", fmt.Sprintf("%s requested while already held", k)})
				case lockClass(k) == 2:
					out = append(out, [2]string{"node-operation-lock-while-holding", fmt.Sprintf("%s requested while holding %s", k, h)})
				case lockClass(h) == 2:
					// holding a node-operation lock and asking for another lock: the statement only
					// restricts when a node-operation lock may be requested
				case lockClass(h) > lockClass(k):
					out = append(out, [2]string{"pod-lock-after-workload-lock", fmt.Sprintf("%s requested while holding %s", k, h)})
				case lockClass(h) == lockClass(k) && h > k:
					cls := "pod"
					if lockClass(k) == 1 {
						cls = "workload"
					}
					out = append(out, [2]string{cls + "-locks-not-ascending", fmt.Sprintf("%s requested while holding %s", k, h)})
				}
			}
		case "acquired":
			held[e.G] = append(held[e.G], e.Key)
		case "release":
			H := held[e.G]
			for i := len(H) - 1; i >= 0; i-- {
				if H[i] == e.Key {
					held[e.G] = append(H[:i], H[i+1:]...)
					break
				}
			}
			// a lock released by another goroutine than the one that took it
			if len(H) == len(held[e.G]) {
				for g, hs := range held {
					for i, h := range hs {
						if h == e.Key {
							held[g] = append(hs[:i], hs[i+1:]...)
							break
						}
					}
				}
			}
		}
	}
	return out
}

func seqs(alphabet []string, maxLen int) [][]string {
	var out [][]string
	var rec func(cur []string)
	rec = func(cur []string) {
		if len(cur) > 0 {
			out = append(out, append([]string{}, cur...))
		}
		if len(cur) == maxLen {
			return
		}
		for _, a := range alphabet {
			rec(append(cur, a))
		}
	}
	rec(nil)
	return out
}

func c20Cases(thorough bool, backend string) []c20Case {
	var cs []c20Case
	maxLen := 2
	if thorough {
		maxLen = 3
	}
	for _, inc := range seqs([]string{"a", "b", "c"}, maxLen) {
		cs = append(cs, c20Case{Op: "create", Includes: inc, Pod: "p1", Backend: backend}, c20Case{Op: "capacity", Includes: inc, Pod: "p1", Backend: backend})
	}
	for _, op := range []string{"create", "capacity"} {
		cs = append(cs, c20Case{Op: op, Pod: "p1", Backend: backend}, c20Case{Op: op, Pod: "p1", Excludes: []string{"a"}, Backend: backend}, c20Case{Op: op, Pod: "p2", Backend: backend})
	}
	cs = append(cs, c20Case{Op: "capacity", Pod: "", Backend: backend}) // all pods
	// the same listings with the store returning the nodes in the opposite order
	for _, op := range []string{"create", "capacity"} {
		cs = append(cs, c20Case{Op: op, Pod: "p1", Backend: backend, Reversed: true})
	}
	cs = append(cs, c20Case{Op: "capacity", Pod: "", Backend: backend, Reversed: true}, c20Case{Op: "create", Includes: []string{"b", "a"}, Pod: "p1", Backend: backend, Reversed: true})
	idx := [][]int{}
	for _, s := range seqs([]string{"0", "1", "2"}, maxLen) {
		var is []int
		for _, x := range s {
			n, _ := strconv.Atoi(x)
			is = append(is, n)
		}
		idx = append(idx, is)
	}
	for _, op := range []string{"remove", "dissociate", "control", "send", "replace"} {
		for _, ids := range idx {
			cs = append(cs, c20Case{Op: op, IDs: ids, Backend: backend})
		}
	}
	for i := 0; i < 3; i++ {
		cs = append(cs, c20Case{Op: "realloc", IDs: []int{i}, Backend: backend})
	}
	for _, n := range []string{"a", "b", "c"} {
		cs = append(cs, c20Case{Op: "setnode", Node: n, Backend: backend}, c20Case{Op: "removenode", Node: n, Backend: backend}, c20Case{Op: "noderesource", Node: n, Backend: backend})
	}
	for _, p := range []string{"p1", "p2"} {
		cs = append(cs, c20Case{Op: "removepod", Pod: p, Backend: backend}, c20Case{Op: "podresource", Pod: p, Backend: backend})
	}
	return cs
}

func c20Explore(t *testing.T, c *vcore.Ctx) {
	dir := os.Getenv("VERIF_TMP")
	if dir == "" {
		dir = t.TempDir()
	}
	c.SetRule("operations {create, capacity, remove, dissociate, control, send, replace, realloc, set-node, remove-node, remove-pod, node-resource, pod-resource, and the background remap they trigger} over pods p1{a,c}, p2{b} with one workload per node; include lists = every sequence over {a,b,c} up to length 2 (thorough 3) incl. repeats and nodes of another pod, exclude list, whole pod, all pods (listings also with the store returning the nodes in reverse order: the Store interface promises none); workload id lists = every sequence over the 3 workloads up to the same length; both store backends; non-trivial = cases in which some goroutine requested a lock while holding another")
	c.Assume("the locked callback runs on the goroutine that acquired the lock (true for withNodesLocked / withWorkloadsLocked), so per-goroutine tracking is exact")
	if c.Replay != nil {
		var cc c20Case
		if jsonUnmarshal(c.Replay, &cc) == nil && cc.Cycle != nil {
			c20Cycles(t, c, cc.Cycle)
			return
		}
	} else {
		defer c20Cycles(t, c, nil)
	}
	backends := []string{"etcd", "redis"}
	for _, be := range backends {
		b := world.NewBackend(dir, be == "redis")
		snap, ids, err := c20Setup(t, b, be == "redis")
		if err != nil {
			c.HarnessError("setup %s: %v", be, err)
			b.Close()
			return
		}
		if c.Replay != nil {
			var cc c20Case
			if err := jsonUnmarshal(c.Replay, &cc); err != nil {
				c.HarnessError("replay: %v", err)
				return
			}
			if cc.Backend == be {
				c20One(t, c, b, snap, ids, &cc)
			}
			b.Close()
			continue
		}
		for i, cc := range c20Cases(c.Thorough(), be) {
			if !c.Mine(int64(i)) {
				continue
			}
			if c.Expired() {
				c.CapHit("budget reached")
				b.Close()
				return
			}
			cc := cc
			c20One(t, c, b, snap, ids, &cc)
		}
		b.Close()
	}
}

func c20Setup(t *testing.T, b *world.Backend, redis bool) (*world.Snap, []string, error) {
	var err error
	opts := world.InstanceOpts{Redis: redis, NoWAL: true}
	tr := wexec(t, b, opts, nil, 5, func(ctx context.Context, inst *world.Instance) {
		for _, p := range []string{"p1", "p2"} {
			if _, e := inst.Cal.AddPod(ctx, p, ""); e != nil {
				err = e
				return
			}
		}
		for _, n := range []world.NodeSpec{{Name: "a", Pod: "p1"}, {Name: "b", Pod: "p2"}, {Name: "c", Pod: "p1"}} {
			n.CPU, n.Memory, n.Test = 4, 1000, true
			if _, e := inst.Cal.AddNode(ctx, n.Options()); e != nil {
				err = e
				return
			}
		}
		for _, n := range []struct{ node, pod string }{{"a", "p1"}, {"b", "p2"}, {"c", "p1"}} {
			msgs, e := inst.Create(ctx, world.DeploySpec{Pod: n.pod, Count: 1, Strategy: "AUTO", Memory: 50, Filter: &coretypes.NodeFilter{Podname: n.pod, Includes: []string{n.node}}})
			if e != nil || len(msgs) != 1 || msgs[0].Error != nil {
				err = fmt.Errorf("setup create on %s: %v %v", n.node, e, msgs)
				return
			}
		}
	}, nil)
	if tr.Deadlock != "" {
		return nil, nil, fmt.Errorf("%s", tr.Deadlock)
	}
	if err != nil {
		return nil, nil, err
	}
	v := b.View(redis)
	byNode := map[string]string{}
	for id, w := range v.Workloads {
		byNode[w.Node] = id
	}
	ids := []string{byNode["a"], byNode["b"], byNode["c"]}
	for _, id := range ids {
		if id == "" {
			return nil, nil, fmt.Errorf("setup: workloads not found: %v", byNode)
		}
	}
	return b.Save(), ids, nil
}

func c20One(t *testing.T, c *vcore.Ctx, b *world.Backend, snap *world.Snap, wids []string, cc *c20Case) {
	b.Restore(snap)
	rec := &lockRec{}
	opts := world.InstanceOpts{Redis: cc.Backend == "redis", NoWAL: true, WrapStore: func(s store.Store) store.Store { return recStore{Store: s, rec: rec, reverse: cc.Reversed} }}
	var ids []string
	for _, i := range cc.IDs {
		ids = append(ids, wids[i])
	}
	nf := &coretypes.NodeFilter{Podname: cc.Pod, Includes: cc.Includes, Excludes: cc.Excludes}
	tr := wexec(t, b, opts, nil, 9, func(ctx context.Context, inst *world.Instance) {
		cal := inst.Cal
		switch cc.Op {
		case "create":
			if ch, err := cal.CreateWorkload(ctx, world.DeploySpec{Pod: cc.Pod, Count: 1, Strategy: "AUTO", Memory: 10, Filter: nf}.Options()); err == nil {
				for range ch {
				}
			}
		case "capacity":
			do := world.DeploySpec{Pod: "p1", Count: 1, Strategy: "AUTO", Memory: 10, Filter: nf}.Options()
			_, _ = cal.CalculateCapacity(ctx, do)
		case "remove":
			if ch, err := cal.RemoveWorkload(ctx, ids, true); err == nil {
				for range ch {
				}
			}
		case "dissociate":
			if ch, err := cal.DissociateWorkload(ctx, ids); err == nil {
				for range ch {
				}
			}
		case "control":
			if ch, err := cal.ControlWorkload(ctx, ids, "stop", true); err == nil {
				for range ch {
				}
			}
		case "send":
			if ch, err := cal.Send(ctx, &coretypes.SendOptions{IDs: ids, Files: []coretypes.LinuxFile{{Filename: "/f", Content: []byte("x"), Mode: 0o644}}}); err == nil {
				for range ch {
				}
			}
		case "replace":
			d := world.DeploySpec{Pod: "", Count: 1}.Options()
			if ch, err := cal.ReplaceWorkload(ctx, &coretypes.ReplaceOptions{DeployOptions: *d, IDs: ids}); err == nil {
				for range ch {
				}
			}
		case "realloc":
			_ = cal.ReallocResource(ctx, &coretypes.ReallocOptions{ID: ids[0], Resources: resourcetypes.Resources{"cpumem": {"memory-request": 10}}})
		case "setnode":
			_, _ = cal.SetNode(ctx, &coretypes.SetNodeOptions{Nodename: cc.Node, Delta: true, Bypass: coretypes.TriKeep, Resources: resourcetypes.Resources{"cpumem": {"memory": 10}}})
		case "removenode":
			_ = cal.RemoveNode(ctx, cc.Node)
		case "noderesource":
			_, _ = cal.NodeResource(ctx, cc.Node, false)
		case "removepod":
			_ = cal.RemovePod(ctx, cc.Pod)
		case "podresource":
			if ch, err := cal.PodResource(ctx, cc.Pod); err == nil {
				for range ch {
				}
			}
		}
	}, nil)
	c.Eval()
	viol := func(sig, detail string) {
		c.Violate("C20/"+cc.Op+"/"+sig, detail+" | case="+vcore.JSON(cc), cc)
	}
	if tr.Deadlock != "" {
		viol("operation-stuck", firstLine(tr.Deadlock))
		return
	}
	rec.mu.Lock()
	evs := append([]lockEvent{}, rec.events...)
	rec.mu.Unlock()
	nested := false
	held := map[int64]int{}
	var keys []string
	for _, e := range evs {
		switch e.Kind {
		case "attempt":
			if held[e.G] > 0 {
				nested = true
			}
			keys = append(keys, e.Key)
		case "acquired":
			held[e.G]++
		case "release":
			if held[e.G] > 0 {
				held[e.G]--
			}
		}
	}
	c.Outcome(fmt.Sprintf("%s/locks=%d", cc.Op, len(keys)))
	if nested {
		c.Nontrivial(vcore.JSON(cc))
		if c.WantSample() {
			sort.Strings(keys)
			c.Sample(map[string]any{"case": cc, "locks_requested": keys})
		}
	}
	seen := map[string]bool{}
	for _, v := range checkLockOrder(evs) {
		if !seen[v[0]] {
			seen[v[0]] = true
			viol(v[0], v[1])
		}
	}
}
