package checks

import (
	"context"
	"fmt"
	"sort"
	"strings"
	"testing"
	"time"

	coretypes "github.com/projecteru2/core/types"

	"verif/harness/vcore"
	"verif/harness/world"
)

// C19, second part: the cluster's own lock wrappers hand the callback the context of the
// locks they took. An operation holding SEVERAL locks (pod locks of two pods, or two workload
// locks) must be told when ANY of them is lost: the lease behind the first or the last lock
// is revoked at every scheduling point while the callback runs (etcd store).

type c19wCase struct {
	Part    string `json:"part"` // "wrapper"
	Kind    string `json:"locks"` // pods | workloads
	Lose    int    `json:"lost_lock_index"`
	Choices []int  `json:"choices,omitempty"`
}

func c19wSetup(t *testing.T, b *world.Backend) (*world.Snap, []string, error) {
	var err error
	tr := wexec(t, b, world.InstanceOpts{NoWAL: true}, nil, 5, func(ctx context.Context, inst *world.Instance) {
		for _, p := range []string{"p1", "p2"} {
			if _, e := inst.Cal.AddPod(ctx, p, ""); e != nil {
				err = e
				return
			}
		}
		for _, n := range []world.NodeSpec{{Name: "a", Pod: "p1"}, {Name: "b", Pod: "p2"}} {
			n.CPU, n.Memory, n.Test = 2, 500, true
			if _, e := inst.Cal.AddNode(ctx, n.Options()); e != nil {
				err = e
				return
			}
			msgs, e := inst.Create(ctx, world.DeploySpec{Pod: n.Pod, Count: 1, Strategy: "AUTO", Memory: 50, Filter: &coretypes.NodeFilter{Podname: n.Pod, Includes: []string{n.Name}}})
			if e != nil || len(msgs) != 1 || msgs[0].Error != nil {
				err = fmt.Errorf("setup create: %v %v", e, msgs)
				return
			}
		}
	}, nil)
	if tr.Deadlock != "" {
		return nil, nil, fmt.Errorf("%s", tr.Deadlock)
	}
	if err != nil {
		return nil, nil, err
	}
	var ids []string
	for id := range b.View(false).Workloads {
		ids = append(ids, id)
	}
	sort.Strings(ids)
	return b.Save(), ids, nil
}

func c19wScenario(cc *c19wCase, snap *world.Snap, ids []string) *schedScenario {
	sc := &schedScenario{Name: "lockloss-wrapper", Snap: snap, Opts: world.InstanceOpts{NoWAL: true}, Horizon: 2 * time.Minute, Quantum: 250 * time.Millisecond}
	names := []string{"plock_p1", "plock_p2"}
	switch cc.Kind {
	case "workloads":
		names = []string{"clock_" + ids[0], "clock_" + ids[1]}
	case "workload-single": // the thin wrapper most operations use (control, send, replace, the per-workload part of remove)
		names = []string{"clock_" + ids[0]}
	case "node-single":
		names = []string{"plock_p1"}
	}
	sc.Threads = append(sc.Threads, schedThread{Name: "H", Run: func(ctx context.Context, x *schedRun) {
		o := getObs(x)
		body := func(lctx context.Context) error {
			x.mu.Lock()
			o.acquired = x.Now()
			x.mu.Unlock()
			x.Event("H holds %v", names)
			select {
			case <-lctx.Done():
				x.mu.Lock()
				o.notified = x.Now()
				x.mu.Unlock()
				x.Event("H's callback context cancelled: %v", lctx.Err())
			case <-time.After(12 * time.Second):
				x.Event("H's callback context still live after 12 s")
			}
			x.mu.Lock()
			o.released = x.Now()
			x.mu.Unlock()
			return nil
		}
		cal := x.Inst("H").Cal
		var err error
		switch cc.Kind {
		case "workloads":
			err = cal.WithWorkloadsLockedForVerif(ctx, []string{ids[0], ids[1]}, func(lctx context.Context, _ map[string]*coretypes.Workload) error { return body(lctx) })
		case "workload-single":
			err = cal.WithWorkloadLockedForVerif(ctx, ids[0], func(lctx context.Context, _ *coretypes.Workload) error { return body(lctx) })
		case "node-single":
			err = cal.WithNodePodLockedForVerif(ctx, "a", func(lctx context.Context, _ *coretypes.Node) error { return body(lctx) })
		default:
			err = cal.WithNodesPodLockedForVerif(ctx, &coretypes.NodeFilter{Includes: []string{"a", "b"}, All: true}, func(lctx context.Context, _ map[string]*coretypes.Node) error { return body(lctx) })
		}
		if err != nil {
			o.hErr = err.Error()
		}
	}})
	sc.Threads = append(sc.Threads, schedThread{Name: "F", Run: func(ctx context.Context, x *schedRun) {
		o := getObs(x)
		x.Yield("F", "revoke-one-lock")
		x.mu.Lock()
		held := o.acquired >= 0 && o.released < 0
		x.mu.Unlock()
		if !held {
			return
		}
		for _, e := range x.B.Etcd.Dump("") {
			if strings.Contains(e.Key, "__lock__") && strings.Contains(e.Key, names[cc.Lose]+"/") && e.Lease != 0 {
				x.B.Etcd.RevokeLease(e.Lease)
				x.mu.Lock()
				o.lost = x.Now()
				x.mu.Unlock()
				x.Event("F revoked the lease behind %s", names[cc.Lose])
				return
			}
		}
	}})
	return sc
}

func c19wExplore(t *testing.T, c *vcore.Ctx, b *world.Backend) {
	snap, ids, err := c19wSetup(t, b)
	if err != nil {
		c.HarnessError("wrapper setup: %v", err)
		return
	}
	for _, kind := range []string{"pods", "workloads", "workload-single", "node-single"} {
		for lose := 0; lose < 2; lose++ {
			if lose == 1 && strings.HasSuffix(kind, "-single") {
				continue
			}
			cc := c19wCase{Part: "wrapper", Kind: kind, Lose: lose}
			if c.Expired() {
				c.CapHit("budget reached")
				return
			}
			st := exploreSchedules(t, c, b, c19wScenario(&cc, snap, ids), -1, func(x *schedRun, choices []int) { c19wCheck(c, &cc, x, choices) })
			if !st.Complete {
				c.CapHit("budget reached inside a scenario")
			}
			c.AddStates(int64(st.Executions))
			c.AddTransitions(int64(st.Executions * (st.MaxPoints + 1)))
		}
	}
}

func c19wCheck(c *vcore.Ctx, cc *c19wCase, x *schedRun, choices []int) {
	o := getObs(x)
	rc := *cc
	rc.Choices = choices
	viol := func(sig, f string, a ...any) {
		c.Violate("C19/etcd/wrapper-"+cc.Kind+"/"+sig, fmt.Sprintf(f, a...)+" | scenario="+vcore.JSON(cc)+" events="+fmt.Sprint(x.Events), rc)
	}
	if x.Stuck != "" {
		viol("thread-never-returns", "%s", firstLine(x.Stuck))
		return
	}
	x.mu.Lock()
	defer x.mu.Unlock()
	if o.acquired < 0 || o.lost < 0 {
		c.Outcome("wrapper/" + cc.Kind + "/no-loss-while-holding")
		return
	}
	c.Nontrivial(vcore.JSON(rc))
	which := "first"
	if cc.Lose == 1 {
		which = "last"
	}
	switch {
	case o.notified < 0:
		c.Outcome("wrapper/" + cc.Kind + "/never-notified")
		viol(which+"-lock-lost/holder-not-notified", "the %s of the operation's locks was lost at %v, the callback's context was still live %v later", which, o.lost, o.released-o.lost)
	case o.notified > o.lost+c19Interval:
		c.Outcome("wrapper/" + cc.Kind + "/notified-late")
		viol(which+"-lock-lost/holder-notified-late", "lock lost at %v, callback context cancelled at %v", o.lost, o.notified)
	default:
		c.Outcome("wrapper/" + cc.Kind + "/notified-in-time")
		if c.WantSample() {
			c.Sample(map[string]any{"scenario": cc, "events": x.Events})
		}
	}
}
