package checks

import (
	"fmt"
	"os"
	"sort"
	"strings"
	"testing"

	"verif/harness/vcore"
	"verif/harness/world"
)

// C32, part C: the push. Parts A and B decide what the plugin and the manager compute; the
// statement is about what the workloads are GIVEN, i.e. the engine update calls made by
// Calcium.doRemapResource after a binding change. Histories of real cluster API calls on the
// 4-core node n2 (two unbound workloads resident), every sequence of binding-changing
// operations up to the depth bound; after each one, when the background remap has quiesced,
// every unbound workload's container must carry exactly the share pool computed from the
// node's recorded usage, and bound workloads the operation did not target must not have been
// updated.

func c32Target(v *world.View, node string, bound bool) int {
	for i, w := range sortedWorkloads(v) {
		if w.Node == node && w.Res != nil && (len(w.Res.CPUMap) > 0) == bound {
			return i
		}
	}
	return -1
}

// c32WorldOps: the binding-changing operations available in a state ("ub" = an unbound workload, "b" = a bound one).
func c32WorldOps(v *world.View) []wOp {
	ops := []wOp{
		{Kind: "create", Strategy: "AUTO", Count: 1, Req: "bind1", Include: []string{"n2"}},
		{Kind: "create", Strategy: "AUTO", Count: 1, Req: "bindhalf", Include: []string{"n2"}},
	}
	if i := c32Target(v, "n2", true); i >= 0 {
		ops = append(ops, wOp{Kind: "remove", W: i}, wOp{Kind: "dissociate", W: i}, wOp{Kind: "realloc", W: i, Delta: "+cpu"}, wOp{Kind: "realloc", W: i, Delta: "unbind"})
	}
	if i := c32Target(v, "n2", false); i >= 0 {
		ops = append(ops, wOp{Kind: "realloc", W: i, Delta: "bind"})
	}
	return ops
}

func c32World(t *testing.T, c *vcore.Ctx, replay *c32Case) {
	dir := os.Getenv("VERIF_TMP")
	if dir == "" {
		dir = t.TempDir()
	}
	b := world.NewBackend(dir, false)
	defer b.Close()
	snap0, err := initialCluster(t, b)
	if err != nil {
		c.HarnessError("part C: initial cluster: %v", err)
		return
	}
	b.Restore(snap0)
	pre0 := b.View(false)
	// two resident unbound workloads on n2
	res, tr, v1, _ := worldStep(t, b, wOp{Kind: "create", Strategy: "AUTO", Count: 2, Req: "mem", Include: []string{"n2"}}, pre0, nil, 5)
	if tr.Deadlock != "" || res.allFailed() {
		c.HarnessError("part C: setup create: %s %s", res.summary(), firstLine(tr.Deadlock))
		return
	}
	snap1 := b.Save()
	depth := 3
	if c.Thorough() {
		depth = 4
	}
	c.Bound("part_C_history_depth", depth)
	if replay != nil {
		b.Restore(snap1)
		v, snap := v1, snap1
		for i, op := range replay.World {
			b.Restore(snap)
			v, snap = c32WorldStep(t, c, b, v, op, replay.World[:i+1])
			if v == nil {
				return
			}
		}
		return
	}
	type st struct {
		snap *world.Snap
		view *world.View
		hist []wOp
	}
	frontier := []st{{snap1, v1, nil}}
	var idx int64
	for d := 0; d < depth; d++ {
		var next []st
		for _, s := range frontier {
			for _, op := range c32WorldOps(s.view) {
				idx++
				// every shard needs the whole tree above the last level; only the last level is divided
				if d == depth-1 && !c.Mine(idx) {
					continue
				}
				if c.Expired() {
					c.CapHit("budget reached in part C")
					return
				}
				b.Restore(s.snap)
				hist := append(append([]wOp{}, s.hist...), op)
				report := d == depth-1 || c.Shard == 0
				var post *world.View
				var ns *world.Snap
				if report {
					post, ns = c32WorldStep(t, c, b, s.view, op, hist)
				} else {
					_, _, post, _ = worldStep(t, b, op, s.view, nil, 5)
					ns = b.Save()
				}
				if post != nil && d+1 < depth {
					next = append(next, st{ns, post, hist})
				}
			}
		}
		frontier = next
	}
}

// c32WorldStep runs one operation from the restored state and judges the push.
func c32WorldStep(t *testing.T, c *vcore.Ctx, b *world.Backend, pre *world.View, op wOp, hist []wOp) (*world.View, *world.Snap) {
	updatesBefore := map[string]int{}
	for _, ct := range pre.Containers {
		updatesBefore[ct.ID] = ct.Updates
	}
	var targetID string
	if ws := sortedWorkloads(pre); op.Kind != "create" && op.W >= 0 && op.W < len(ws) {
		targetID = ws[op.W].ID
	}
	res, tr, post, _ := worldStep(t, b, op, pre, nil, 5)
	c.Eval()
	c.Exec()
	rc := &c32Case{World: hist}
	viol := func(sig, f string, a ...any) {
		c.Violate("C32/push/"+sig, fmt.Sprintf(f, a...)+" | history="+vcore.JSON(hist)+" result="+res.summary(), rc)
	}
	if tr.Deadlock != "" {
		viol("operation-stuck", "%s", firstLine(tr.Deadlock))
		return nil, nil
	}
	c.Outcome("push " + op.Kind + op.Delta + ": " + res.summary())
	if res.allFailed() {
		return post, b.Save() // refused (e.g. no room): no binding change
	}
	info := post.NodeRes["n2"]
	if info == nil {
		c.HarnessError("part C: no resource record for n2")
		return nil, nil
	}
	var pool, all []string
	for core, capP := range info.Capacity.CPUMap {
		all = append(all, core)
		if capP-info.Usage.CPUMap[core] >= 100 {
			pool = append(pool, core)
		}
	}
	if len(pool) == 0 {
		pool = all
	}
	sort.Strings(pool)
	cts := map[string]*world.Container{}
	for _, ct := range post.Containers {
		cts[ct.ID] = ct
	}
	unbound := 0
	for _, w := range sortedWorkloads(post) {
		if w.Node != "n2" || w.Res == nil {
			continue
		}
		ct := cts[w.ID]
		if ct == nil {
			continue // record without container: C12's subject
		}
		if len(w.Res.CPUMap) > 0 {
			if w.ID != targetID && updatesBefore[w.ID] != ct.Updates {
				if _, existed := updatesBefore[w.ID]; existed {
					viol("bound-workload-updated", "bound workload %s, which the operation did not target, received %d engine update(s)", short(w.ID), ct.Updates-updatesBefore[w.ID])
				}
			}
			continue
		}
		unbound++
		raw := map[string]any{}
		for k, v := range ct.Params["cpumem"] {
			raw[k] = v
		}
		ep, err := parseEP(raw)
		if err != nil {
			c.HarnessError("part C: engine params of %s: %v", short(w.ID), err)
			return nil, nil
		}
		if got := sortedCores(ep.CPUMap); !sameSet(got, pool) {
			viol("unbound-cpuset-wrong", "after %s%s unbound workload %s runs on cores %v, the cores with a full core's worth of free pieces are %v (usage %v)", op.Kind, op.Delta, short(w.ID), got, pool, info.Usage.CPUMap)
		}
	}
	if unbound > 0 {
		c.Nontrivial("C|" + vcore.JSON(hist))
		if c.WantSample() && len(hist) >= 2 {
			c.Sample(map[string]any{"cluster_history": hist, "share_pool": pool, "unbound_workloads": unbound})
		}
	}
	_ = strings.Join
	return post, b.Save()
}
