package checks

import (
	"context"
	"fmt"
	"os"
	"sync"
	"testing"
	"time"

	"verif/harness/vcore"
	"verif/harness/world"
)

// C18: distributed locks are mutually exclusive (both backends). Contenders are separate
// lock objects from Store.CreateLock, as the cluster creates them; every interleaving of
// their backend requests is explored (2 contenders: unbounded; 3 contenders: preemption
// bound 2, thorough unbounded), virtual time passes only when nobody can move.

func init() {
	register(Meta{ID: "C18", Level: "model_checking", BudgetQuick: 240, BudgetThor: 2400, GoMaxProcs: 2},
		func(t *testing.T, c *vcore.Ctx) { c18Explore(t, c) })
}

type lockProg struct {
	Op   string        `json:"op"` // lock | trylock
	Hold time.Duration `json:"hold"`
	Deadline bool      `json:"caller_deadline,omitempty"` // the caller's context carries its own, later deadline (60 s), as a request context does
}

type c18Case struct {
	Backend string     `json:"backend"`
	Progs   []lockProg `json:"contenders"`
	TTL     time.Duration `json:"ttl,omitempty"` // 0 = 5 s
	Bound   int        `json:"preemption_bound"`
	Choices []int      `json:"choices,omitempty"`
}

type lockMon struct {
	mu      sync.Mutex
	inCS    map[string]bool
	viol    []string
	results map[string]string
	outcome []string
}

func getMon(x *schedRun) *lockMon {
	x.mu.Lock()
	defer x.mu.Unlock()
	if m, ok := x.Data["mon"].(*lockMon); ok {
		return m
	}
	m := &lockMon{inCS: map[string]bool{}, results: map[string]string{}}
	x.Data["mon"] = m
	return m
}

const lockTTL = 5 * time.Second

func contender(name string, p lockProg, lockTTL time.Duration) schedThread {
	return schedThread{Name: name, Run: func(ctx context.Context, x *schedRun) {
		mon := getMon(x)
		lk, err := x.Inst(name).Store.CreateLock("the-key", lockTTL)
		if err != nil {
			mon.mu.Lock()
			mon.results[name] = "create-error"
			mon.mu.Unlock()
			return
		}
		if p.Deadline {
			var cancel context.CancelFunc
			ctx, cancel = context.WithTimeout(ctx, time.Minute)
			defer cancel()
		}
		start := x.Now()
		mon.mu.Lock()
		heldAtStart := len(mon.inCS) > 0
		mon.mu.Unlock()
		if p.Op == "lock" {
			_, err = lk.Lock(ctx)
		} else {
			_, err = lk.TryLock(ctx)
		}
		elapsed := x.Now() - start
		mon.mu.Lock()
		if err != nil {
			mon.results[name] = p.Op + "-failed"
			heldNow := len(mon.inCS) > 0
			if p.Op == "trylock" && elapsed > 0 {
				mon.viol = append(mon.viol, fmt.Sprintf("trylock-waited|%s: TryLock failed after waiting %v", name, elapsed))
			}
			if p.Op == "lock" && elapsed < lockTTL {
				mon.viol = append(mon.viol, fmt.Sprintf("lock-failed-before-timeout|%s: Lock failed after %v, wait timeout is %v (%v)", name, elapsed, lockTTL, err))
			}
			_ = heldNow
			_ = heldAtStart
			mon.mu.Unlock()
			// the cluster unlocks a lock object whose Lock failed (doLock's rollback)
			_ = lk.Unlock(ctx)
			return
		}
		if p.Op == "lock" && elapsed > lockTTL+time.Second {
			mon.viol = append(mon.viol, fmt.Sprintf("lock-acquired-after-wait-timeout|%s: Lock returned the lock after waiting %v, the wait timeout is %v", name, elapsed, lockTTL))
		}
		if len(mon.inCS) > 0 {
			others := ""
			for o := range mon.inCS {
				others += o
			}
			mon.viol = append(mon.viol, fmt.Sprintf("two-holders|%s acquired (%s) while %s holds the lock", name, p.Op, others))
		}
		mon.inCS[name] = true
		mon.results[name] = p.Op + "-acquired"
		mon.mu.Unlock()
		x.Event("%s enters", name)
		if p.Hold > 0 {
			time.Sleep(p.Hold)
		} else {
			x.Yield(name, "critical-section")
		}
		x.Event("%s leaves", name)
		mon.mu.Lock()
		delete(mon.inCS, name)
		mon.mu.Unlock()
		_ = lk.Unlock(ctx)
	}}
}

func c18Explore(t *testing.T, c *vcore.Ctx) {
	dir := os.Getenv("VERIF_TMP")
	if dir == "" {
		dir = t.TempDir()
	}
	c.SetRule("contenders on one key, each = (Lock | TryLock) then critical section (hold 0 / 1 s / long) then Unlock, on separate lock objects from Store.CreateLock with TTL = wait timeout = 5 s, plus a holder staying 2.2 s inside a 2.5 s lease, plus a waiter whose context carries its own later deadline; etcd and redis backends; every interleaving of their backend requests (2 contenders: all; 3 contenders: preemption bound 2); non-trivial = distinct schedules in which at least two contenders' requests interleave")
	c.Assume("etcd = memetcd under the real clientv3/concurrency recipe (keep-alive loop runs under virtual time); redis = miniredis (TTL moved with FastForward together with virtual time)")
	c.Assume("holders stay within the lock's lease: on redis the long hold is 4 s < TTL, on etcd the session keeps the lease alive so the long hold is 7 s > wait timeout")
	b := world.NewBackend(dir, true)
	defer b.Close()
	if c.Replay != nil {
		var cc c18Case
		if err := jsonUnmarshal(c.Replay, &cc); err != nil {
			c.HarnessError("replay: %v", err)
			return
		}
		sc := c18Scenario(&cc)
		x := runSchedule(t, b, sc, cc.Choices)
		c.Eval()
		c18Check(c, &cc, x, cc.Choices)
		return
	}
	var cases []c18Case
	for _, be := range []string{"etcd", "redis"} {
		long := 7 * time.Second
		if be == "redis" {
			long = 4 * time.Second
		}
		var progs []lockProg
		for _, op := range []string{"lock", "trylock"} {
			for _, h := range []time.Duration{0, time.Second, long} {
				progs = append(progs, lockProg{Op: op, Hold: h})
			}
		}
		for i, p1 := range progs {
			for _, p2 := range progs[i:] {
				cases = append(cases, c18Case{Backend: be, Progs: []lockProg{p1, p2}, Bound: -1})
			}
		}
		// a lease that is not a whole number of seconds: the holder stays inside it (2.2 s < 2.5 s) but
		// beyond its whole-second part
		for _, op := range []string{"lock", "trylock"} {
			cases = append(cases, c18Case{Backend: be, TTL: 2500 * time.Millisecond, Progs: []lockProg{{Op: "lock", Hold: 2200 * time.Millisecond}, {Op: op}}, Bound: -1})
		}
		// a waiter whose own context has a later deadline than the lock's wait timeout, behind a holder that
		// keeps the lock longer than that timeout (etcd) / almost as long (redis)
		cases = append(cases, c18Case{Backend: be, Progs: []lockProg{{Op: "lock", Hold: long}, {Op: "lock", Deadline: true}}, Bound: -1},
			c18Case{Backend: be, Progs: []lockProg{{Op: "lock", Hold: long}, {Op: "trylock", Deadline: true}}, Bound: -1})
		// three contenders, preemption bound 2
		triples := [][]lockProg{
			{{Op: "lock"}, {Op: "lock"}, {Op: "trylock"}},
			{{Op: "lock", Hold: time.Second}, {Op: "lock"}, {Op: "lock"}},
		}
		if c.Thorough() {
			triples = append(triples, []lockProg{{Op: "lock", Hold: long}, {Op: "lock", Hold: time.Second}, {Op: "trylock", Hold: time.Second}}, []lockProg{{Op: "trylock"}, {Op: "trylock"}, {Op: "lock"}})
		}
		for _, tr := range triples {
			bound := 2
			if c.Thorough() {
				bound = -1 // all interleavings
			}
			cases = append(cases, c18Case{Backend: be, Progs: tr, Bound: bound})
		}
	}
	c.Bound("scenarios", len(cases))
	complete := true
	maxBoundDone := map[string]int{}
	for i := range cases {
		cc := cases[i]
		if c.Expired() {
			c.CapHit("budget reached before all scenarios were explored")
			return
		}
		sc := c18Scenario(&cc)
		st := exploreSchedules(t, c, b, sc, cc.Bound, func(x *schedRun, choices []int) {
			c18Check(c, &cc, x, choices)
		})
		if !st.Complete {
			complete = false
		}
		if st.Diverged > 0 {
			c.Note("scenario %s: %d replays diverged from their parent's menu", vcore.JSON(cc), st.Diverged)
		}
		maxBoundDone[fmt.Sprintf("%d-contenders", len(cc.Progs))] = cc.Bound
		c.AddStates(int64(st.Executions))
		c.AddTransitions(int64(st.Executions * (st.MaxPoints + 1)))
	}
	c.Bound("preemption_bound_completed", maxBoundDone)
	if !complete {
		c.CapHit("budget reached inside a scenario")
	}
}

func c18Scenario(cc *c18Case) *schedScenario {
	sc := &schedScenario{Name: "locks", Horizon: 60 * time.Second, Quantum: 250 * time.Millisecond}
	sc.Opts = world.InstanceOpts{Redis: cc.Backend == "redis", NoWAL: true}
	for i, p := range cc.Progs {
		ttl := cc.TTL
		if ttl == 0 {
			ttl = lockTTL
		}
		sc.Threads = append(sc.Threads, contender(fmt.Sprintf("T%d", i+1), p, ttl))
	}
	return sc
}

func c18Check(c *vcore.Ctx, cc *c18Case, x *schedRun, choices []int) {
	mon := getMon(x)
	rc := *cc
	rc.Choices = choices
	viol := func(sig, detail string) {
		c.Violate("C18/"+cc.Backend+"/"+sig, detail+" | scenario="+vcore.JSON(cc)+" schedule="+renderSchedule(x)+" events="+fmt.Sprint(x.Events), rc)
	}
	if x.Stuck != "" {
		viol("contender-never-returns", firstLine(x.Stuck))
		return
	}
	mon.mu.Lock()
	defer mon.mu.Unlock()
	for _, v := range mon.viol {
		sig, detail := v, v
		for i := 0; i < len(v); i++ {
			if v[i] == '|' {
				sig, detail = v[:i], v[i+1:]
				break
			}
		}
		viol(sig, detail)
	}
	out := cc.Backend
	for i := range cc.Progs {
		out += "/" + mon.results[fmt.Sprintf("T%d", i+1)]
	}
	c.Outcome(out)
	switched := 0
	last := ""
	for _, d := range x.Decisions {
		if d.Choice < len(d.Menu) {
			th := d.Menu[d.Choice][:2]
			if th != last {
				switched++
				last = th
			}
		}
	}
	if switched >= 3 {
		c.Nontrivial(vcore.JSON(rc))
	}
	if c.WantSample() && switched >= 4 {
		c.Sample(map[string]any{"scenario": cc, "schedule": renderSchedule(x), "events": x.Events, "results": mon.results})
	}
}
