package checks

import (
	"context"
	"fmt"
	"math"
	"sort"

	cpumemtypes "github.com/projecteru2/core/resource/plugins/cpumem/types"
	plugintypes "github.com/projecteru2/core/resource/plugins/types"

	"verif/harness/world"
)

// Shared alphabets for the resource-plugin checks (C04-C08, C15, C31-C33).
// All CPU amounts are expressed in "units" u = shareBase/10 pieces so that the same shapes
// exist for share base 100 and share base 10.

type nState struct {
	Cap     []int // pieces per core (index = core id)
	Use     []int
	MemCap  int64
	MemUse  int64
	NUMA    []string // per core numa node id ("" = no NUMA)
	NMemCap map[string]int64
	NMemUse map[string]int64
	Base    int `json:",omitempty"` // share base the state was built for: > 0 = the recorded total cpu usage is the per-core usage in cores
}

func (s *nState) info() *cpumemtypes.NodeResourceInfo {
	capR := &cpumemtypes.NodeResource{CPU: float64(len(s.Cap)), CPUMap: cpumemtypes.CPUMap{}, Memory: s.MemCap, NUMAMemory: cpumemtypes.NUMAMemory{}, NUMA: cpumemtypes.NUMA{}}
	useR := &cpumemtypes.NodeResource{CPUMap: cpumemtypes.CPUMap{}, Memory: s.MemUse, NUMAMemory: cpumemtypes.NUMAMemory{}, NUMA: cpumemtypes.NUMA{}}
	tot := 0
	for i := range s.Cap {
		id := fmt.Sprint(i)
		capR.CPUMap[id] = s.Cap[i]
		useR.CPUMap[id] = s.Use[i]
		tot += s.Use[i]
		if s.Base > 0 {
			useR.CPU = float64(tot) / float64(s.Base)
		}
		if len(s.NUMA) > 0 && s.NUMA[i] != "" {
			capR.NUMA[id] = s.NUMA[i]
			useR.NUMA[id] = s.NUMA[i]
		}
	}
	for k, v := range s.NMemCap {
		capR.NUMAMemory[k] = v
	}
	for k, v := range s.NMemUse {
		useR.NUMAMemory[k] = v
	}
	return &cpumemtypes.NodeResourceInfo{Capacity: capR, Usage: useR}
}

func (s *nState) String() string {
	return fmt.Sprintf("cap%v use%v mem%d/%d numa%v nmem%v/%v", s.Cap, s.Use, s.MemUse, s.MemCap, s.NUMA, s.NMemUse, s.NMemCap)
}

func (s *nState) hasNUMA() bool { return len(s.NMemCap) > 0 }

// enumNodeStates enumerates node states with k cores. base is the share base; per-core
// capacity is base or base/2, usage in {0, .3, .5, 1}*base (<= capacity). Cores are
// enumerated as multisets per NUMA group (core identity does not matter beyond its group,
// but ids do influence tie-breaks, so both orders of a mixed pair are kept via full
// product when small).
func enumNodeStates(k, base int, memUses []int64, withNUMA bool) []*nState {
	type core struct{ c, u int }
	var cores []core
	for _, c := range []int{base, base / 2} {
		for _, u := range []int{0, 3 * base / 10, base / 2, base} {
			if u <= c {
				cores = append(cores, core{c, u})
			}
		}
	}
	var out []*nState
	cur := make([]core, k)
	var rec func(i int)
	rec = func(i int) {
		if i == k {
			caps, uses := make([]int, k), make([]int, k)
			for j, c := range cur {
				caps[j], uses[j] = c.c, c.u
			}
			// NUMA nodes additionally get total usages that leave less free memory than the NUMA
			// nodes' free memory adds up to, but more than one request (20, 50 of 100)
			numaOnly := map[int64]bool{}
			all := append([]int64{}, memUses...)
			if withNUMA && k >= 2 {
				for _, extra := range []int64{20, 50} {
					dup := false
					for _, mu := range memUses {
						if mu == extra {
							dup = true
						}
					}
					if !dup {
						numaOnly[extra] = true
						all = append(all, extra)
					}
				}
			}
			for _, mu := range all {
				if !numaOnly[mu] {
					out = append(out, &nState{Cap: caps, Use: uses, MemCap: 100, MemUse: mu, Base: base})
				}
				if withNUMA && k >= 2 {
					numa := make([]string, k)
					for j := range numa {
						if j < (k+1)/2 {
							numa[j] = "0"
						} else {
							numa[j] = "1"
						}
					}
					for _, nc := range [][2]int64{{50, 50}, {80, 20}} {
						for _, u0 := range []int64{0, 30} {
							for _, u1 := range []int64{0, 30} {
								if u0 > nc[0] || u1 > nc[1] || u0+u1 > mu+0 && false {
									continue
								}
								// NUMA usage is part of total usage: total >= sum of NUMA usage
								if u0+u1 > mu {
									continue
								}
								out = append(out, &nState{Cap: caps, Use: uses, MemCap: 100, MemUse: mu, Base: base, NUMA: numa,
									NMemCap: map[string]int64{"0": nc[0], "1": nc[1]}, NMemUse: map[string]int64{"0": u0, "1": u1}})
							}
						}
					}
				}
			}
			return
		}
		for _, c := range cores {
			cur[i] = c
			rec(i + 1)
		}
	}
	rec(0)
	return out
}

type wReq struct {
	Bind     bool    `json:"bind"`
	CPU      float64 `json:"cpu"`
	CPULimit float64 `json:"cpu_limit"`
	Mem      int64   `json:"mem"`
	MemLimit int64   `json:"mem_limit"`
	Keep     bool    `json:"keep,omitempty"`
}

func (r wReq) raw() plugintypes.WorkloadResourceRequest {
	m := plugintypes.WorkloadResourceRequest{
		"cpu-request": r.CPU, "cpu-limit": r.CPULimit, "memory-request": r.Mem, "memory-limit": r.MemLimit,
	}
	if r.Bind {
		m["cpu-bind"] = true
	}
	if r.Keep {
		m["keep-cpu-bind"] = true
	}
	return m
}

// effective returns the request as the plugin normalises it (WorkloadResourceRequest.Validate).
func (r wReq) effective() (cpu float64, mem int64) {
	q := &cpumemtypes.WorkloadResourceRequest{CPUBind: r.Bind, CPURequest: r.CPU, CPULimit: r.CPULimit, MemRequest: r.Mem, MemLimit: r.MemLimit}
	_ = q.Validate()
	return q.CPURequest, q.MemRequest
}

func parseWR(raw map[string]any) (*cpumemtypes.WorkloadResource, error) {
	w := &cpumemtypes.WorkloadResource{}
	return w, w.Parse(raw)
}

// penv caches one plugin environment per scheduler configuration.
type penvCache map[[2]int]*world.PluginEnv

func (p penvCache) get(base, maxShare int) *world.PluginEnv {
	k := [2]int{base, maxShare}
	if e, ok := p[k]; ok {
		return e
	}
	e := world.NewPluginEnv(base, maxShare)
	p[k] = e
	return e
}

func (p penvCache) close() {
	for _, e := range p {
		e.Close()
	}
}

var bg = context.Background()

func sortedCores(m cpumemtypes.CPUMap) []string {
	ks := make([]string, 0, len(m))
	for k := range m {
		ks = append(ks, k)
	}
	sort.Strings(ks)
	return ks
}

func roundPieces(cpu float64, base int) int { return int(math.Round(cpu * float64(base))) }
