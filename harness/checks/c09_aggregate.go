package checks

import (
	"context"
	"errors"
	"fmt"
	"math"
	"runtime/debug"
	"sort"
	"strings"
	"testing"

	enginetypes "github.com/projecteru2/core/engine/types"
	"github.com/projecteru2/core/resource/cobalt"
	"github.com/projecteru2/core/resource/plugins"
	plugintypes "github.com/projecteru2/core/resource/plugins/types"
	resourcetypes "github.com/projecteru2/core/resource/types"
	"github.com/projecteru2/core/types"

	"verif/harness/vcore"
)

// C09: multi-plugin capacity aggregation is independent of plugin order (engine E1).
//
// 1, 2 (quick) or 3 (thorough) scripted plugins.Plugin values are registered with a real
// cobalt.Manager in EVERY permutation; Manager.GetNodesDeployCapacity is called c9Reps times per
// permutation (the manager collects the answers into a Go map whose iteration order cannot be
// scheduled, so the call is repeated) and every answer is compared with a reference written from
// the property text:
//   offered nodes = intersection of the plugins' node sets; capacity = min; usage and rate =
//   sum(w_i*x_i)/sum(w_i); total = saturating sum of the offered capacities; every permutation
//   and every repetition gives the same answer.

func init() {
	register(Meta{ID: "C09", Level: "exploration", BudgetQuick: 100, BudgetThor: 1200, GoMaxProcs: 1},
		func(t *testing.T, c *vcore.Ctx) { c9Enum(c) })
}

const (
	c9Reps = 16
	c9Eps  = 1e-9
)

var c9NodeNames = []string{"a", "b"}

// c9Node is what one plugin says about one node.
type c9Node struct {
	Cap   int     `json:"capacity"`
	Usage float64 `json:"usage"`
	Rate  float64 `json:"rate"`
}

// c9Answer is one plugin's scripted answer.
type c9Answer struct {
	Weight float64           `json:"weight"`
	Nodes  map[string]c9Node `json:"nodes"`
}

type c9Case struct {
	Plugins []c9Answer `json:"plugins"`
}

// c9Plugin is the scripted plugin. Only GetNodesDeployCapacity and Name are meaningful.
type c9Plugin struct {
	name string
	ans  c9Answer
}

var errC9NotImplemented = errors.New("c9Plugin: not implemented")

func (p *c9Plugin) Name() string { return p.name }

func (p *c9Plugin) GetNodesDeployCapacity(_ context.Context, nodenames []string, _ plugintypes.WorkloadResourceRequest) (*plugintypes.GetNodesDeployCapacityResponse, error) {
	// a fresh answer on every call: the manager is free to own what it is handed
	resp := &plugintypes.GetNodesDeployCapacityResponse{NodeDeployCapacityMap: map[string]*plugintypes.NodeDeployCapacity{}}
	for _, n := range nodenames {
		na, ok := p.ans.Nodes[n]
		if !ok {
			continue
		}
		resp.NodeDeployCapacityMap[n] = &plugintypes.NodeDeployCapacity{Capacity: na.Cap, Usage: na.Usage, Rate: na.Rate, Weight: p.ans.Weight}
		resp.Total = c9SatAdd(resp.Total, na.Cap)
	}
	return resp, nil
}

func (p *c9Plugin) CalculateDeploy(context.Context, string, int, plugintypes.WorkloadResourceRequest) (*plugintypes.CalculateDeployResponse, error) {
	return nil, errC9NotImplemented
}
func (p *c9Plugin) CalculateRealloc(context.Context, string, plugintypes.WorkloadResource, plugintypes.WorkloadResourceRequest) (*plugintypes.CalculateReallocResponse, error) {
	return nil, errC9NotImplemented
}
func (p *c9Plugin) CalculateRemap(context.Context, string, map[string]plugintypes.WorkloadResource) (*plugintypes.CalculateRemapResponse, error) {
	return nil, errC9NotImplemented
}
func (p *c9Plugin) AddNode(context.Context, string, plugintypes.NodeResourceRequest, *enginetypes.Info) (*plugintypes.AddNodeResponse, error) {
	return nil, errC9NotImplemented
}
func (p *c9Plugin) RemoveNode(context.Context, string) (*plugintypes.RemoveNodeResponse, error) {
	return nil, errC9NotImplemented
}
func (p *c9Plugin) SetNodeResourceCapacity(context.Context, string, plugintypes.NodeResource, plugintypes.NodeResourceRequest, bool, bool) (*plugintypes.SetNodeResourceCapacityResponse, error) {
	return nil, errC9NotImplemented
}
func (p *c9Plugin) GetNodeResourceInfo(context.Context, string, []plugintypes.WorkloadResource) (*plugintypes.GetNodeResourceInfoResponse, error) {
	return nil, errC9NotImplemented
}
func (p *c9Plugin) SetNodeResourceInfo(context.Context, string, plugintypes.NodeResource, plugintypes.NodeResource) (*plugintypes.SetNodeResourceInfoResponse, error) {
	return nil, errC9NotImplemented
}
func (p *c9Plugin) SetNodeResourceUsage(context.Context, string, plugintypes.NodeResource, plugintypes.NodeResourceRequest, []plugintypes.WorkloadResource, bool, bool) (*plugintypes.SetNodeResourceUsageResponse, error) {
	return nil, errC9NotImplemented
}
func (p *c9Plugin) GetMostIdleNode(context.Context, []string) (*plugintypes.GetMostIdleNodeResponse, error) {
	return nil, errC9NotImplemented
}
func (p *c9Plugin) FixNodeResource(context.Context, string, []plugintypes.WorkloadResource) (*plugintypes.GetNodeResourceInfoResponse, error) {
	return nil, errC9NotImplemented
}
func (p *c9Plugin) GetMetricsDescription(context.Context) (*plugintypes.GetMetricsDescriptionResponse, error) {
	return nil, errC9NotImplemented
}
func (p *c9Plugin) GetMetrics(context.Context, string, string) (*plugintypes.GetMetricsResponse, error) {
	return nil, errC9NotImplemented
}

var _ plugins.Plugin = (*c9Plugin)(nil)

func c9SatAdd(a, b int) int {
	if a == math.MaxInt || b == math.MaxInt || a+b < a {
		return math.MaxInt
	}
	return a + b
}

// c9Alphabet lists the per-plugin answers, simplest first. perNode=true: usage and rate are
// chosen per node; false: one usage and one rate per plugin (capacity is always per node).
func c9Alphabet(perNode bool) []c9Answer {
	caps := []int{1, 2, math.MaxInt}
	usages := []float64{0, 0.5}
	rates := []float64{0, 0.25}
	weights := []float64{1, 2, 100}
	var out []c9Answer
	if perNode {
		// per node: absent or one of cap x usage x rate
		opts := []*c9Node{nil}
		for _, cp := range caps {
			for _, u := range usages {
				for _, r := range rates {
					opts = append(opts, &c9Node{cp, u, r})
				}
			}
		}
		for _, w := range weights {
			for _, oa := range opts {
				for _, ob := range opts {
					if oa == nil && ob == nil && w != 1 {
						continue // a plugin that offers no node at all: once (its weight cannot matter)
					}
					ans := c9Answer{Weight: w, Nodes: map[string]c9Node{}}
					if oa != nil {
						ans.Nodes["a"] = *oa
					}
					if ob != nil {
						ans.Nodes["b"] = *ob
					}
					out = append(out, ans)
				}
			}
		}
		return out
	}
	capOpts := append([]int{0}, caps...) // 0 = node absent
	for _, w := range weights {
		for _, u := range usages {
			for _, r := range rates {
				for _, ca := range capOpts {
					for _, cb := range capOpts {
						if ca == 0 && cb == 0 && !(w == 1 && u == 0 && r == 0) {
							continue // the empty answer once
						}
						ans := c9Answer{Weight: w, Nodes: map[string]c9Node{}}
						if ca != 0 {
							ans.Nodes["a"] = c9Node{ca, u, r}
						}
						if cb != 0 {
							ans.Nodes["b"] = c9Node{cb, u, r}
						}
						out = append(out, ans)
					}
				}
			}
		}
	}
	return out
}

func c9Enum(c *vcore.Ctx) {
	defer debug.SetGCPercent(debug.SetGCPercent(400)) // millions of tiny maps; collect less often
	c.SetRule("every multiset of n scripted plugin answers (per plugin: weight {1,2,100}; per node of {a,b}: absent or capacity {1,2,MaxInt} x usage {0,.5} x rate {0,.25}; at least one node), " +
		"registered with a real cobalt.Manager in every permutation, Manager.GetNodesDeployCapacity called 16 times per permutation; " +
		"reference from the property text: offered = intersection, capacity = min, usage/rate = sum(w*x)/sum(w) within 1e-9, total = saturating sum, identical over permutations and repetitions; " +
		"non-trivial = at least two plugins answer and they share at least one node (something is merged); distinct by the multiset of answers")
	c.Bound("repetitions_per_permutation", c9Reps)
	c.Bound("nodes", len(c9NodeNames))
	if c.Replay != nil {
		var cs c9Case
		if err := jsonUnmarshal(c.Replay, &cs); err != nil {
			c.HarnessError("replay: %v", err)
			return
		}
		c9One(c, &cs)
		return
	}
	full := c9Alphabet(true)
	c.Bound("per_plugin_alphabet_n1_n2", len(full))
	c.Bound("max_plugins", 2)
	var idx int64
	// n = 1
	for i := range full {
		idx++
		if c.Mine(idx) {
			c9One(c, &c9Case{Plugins: []c9Answer{full[i]}})
		}
	}
	// n = 2, multisets i <= j (all permutations are registered anyway)
	for i := range full {
		for j := i; j < len(full); j++ {
			idx++
			if c.Mine(idx) {
				c9One(c, &c9Case{Plugins: []c9Answer{full[i], full[j]}})
			}
		}
		if c.Expired() {
			c.CapHit(fmt.Sprintf("budget reached in n=2 at i=%d", i))
			return
		}
	}
	if !c.Thorough() {
		return
	}
	// n = 3: usage and rate are chosen per plugin (not per node) to keep the product tractable
	red := c9Alphabet(false)
	c.Bound("max_plugins", 3)
	c.Bound("per_plugin_alphabet_n3", len(red))
	c.Bound("n3_reduction", "for 3 plugins usage and rate are one value per plugin (capacity and presence stay per node)")
	for i := range red {
		for j := i; j < len(red); j++ {
			for k := j; k < len(red); k++ {
				idx++
				if c.Mine(idx) {
					c9One(c, &c9Case{Plugins: []c9Answer{red[i], red[j], red[k]}})
				}
			}
			if c.Expired() {
				c.CapHit(fmt.Sprintf("budget reached in n=3 at i=%d j=%d", i, j))
				return
			}
		}
	}
}

type c9Result struct {
	Nodes map[string]c9Node `json:"nodes"`
	Total int               `json:"total"`
}

// c9Reference is the independent reference: property text only.
func c9Reference(cs *c9Case) c9Result {
	want := c9Result{Nodes: map[string]c9Node{}}
	for _, n := range c9NodeNames {
		all := true
		minCap := math.MaxInt
		var sw, su, sr float64
		for _, p := range cs.Plugins {
			na, ok := p.Nodes[n]
			if !ok {
				all = false
				break
			}
			if na.Cap < minCap {
				minCap = na.Cap
			}
			sw += p.Weight
			su += p.Weight * na.Usage
			sr += p.Weight * na.Rate
		}
		if !all {
			continue
		}
		want.Nodes[n] = c9Node{Cap: minCap, Usage: su / sw, Rate: sr / sw}
		want.Total = c9SatAdd(want.Total, minCap)
	}
	return want
}

func c9Permutations(n int) [][]int {
	var out [][]int
	cur := make([]int, 0, n)
	used := make([]bool, n)
	var rec func()
	rec = func() {
		if len(cur) == n {
			out = append(out, append([]int{}, cur...))
			return
		}
		for i := 0; i < n; i++ {
			if !used[i] {
				used[i] = true
				cur = append(cur, i)
				rec()
				cur = cur[:len(cur)-1]
				used[i] = false
			}
		}
	}
	rec()
	return out
}

var c9SigSeen = map[string]int{}

var c9Perms = map[int][][]int{1: c9Permutations(1), 2: c9Permutations(2), 3: c9Permutations(3)}

// c9At names one call lazily (formatted only when a violation is reported).
type c9At struct {
	perm []int
	rep  int
}

func (a c9At) String() string { return fmt.Sprintf("registration order %v repetition %d", a.perm, a.rep) }

func c9SameSet(x, y map[string]c9Node) bool {
	if len(x) != len(y) {
		return false
	}
	for k := range x {
		if _, ok := y[k]; !ok {
			return false
		}
	}
	return true
}

func c9NodeSet(m map[string]c9Node) string {
	ks := make([]string, 0, len(m))
	for k := range m {
		ks = append(ks, k)
	}
	sort.Strings(ks)
	return "{" + strings.Join(ks, ",") + "}"
}

func c9One(c *vcore.Ctx, cs *c9Case) {
	n := len(cs.Plugins)
	if n < 1 || n > 3 {
		c.HarnessError("case with %d plugins", n)
		return
	}
	want := c9Reference(cs)
	ps := make([]*c9Plugin, n)
	for i := range cs.Plugins {
		ps[i] = &c9Plugin{name: fmt.Sprintf("p%d", i), ans: cs.Plugins[i]}
	}
	opts := resourcetypes.Resources{}
	seen := map[string]bool{} // one violation per signature per case
	viol := func(sig, f string, a ...any) {
		if seen[sig] {
			return
		}
		seen[sig] = true
		c9SigSeen[sig]++
		if c9SigSeen[sig] > 2 { // vcore keeps the details of the first two only; do not format the rest
			c.Violate("C09/"+sig, "", nil)
			return
		}
		c.Violate("C09/"+sig, fmt.Sprintf(f, a...)+" | case="+vcore.JSON(cs)+" want="+vcore.JSON(want), cs)
	}
	if n >= 2 && len(want.Nodes) > 0 {
		c.Nontrivial(vcore.JSON(cs))
	}
	var first *c9Result
	var firstAt c9At
	for _, perm := range c9Perms[n] {
		c.Eval()
		mgr, err := cobalt.New(types.Config{})
		if err != nil {
			c.HarnessError("cobalt.New: %v", err)
			return
		}
		reg := make([]plugins.Plugin, n)
		for i, pi := range perm {
			reg[i] = ps[pi]
		}
		mgr.AddPlugins(reg...)
		for rep := 0; rep < c9Reps; rep++ {
			c.Exec()
			at := c9At{perm, rep}
			raw, total, err := mgr.GetNodesDeployCapacity(bg, c9NodeNames, opts)
			if err != nil {
				viol("unexpected-error", "%s: error %v", at, err)
				return
			}
			got := c9Result{Nodes: map[string]c9Node{}, Total: total}
			for name, info := range raw {
				if info == nil {
					viol("offered-set", "%s: nil entry for node %s", at, name)
					continue
				}
				got.Nodes[name] = c9Node{Cap: info.Capacity, Usage: info.Usage, Rate: info.Rate}
			}
			// clause by clause against the reference
			if !c9SameSet(got.Nodes, want.Nodes) {
				viol("offered-set", "%s: offered %s, every plugin offers exactly %s", at, c9NodeSet(got.Nodes), c9NodeSet(want.Nodes))
			}
			for name, w := range want.Nodes {
				g, ok := got.Nodes[name]
				if !ok {
					continue
				}
				if g.Cap != w.Cap {
					viol("capacity-not-min", "%s: node %s capacity %d, smallest plugin capacity is %d", at, name, g.Cap, w.Cap)
				}
				if !c9Close(g.Usage, w.Usage) {
					if n == 1 {
						viol("single-plugin-value-divided-by-weight", "%s: node %s usage %v, the only plugin says %v (weight %v)", at, name, g.Usage, w.Usage, cs.Plugins[0].Weight)
					} else {
						viol("usage-not-weighted-average", "%s: node %s usage %v, weighted average is %v", at, name, g.Usage, w.Usage)
					}
				}
				if !c9Close(g.Rate, w.Rate) {
					if n == 1 {
						viol("single-plugin-value-divided-by-weight", "%s: node %s rate %v, the only plugin says %v (weight %v)", at, name, g.Rate, w.Rate, cs.Plugins[0].Weight)
					} else {
						viol("rate-not-weighted-average", "%s: node %s rate %v, weighted average is %v", at, name, g.Rate, w.Rate)
					}
				}
			}
			if got.Total != want.Total {
				viol("total-not-saturating-sum", "%s: total %d, saturating sum of the offered capacities is %d", at, got.Total, want.Total)
			}
			// independence of order: every answer equals the first one
			if first == nil {
				g := got
				first, firstAt = &g, at
			} else if field := c9Differs(first, &got); field != "" {
				viol("order-dependent/"+field, "same answers, different result: %s gave %s, %s gave %s", firstAt, vcore.JSON(first), at, vcore.JSON(got))
			}
		}
	}
	// bookkeeping
	switch {
	case len(want.Nodes) == 0:
		c.Outcome(fmt.Sprintf("n=%d:no-common-node", n))
	case want.Total == math.MaxInt:
		c.Outcome(fmt.Sprintf("n=%d:offered-%d-unlimited-total", n, len(want.Nodes)))
	default:
		c.Outcome(fmt.Sprintf("n=%d:offered-%d-finite-total", n, len(want.Nodes)))
	}
	if c.WantSample() && n >= 2 && len(want.Nodes) == 2 && first != nil {
		wa, wb := cs.Plugins[0], cs.Plugins[n-1]
		if wa.Weight != wb.Weight && wa.Nodes["a"].Usage != wb.Nodes["a"].Usage && wa.Nodes["a"].Cap != wb.Nodes["a"].Cap {
			c.Sample(map[string]any{"case": cs, "reference": want, "manager_first_answer": first, "orders": len(c9Perms[n]), "repetitions": c9Reps, "violated": vcore.SortedKeys(seen)})
		}
	}
}

func c9Close(a, b float64) bool {
	if math.IsNaN(a) || math.IsNaN(b) || math.IsInf(a, 0) || math.IsInf(b, 0) {
		return false
	}
	return math.Abs(a-b) <= c9Eps
}

// c9Differs names the first field in which two results differ ("" if none).
func c9Differs(x, y *c9Result) string {
	if !c9SameSet(x.Nodes, y.Nodes) {
		return "offered-set"
	}
	for name, a := range x.Nodes {
		b := y.Nodes[name]
		if a.Cap != b.Cap {
			return "capacity"
		}
		if !c9Close(a.Usage, b.Usage) || !c9Close(a.Rate, b.Rate) {
			return "usage-rate"
		}
	}
	if x.Total != y.Total {
		return "total"
	}
	return ""
}
