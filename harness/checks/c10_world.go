package checks

import (
	"context"
	"fmt"
	"hash/fnv"
	"os"
	"regexp"
	"sort"
	"strings"
	"testing"

	"verif/harness/vcore"
	"verif/harness/world"
)

// C10 / C11 / C12: explicit-state search over the real cluster API (engine E2) with single
// fault enumeration at every intercepted step (engine E3).
//
// state      = backend snapshot (in-memory etcd incl. plugin records, fake engines, WAL file)
// transition = one real API call run to quiescence on a fresh core instance in a bubble
// dedup      = canonical form of the hook-free view (ids and generated names dropped)
// faults     = for every (state, op): the fault-free run records its steps; the op is re-run
//              from the same snapshot once per step with that step failing without effect.

func init() {
	register(Meta{ID: "C10", Level: "model_checking", BudgetQuick: 240, BudgetThor: 2400, GoMaxProcs: 2},
		func(t *testing.T, c *vcore.Ctx) { worldExplore(t, c, "C10") })
	register(Meta{ID: "C11", Level: "fault_enumeration", BudgetQuick: 240, BudgetThor: 2400, GoMaxProcs: 2},
		func(t *testing.T, c *vcore.Ctx) { worldExplore(t, c, "C11") })
}

type wState struct {
	snap  *world.Snap
	view  *world.View
	key   string
	hist  []wOp
	depth int
	fault *wFaulted // non-nil: reached through a faulted operation
}

type wFaulted struct {
	At    int       `json:"at"` // index in hist of the faulted op
	Fault faultSpec `json:"fault"`
}

type wCase struct {
	Hist  []wOp      `json:"history"`
	Fault *faultSpec `json:"fault,omitempty"` // applies to the last op of the history
	Pre   *wFaulted  `json:"earlier_fault,omitempty"`
	Conc  *c10cCase  `json:"concurrent,omitempty"` // C10's concurrent part (c10b_concurrent.go)
	Mgr   *c11mCase  `json:"manager_case,omitempty"` // C11's manager part (c11b_manager.go)
}

func opAlphabet(prop string, v *world.View) []wOp {
	var ops []wOp
	for _, st := range []string{"AUTO", "EACH"} {
		for _, cnt := range []int{1, 2} {
			for _, rq := range []string{"mem", "bind1", "bindhalf"} {
				if st == "EACH" && cnt == 2 {
					continue
				}
				ops = append(ops, wOp{Kind: "create", Strategy: st, Count: cnt, Req: rq})
			}
		}
	}
	// several bound instances on one node: each owns different cores, so giving back the wrong
	// instance's resources is visible per core
	ops = append(ops, wOp{Kind: "create", Strategy: "AUTO", Count: 2, Req: "bind1", Include: []string{"n2"}},
		wOp{Kind: "create", Strategy: "AUTO", Count: 3, Req: "bind1", Include: []string{"n2"}})
	ws := sortedWorkloads(v)
	// one representative per distinct (node, resources) class: indices whose predecessor differs
	last := ""
	for i, w := range ws {
		cls := w.Node + "|" + vcore.JSON(w.Res)
		if cls == last {
			continue
		}
		last = cls
		ops = append(ops, wOp{Kind: "remove", W: i}, wOp{Kind: "dissociate", W: i}, wOp{Kind: "replace", W: i})
		for _, d := range []string{"+mem", "++mem", "-mem", "+cpu", "unbind", "bind"} {
			ops = append(ops, wOp{Kind: "realloc", W: i, Delta: d})
		}
	}
	for _, n := range []string{"n1", "n2"} {
		ops = append(ops, wOp{Kind: "setnode", Node: n, Delta: "+mem"})
	}
	if prop == "C11" {
		ops = append(ops, wOp{Kind: "setnode", Node: "n1", Delta: "labels"}, wOp{Kind: "setnode", Node: "n1", Delta: "+cpu"}, wOp{Kind: "setnode", Node: "n2", Delta: "+mem-numa"},
			wOp{Kind: "addnode", Node: "n3"}, wOp{Kind: "removenode", Node: "n1"}, wOp{Kind: "removenode", Node: "n2"})
	}
	return ops
}

func hashKey(parts ...string) uint64 {
	h := fnv.New64a()
	for _, p := range parts {
		h.Write([]byte(p))
		h.Write([]byte{0})
	}
	return h.Sum64()
}

type apiObs struct {
	diffs map[string][]string // node -> resource diffs reported by NodeResource(fix=false)
	errs  map[string]string
}

// observeAPI asks the real API for each node's resource check (interceptor removed).
func observeAPI(ctx context.Context, inst *world.Instance, nodes []string) *apiObs {
	o := &apiObs{diffs: map[string][]string{}, errs: map[string]string{}}
	for _, n := range nodes {
		nr, err := inst.Cal.NodeResource(ctx, n, false)
		if err != nil {
			o.errs[n] = err.Error()
			continue
		}
		for _, d := range nr.Diffs {
			// "workload ... inspect failed" is a record/container disagreement (C11/C12's subject), not a usage difference
			if strings.Contains(d, "inspect failed") {
				continue
			}
			o.diffs[n] = append(o.diffs[n], d)
		}
	}
	return o
}

func worldExplore(t *testing.T, c *vcore.Ctx, prop string) {
	dir := os.Getenv("VERIF_TMP")
	if dir == "" {
		dir = t.TempDir()
	}
	b := world.NewBackend(dir, false)
	defer b.Close()
	snap0, err := initialCluster(t, b)
	if err != nil {
		c.HarnessError("initial cluster: %v", err)
		return
	}
	c.SetRule("explicit-state BFS from a cluster of one pod and two nodes (n1: 2 cores/200 memory, n2: 4 cores in 2 NUMA nodes/400 memory): each transition is one real API call (create AUTO/EACH x count x {memory-only, bound 1.0, bound 0.5}; remove/dissociate/replace/realloc{+mem,-mem,+cpu,unbind,bind} of one workload per (node,resources) class; set-node; for C11 also add-node/remove-node/set-node labels, +cpu and more memory with a re-cut NUMA layout) run to quiescence on a fresh core instance in a virtual-time bubble; " +
		"states are de-duplicated by a canonical form without ids; every (state, operation) is re-run once per intercepted step (etcd request, engine call, WAL write) with that step failing; non-trivial = distinct (pre-state, operation, failing step) whose fault was delivered, plus distinct fault-free transitions")
	c.Assume("etcd is the in-memory model memetcd (bound to the embedded etcd by ./check memetcd-conformance); engines are the stateful fakev engines")
	c.Assume("a failing step has no effect and returns an error; every other step (including compensations) succeeds")

	if c.Replay != nil {
		var wc wCase
		if err := jsonUnmarshal(c.Replay, &wc); err != nil {
			c.HarnessError("replay: %v", err)
			return
		}
		if wc.Conc != nil {
			c10Concurrent(t, c, b, snap0, wc.Conc)
			return
		}
		if wc.Mgr != nil {
			c11Manager(c, wc.Mgr)
			return
		}
		worldReplay(t, c, prop, b, snap0, &wc)
		return
	}

	depthFree, depthFault := 2, 1
	if c.Thorough() {
		depthFree, depthFault = 3, 2
	}
	c.Bound("depth_fault_free", depthFree)
	c.Bound("fault_prestates_up_to_depth", depthFault)
	c.Bound("faults_per_history", 1)

	root := &wState{snap: snap0, view: b.View(false)}
	root.key = canonView(root.view)
	seen := map[string]bool{root.key: true}
	frontier := []*wState{root}
	if c.Shard == 0 {
		c.State()
	}
	seed := uint64(7)
	for depth := 0; depth < depthFree && len(frontier) > 0; depth++ {
		var next []*wState
		for _, s := range frontier {
			for _, op := range opAlphabet(prop, s.view) {
				if c.Expired() {
					c.CapHit(fmt.Sprintf("budget reached at depth %d", depth))
					return
				}
				if s.fault != nil && depth >= depthFree {
					continue
				}
				hist := append(append([]wOp{}, s.hist...), op)
				b.Restore(s.snap)
				res, tr, post, obs := worldStep(t, b, op, s.view, nil, seed)
				if c.Shard == 0 {
					c.Transition()
					c.Eval()
					c.Outcome(op.Kind + ":" + res.summary())
					c.Nontrivial("T|" + s.key + "|" + op.String())
				}
				wc := &wCase{Hist: hist, Pre: s.fault}
				worldOracle(c, prop, s, op, res, tr, post, obs, wc, c.Shard == 0)
				key := canonView(post)
				if !seen[key] && usageConsistent(post) {
					seen[key] = true
					ns := &wState{snap: b.Save(), view: post, key: key, hist: hist, depth: depth + 1, fault: s.fault}
					next = append(next, ns)
					if c.Shard == 0 {
						c.State()
						if c.WantSample() && depth+1 == depthFree {
							c.Sample(map[string]any{"history": hist, "result": res.summary(), "steps": len(tr.Steps)})
						}
					}
				}
				// single-fault enumeration on this (state, op), sharded by hash
				if depth > depthFault || s.fault != nil {
					continue
				}
				if int(hashKey(s.key, op.String())%uint64(c.NShards)) != c.Shard {
					continue
				}
				for _, f := range stepList(tr.Steps) {
					f := f
					if c.Expired() {
						c.CapHit(fmt.Sprintf("budget reached during fault enumeration at depth %d", depth))
						return
					}
					b.Restore(s.snap)
					fres, ftr, fpost, fobs := worldStep(t, b, op, s.view, &f, seed)
					c.Eval()
					c.Exec()
					if !ftr.Delivered {
						c.Outcome("fault-not-delivered")
						continue
					}
					c.Outcome(op.Kind + "+fault:" + fres.summary())
					c.Nontrivial("F|" + s.key + "|" + op.String() + "|" + f.Label + fmt.Sprint(f.Occ))
					fwc := &wCase{Hist: hist, Fault: &f}
					worldOracle(c, prop, s, op, fres, ftr, fpost, fobs, fwc, true)
					// a faulted successor is a pre-state for further fault-free operations
					// (unless its usage already disagrees with its records: that was reported just above, and
					// everything that happens from such a state is a consequence of it, not a new finding)
					fkey := canonView(fpost)
					if !seen[fkey] && depth+1 < depthFree && usageConsistent(fpost) {
						seen[fkey] = true
						next = append(next, &wState{snap: b.Save(), view: fpost, key: fkey, hist: hist, depth: depth + 1, fault: &wFaulted{At: len(hist) - 1, Fault: f}})
						c.State()
					}
				}
			}
		}
		frontier = next
	}
	if prop == "C10" {
		c10Concurrent(t, c, b, snap0, nil)
	}
	if prop == "C11" && c.Shard == 0 {
		c11Manager(c, nil)
	}
}

// usageConsistent: every node's usage equals the sum over its recorded workloads (the C10 oracle).
// A state that fails it has been reported when it was produced and is not expanded any further.
func usageConsistent(v *world.View) bool {
	for n := range v.Nodes {
		if len(v.CompareUsage(n)) > 0 {
			return false
		}
	}
	return true
}

// worldStep runs one operation (optionally with a fault) from the restored backend state.
func worldStep(t *testing.T, b *world.Backend, op wOp, pre *world.View, fault *faultSpec, seed uint64) (wResult, execTrace, *world.View, *apiObs) {
	var res wResult
	var obs *apiObs
	nodes := make([]string, 0, len(pre.Nodes)+1)
	for n := range pre.Nodes {
		nodes = append(nodes, n)
	}
	sort.Strings(nodes)
	tr := wexec(t, b, world.InstanceOpts{}, fault, seed,
		func(ctx context.Context, inst *world.Instance) { res = runOp(ctx, inst, op, pre) },
		func(ctx context.Context, inst *world.Instance) {
			// observe only nodes that still exist
			v := b.View(false)
			var live []string
			for _, n := range nodes {
				if _, ok := v.Nodes[n]; ok {
					live = append(live, n)
				}
			}
			obs = observeAPI(ctx, inst, live)
		})
	post := b.View(false)
	return res, tr, post, obs
}

func worldReplay(t *testing.T, c *vcore.Ctx, prop string, b *world.Backend, snap0 *world.Snap, wc *wCase) {
	b.Restore(snap0)
	s := &wState{snap: snap0, view: b.View(false)}
	s.key = canonView(s.view)
	for i, op := range wc.Hist {
		var f *faultSpec
		if i == len(wc.Hist)-1 {
			f = wc.Fault
		}
		if wc.Pre != nil && wc.Pre.At == i {
			f = &wc.Pre.Fault
		}
		b.Restore(s.snap)
		res, tr, post, obs := worldStep(t, b, op, s.view, f, 7)
		c.Eval()
		worldOracle(c, prop, s, op, res, tr, post, obs, wc, true)
		c.Note("step %d %s => %s (fault delivered=%v)", i, op.String(), res.summary(), tr.Delivered)
		s = &wState{snap: b.Save(), view: post, key: canonView(post), hist: wc.Hist[:i+1]}
	}
}

var (
	reHexID   = regexp.MustCompile(`[0-9a-f]{64}`)
	reNode    = regexp.MustCompile(`\bn[0-9]\b`)
	reWName   = regexp.MustCompile(`[A-Za-z0-9]+_[A-Za-z0-9]+_[A-Za-z]{6}\b`)
	reIdent   = regexp.MustCompile(`/[A-Za-z]{16}\b`)
	reEventID = regexp.MustCompile(`/events/[0-9a-f]+`)
)

// faultLayer names the class of the failing step (ids, node names, generated names and
// event numbers removed), so that a signature identifies a cause and not an input.
func faultLayer(wc *wCase) string {
	if wc.Fault == nil {
		return "no-fault"
	}
	l := wc.Fault.Label
	l = reHexID.ReplaceAllString(l, "<id>")
	l = reWName.ReplaceAllString(l, "<name>")
	l = reIdent.ReplaceAllString(l, "/<ident>")
	l = reEventID.ReplaceAllString(l, "/events/<n>")
	l = reNode.ReplaceAllString(l, "<node>")
	return l
}

// worldOracle evaluates the property's clauses on one executed transition.
func worldOracle(c *vcore.Ctx, prop string, pre *wState, op wOp, res wResult, tr execTrace, post *world.View, obs *apiObs, wc *wCase, report bool) {
	if !report {
		return
	}
	viol := func(sig, f string, a ...any) {
		c.Violate(prop+"/"+sig, fmt.Sprintf(f, a...)+" | case="+vcore.JSON(wc)+" result="+vcore.JSON(res), wc)
	}
	if tr.Deadlock != "" {
		viol(op.Kind+"/"+faultLayer(wc)+"/stuck", "the call did not run to completion: %s", firstLine(tr.Deadlock))
		return
	}
	switch prop {
	case "C10":
		for n := range post.Nodes {
			if d := post.CompareUsage(n); len(d) > 0 {
				viol(op.Kind+"/"+faultLayer(wc)+"/usage-differs-from-recorded-workloads", "node %s: %s", n, strings.Join(d, "; "))
				return
			}
		}
		if obs != nil {
			for n, d := range obs.diffs {
				viol(op.Kind+"/"+faultLayer(wc)+"/node-resource-check-reports-differences", "node %s: %s", n, strings.Join(d, "; "))
				return
			}
		}
	case "C11":
		oracleC11(c, pre, op, res, post, wc, viol)
	}
}

func firstLine(s string) string {
	if i := strings.Index(s, "\n"); i > 0 {
		s = s[:i]
	}
	if len(s) > 300 {
		s = s[:300]
	}
	return s
}

// projDiff lists the differences between two views in the projection C11 names: workload
// records, node records, node capacity and node usage.
func projDiff(pre, post *world.View) []string {
	var d []string
	for id, w := range pre.Workloads {
		pw, ok := post.Workloads[id]
		if !ok {
			d = append(d, "workload record "+id[:8]+" disappeared")
		} else if pw.RawValue != w.RawValue {
			d = append(d, "workload record "+id[:8]+" changed")
		}
	}
	for id := range post.Workloads {
		if _, ok := pre.Workloads[id]; !ok {
			d = append(d, "new workload record "+id[:8])
		}
	}
	for n, raw := range pre.NodeRaw {
		pr, ok := post.NodeRaw[n]
		if !ok {
			d = append(d, "node record "+n+" disappeared")
		} else if pr != raw {
			d = append(d, "node record "+n+" changed")
		}
	}
	for n := range post.NodeRaw {
		if _, ok := pre.NodeRaw[n]; !ok {
			d = append(d, "new node record "+n)
		}
	}
	for n, r := range pre.NodeRes {
		pr, ok := post.NodeRes[n]
		if !ok {
			d = append(d, "resource record of "+n+" disappeared")
			continue
		}
		if vcore.JSON(pr.Capacity) != vcore.JSON(r.Capacity) {
			d = append(d, fmt.Sprintf("capacity of %s changed: %s -> %s", n, vcore.JSON(r.Capacity), vcore.JSON(pr.Capacity)))
		}
		if vcore.JSON(pr.Usage) != vcore.JSON(r.Usage) {
			d = append(d, fmt.Sprintf("usage of %s changed: %s -> %s", n, vcore.JSON(r.Usage), vcore.JSON(pr.Usage)))
		}
	}
	for n := range post.NodeRes {
		if _, ok := pre.NodeRes[n]; !ok {
			d = append(d, "new resource record for "+n)
		}
	}
	sort.Strings(d)
	return d
}

func containerIDs(v *world.View) map[string]*world.Container {
	m := map[string]*world.Container{}
	for _, c := range v.Containers {
		m[c.ID] = c
	}
	return m
}

// oracleC11: every part of the call that reports failure leaves workloads, nodes, node
// capacity and node usage exactly as before (evaluated only when the injected fault was
// delivered, which is the property's quantifier).
func oracleC11(c *vcore.Ctx, pre *wState, op wOp, res wResult, post *world.View, wc *wCase, viol func(sig, f string, a ...any)) {
	if wc.Fault == nil {
		return
	}
	layer := faultLayer(wc)
	anyFailed := res.Err != ""
	for _, it := range res.Items {
		if !it.OK {
			anyFailed = true
		}
	}
	if !anyFailed {
		return
	}
	preC, postC := containerIDs(pre.view), containerIDs(post)
	switch op.Kind {
	case "create":
		okIDs := map[string]bool{}
		for _, it := range res.Items {
			if it.OK {
				okIDs[it.ID] = true
			}
		}
		for id, w := range post.Workloads {
			if _, was := pre.view.Workloads[id]; !was && !okIDs[id] {
				viol("create/"+layer+"/failed-instance-left-a-record", "workload %s on %s is recorded but no success was reported for it", id[:8], w.Node)
				return
			}
		}
		for id, ct := range postC {
			if _, was := preC[id]; !was && !okIDs[id] {
				viol("create/"+layer+"/failed-instance-left-a-container", "container %s on %s exists but no success was reported for it", id[:8], ct.Node)
				return
			}
		}
		for id, w := range pre.view.Workloads {
			if pw, ok := post.Workloads[id]; !ok || pw.RawValue != w.RawValue {
				viol("create/"+layer+"/other-workload-changed", "pre-existing workload %s changed", id[:8])
				return
			}
		}
		for n := range post.Nodes {
			if d := post.CompareUsage(n); len(d) > 0 {
				viol("create/"+layer+"/failed-instance-holds-resources", "node %s: %s", n, strings.Join(d, "; "))
				return
			}
		}
		for n, r := range pre.view.NodeRes {
			if pr, ok := post.NodeRes[n]; !ok || vcore.JSON(pr.Capacity) != vcore.JSON(r.Capacity) || post.NodeRaw[n] != pre.view.NodeRaw[n] {
				viol("create/"+layer+"/node-changed", "node %s record or capacity changed", n)
				return
			}
		}
	case "replace":
		d := projDiff(pre.view, post)
		if len(d) > 0 {
			viol("replace/"+layer+"/state-changed", "%s", strings.Join(d, "; "))
			return
		}
		for _, it := range res.Items {
			if it.OK {
				continue
			}
			old, was := preC[it.ID]
			now, is := postC[it.ID]
			if was && (!is || (old.Running && !now.Running)) {
				viol("replace/"+layer+"/old-workload-not-running", "failed replace left the old workload %s without a running container", it.ID[:8])
				return
			}
		}
	case "remove", "dissociate":
		d := projDiff(pre.view, post)
		if len(d) > 0 {
			viol(op.Kind+"/"+layer+"/state-changed", "%s", strings.Join(d, "; "))
			return
		}
		for _, it := range res.Items {
			if !it.OK && it.ID != "" {
				if _, was := preC[it.ID]; was {
					if _, is := postC[it.ID]; !is {
						viol(op.Kind+"/"+layer+"/container-gone", "failed %s removed the container of %s", op.Kind, it.ID[:8])
						return
					}
				}
			}
		}
	default: // realloc, setnode, addnode, removenode: single-part operations
		d := projDiff(pre.view, post)
		if len(d) > 0 {
			viol(op.Kind+"/"+layer+"/state-changed", "%s", strings.Join(d, "; "))
		}
	}
}
