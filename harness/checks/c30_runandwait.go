package checks

import (
	"context"
	"errors"
	"fmt"
	"hash/fnv"
	"os"
	"sort"
	"strings"
	"sync"
	"testing"
	"time"

	cpumemtypes "github.com/projecteru2/core/resource/plugins/cpumem/types"

	"verif/harness/vcore"
	"verif/harness/world"
)

// C30: run-and-wait workloads are always cleaned up.
//
// Real Calcium.RunAndWait on a real store/plugin/WAL over memetcd, fakev engines scripted per
// case; one execution per case in a synctest bubble. After the output channel has closed (it
// must: otherwise the bubble reports the blocked execution) the store, the engines, the
// plugin's node usage, the message stream and the WAL file are compared with the statement.

func init() {
	register(Meta{ID: "C30", Level: "fault_enumeration", BudgetQuick: 150, BudgetThor: 1500, GoMaxProcs: 2},
		func(t *testing.T, c *vcore.Ctx) { c30Explore(t, c) })
}

type c30Case struct {
	Count   int        `json:"count"`
	Stdin   bool       `json:"stdin,omitempty"`
	Logs    string     `json:"logs"`                                      // two-lines | empty | error (open fails)
	Attach  string     `json:"attach,omitempty"`                          // stdin only: ok | error
	Wait    string     `json:"wait"`                                      // code0 | code1 | error
	Stagger bool       `json:"outputs_end_one_after_the_other,omitempty"` // count 2: the second workload's output ends 3 s after the first's
	InOpen  bool       `json:"input_stays_open,omitempty"`                // stdin: the caller closes the input channel only after the output stream has closed (a client that never half-closes)
	Fault   *faultSpec `json:"fault,omitempty"`
}

type c30Msg struct {
	W    string `json:"workload"`
	Data string `json:"data"`
	Type string `json:"stream"`
}

func c30Setup(t *testing.T, b *world.Backend) (*world.Snap, error) {
	var err error
	tr := wexec(t, b, world.InstanceOpts{}, nil, 1, func(ctx context.Context, inst *world.Instance) {
		if _, e := inst.Cal.AddPod(ctx, "p", ""); e != nil {
			err = e
			return
		}
		if _, e := inst.Cal.AddNode(ctx, world.NodeSpec{Name: "n1", Pod: "p", CPU: 2, Memory: 200, Test: true}.Options()); e != nil {
			err = e
			return
		}
		// one ordinary workload, so that the pre-state usage is not zero
		msgs, e := inst.Create(ctx, world.DeploySpec{Pod: "p", Count: 1, Strategy: "AUTO", Bind: true, CPU: 0.5, Memory: 30})
		if e != nil {
			err = e
			return
		}
		for _, m := range msgs {
			if m.Error != nil {
				err = m.Error
			}
		}
	}, nil)
	if tr.Deadlock != "" {
		return nil, fmt.Errorf("setup: %s", tr.Deadlock)
	}
	if err != nil {
		return nil, err
	}
	return b.Save(), nil
}

func c30Cases() []c30Case {
	var out []c30Case
	for _, cnt := range []int{1, 2} {
		for _, logs := range []string{"two-lines", "empty", "error"} {
			for _, wait := range []string{"code0", "code1", "error"} {
				out = append(out, c30Case{Count: cnt, Logs: logs, Wait: wait})
				if cnt == 2 && logs != "error" {
					out = append(out, c30Case{Count: cnt, Logs: logs, Wait: wait, Stagger: true})
				}
			}
		}
	}
	for _, logs := range []string{"two-lines", "empty", "error"} {
		for _, att := range []string{"ok", "error"} {
			for _, wait := range []string{"code0", "code1", "error"} {
				out = append(out, c30Case{Count: 1, Stdin: true, Logs: logs, Attach: att, Wait: wait})
				if logs == "two-lines" {
					out = append(out, c30Case{Count: 1, Stdin: true, Logs: logs, Attach: att, Wait: wait, InOpen: true})
				}
			}
		}
	}
	return out
}

func c30Explore(t *testing.T, c *vcore.Ctx) {
	dir := os.Getenv("VERIF_TMP")
	if dir == "" {
		dir = t.TempDir()
	}
	b := world.NewBackend(dir, false)
	defer b.Close()
	snap, err := c30Setup(t, b)
	if err != nil {
		c.HarnessError("setup: %v", err)
		return
	}
	b.Restore(snap)
	pre := b.View(false)
	c.SetRule("run-and-wait requests: count {1,2} without stdin, count 1 with stdin (input channel gets one line and is closed at once, or only after the output stream has closed) x engine scripts: logs {two lines, empty, open fails} x attach {ok, fails} (stdin only) x wait {exit code 0, exit code 1, fails}, for count 2 also with the second output ending 3 s after the first; every request fault-free, and for representative requests (quick: 3, thorough: all) once per intercepted step (etcd request, engine call, WAL write) of the fault-free run with that step failing; one execution per case in a bubble on a snapshot with one ordinary workload; " +
		"a failing step that belongs to the cleanup itself (store/engine requests of the removal, WAL commit - outside the statement's engine outcomes) is judged only for stream closure, exit code and other workloads; " +
		"non-trivial = distinct case in which at least one workload was actually started (so cleanup was owed), faulted cases only when the fault was delivered")
	c.Assume("etcd is the in-memory model memetcd; engines are the stateful fakev engines; a failing step has no effect, all other steps succeed; the WAL is the real bbolt file, read after the instance is closed")
	c.Bound("counts", []int{1, 2})
	c.Bound("faults_per_execution", 1)
	c.Bound("horizon_virtual_hours", 6)
	if c.Replay != nil {
		var cc c30Case
		if err := jsonUnmarshal(c.Replay, &cc); err != nil {
			c.HarnessError("replay: %v", err)
			return
		}
		c30One(t, c, b, snap, pre, &cc)
		return
	}
	cases := c30Cases()
	c.Bound("fault_free_requests", len(cases))
	faulted := map[int]bool{}
	for i, cc := range cases {
		rep := (cc.Count == 1 && !cc.Stdin && cc.Logs == "two-lines" && cc.Wait == "code0") ||
			(cc.Count == 2 && cc.Logs == "two-lines" && cc.Wait == "code1") ||
			(cc.Stdin && cc.Logs == "two-lines" && cc.Attach == "ok" && cc.Wait == "code0")
		if rep || c.Thorough() {
			faulted[i] = true
		}
	}
	c.Bound("requests_with_fault_enumeration", len(faulted))
	// Sharding is by a hash of the case, not by position: the order in which concurrent parts of one
	// execution reach the interceptor differs between worker processes, the set of (label, occurrence) does not.
	mine := func(cc *c30Case) bool {
		h := fnv.New64a()
		h.Write([]byte(vcore.JSON(cc)))
		return c.Mine(int64(h.Sum64() >> 1))
	}
	for i := range cases {
		cc := cases[i]
		own := mine(&cc)
		if !own && !faulted[i] {
			continue
		}
		if c.Expired() {
			c.CapHit("budget reached")
			return
		}
		// the fault-free run of a request with fault enumeration is needed by every shard (its steps are the
		// fault alphabet); it is evaluated by the shard that owns it
		var steps []string
		if own {
			steps = c30One(t, c, b, snap, pre, &cc)
		} else {
			steps = c30Steps(t, b, snap, &cc)
		}
		if !faulted[i] {
			continue
		}
		faults := stepList(steps)
		sort.Slice(faults, func(a, b int) bool {
			if faults[a].Label != faults[b].Label {
				return faults[a].Label < faults[b].Label
			}
			return faults[a].Occ < faults[b].Occ
		})
		for _, f := range faults {
			f := f
			fc := cc
			fc.Fault = &f
			if !mine(&fc) {
				continue
			}
			if c.Expired() {
				c.CapHit("budget reached during fault enumeration")
				return
			}
			c30One(t, c, b, snap, pre, &fc)
		}
	}
}

type c30Run struct {
	ids     []string
	msgs    []c30Msg
	callErr string
	closed  bool
	tr      execTrace
}

func c30Exec(t *testing.T, b *world.Backend, snap *world.Snap, cc *c30Case) *c30Run {
	b.Restore(snap)
	sc := world.Script{CopyMode: map[string]string{}}
	switch cc.Logs {
	case "two-lines":
		sc.LogLines = []string{"line one", "line two"}
	case "error":
		sc.LogsErr = errors.New("fakev: cannot open logs")
	}
	if cc.Attach == "error" {
		sc.AttachErr = errors.New("fakev: cannot attach")
	}
	switch cc.Wait {
	case "code1":
		sc.WaitCode, sc.WaitMsg = 1, "exit 1"
	case "error":
		sc.WaitErr = errors.New("fakev: wait failed")
	}
	if cc.Stagger {
		sc.LogStagger = 3 * time.Second
	}
	b.Eng.Script = sc
	defer func() { b.Eng.Script = world.Script{CopyMode: map[string]string{}} }()
	r := &c30Run{}
	var mu sync.Mutex
	r.tr = wexec(t, b, world.InstanceOpts{}, cc.Fault, 11, func(ctx context.Context, inst *world.Instance) {
		var in chan []byte
		if cc.Stdin {
			in = make(chan []byte, 1)
			in <- []byte("hello\n")
			if cc.InOpen {
				defer close(in) // only once the output stream has closed (or the call has failed)
			} else {
				close(in)
			}
		}
		spec := world.DeploySpec{App: "job", Entry: "run", Pod: "p", Count: cc.Count, Strategy: "AUTO", Memory: 20, Stdin: cc.Stdin}
		ids, ch, err := inst.Cal.RunAndWait(ctx, spec.Options(), in)
		mu.Lock()
		r.ids = append([]string{}, ids...)
		mu.Unlock()
		if err != nil {
			mu.Lock()
			r.callErr = err.Error()
			r.closed = true
			mu.Unlock()
			return
		}
		for m := range ch {
			mu.Lock()
			typ := "stdout"
			switch int(m.StdStreamType) {
			case -1:
				typ = "error"
			case 1:
				typ = "stderr"
			case 0:
			default:
				typ = fmt.Sprint(int(m.StdStreamType))
			}
			r.msgs = append(r.msgs, c30Msg{W: m.WorkloadID, Data: string(m.Data), Type: typ})
			mu.Unlock()
		}
		mu.Lock()
		r.closed = true
		mu.Unlock()
	}, nil)
	mu.Lock()
	defer mu.Unlock()
	cp := *r
	cp.msgs = append([]c30Msg{}, r.msgs...)
	return &cp
}

func c30Steps(t *testing.T, b *world.Backend, snap *world.Snap, cc *c30Case) []string {
	return c30Exec(t, b, snap, cc).tr.Steps
}

func c30One(t *testing.T, c *vcore.Ctx, b *world.Backend, snap *world.Snap, pre *world.View, cc *c30Case) []string {
	// a panic in a goroutine of the repository's own ends the worker: the driver reports it for this case
	c.Journal("C30/process-crashed-during-run-and-wait", cc)
	defer c.JournalDone()
	r := c30Exec(t, b, snap, cc)
	tr := r.tr
	c.Eval()
	c.Exec()
	cls := "no-fault"
	if cc.Fault != nil {
		cls = faultLayer(&wCase{Fault: cc.Fault})
		// all steps of taking or releasing a distributed lock form one class: which of them an execution
		// performs (and how often) depends on contention between the run and the background remap
		if l := cc.Fault.Label; strings.Contains(l, "__lock__") || strings.HasPrefix(l, "etcd.grant(") || strings.HasPrefix(l, "etcd.revoke(") || strings.HasPrefix(l, "etcd.keepalive(") || strings.HasPrefix(l, "etcd.ttl(") {
			cls = "etcd.lock(*)"
		}
	}
	shortMsgs := func() []c30Msg {
		out := make([]c30Msg, 0, len(r.msgs))
		for _, m := range r.msgs {
			m.W = c30Short(m.W)
			if len(m.Data) > 70 {
				m.Data = m.Data[:70]
			}
			out = append(out, m)
		}
		return out
	}
	viol := func(sig, f string, a ...any) {
		c.Violate("C30/"+cls+"/"+sig, fmt.Sprintf(f, a...)+" | case="+vcore.JSON(cc)+" call_error="+r.callErr+" messages="+vcore.JSON(shortMsgs()), cc)
	}
	if cc.Fault != nil && !tr.Delivered {
		c.Outcome("fault-not-delivered")
		return tr.Steps
	}
	if tr.Deadlock != "" || !r.closed {
		c.Outcome("stream-never-closes")
		viol("stream-never-closes", "the output stream did not close after %d message(s): %s", len(r.msgs), firstLine(tr.Deadlock))
		return tr.Steps
	}
	post := b.View(false)
	wal, werr := b.WALEvents()
	if werr != nil {
		c.HarnessError("reading the WAL file: %v", werr)
		return tr.Steps
	}
	// which workloads did this run start, and for which of them did the engine's wait succeed? (from the
	// recorded engine steps, not from the code under test)
	started := map[string]bool{}
	waited := map[string]bool{}
	for _, s := range tr.Steps {
		lab := s[:strings.LastIndex(s, "#")]
		faultedStep := cc.Fault != nil && s == fmt.Sprintf("%s#%d", cc.Fault.Label, cc.Fault.Occ)
		if strings.HasPrefix(lab, "engine.start(") && !faultedStep {
			started[strings.TrimSuffix(lab[strings.Index(lab, "/")+1:], ")")] = true
		}
		if strings.HasPrefix(lab, "engine.wait(") && !faultedStep && cc.Wait != "error" {
			waited[strings.TrimSuffix(lab[strings.Index(lab, "/")+1:], ")")] = true
		}
	}
	// The statement quantifies over requests and ENGINE OUTCOMES for logs, attach and wait. The
	// enumeration also fails every other intercepted step once. When such a step belongs to the
	// cleanup itself (it comes after the point at which the first output ended: the store requests
	// and the engine call of the removal, the WAL commit), the cleanup cannot be owed any more - no
	// implementation can remove a record while the store refuses the removal. For those faults only
	// the clauses that remain meaningful are judged (the stream closes, the exit code is the last
	// message, other workloads are untouched).
	cleanupFault := false
	if cc.Fault != nil {
		l := cc.Fault.Label
		if !(strings.HasPrefix(l, "engine.logs(") || strings.HasPrefix(l, "engine.attach(") || strings.HasPrefix(l, "engine.wait(")) {
			endLabel := "engine.wait("
			if cc.Logs == "error" {
				endLabel = "engine.logs("
			} else if cc.Attach == "error" {
				endLabel = "engine.attach("
			}
			boundary, fidx := -1, -1
			for i, s := range tr.Steps {
				if boundary < 0 && strings.HasPrefix(s, endLabel) {
					boundary = i
				}
				if fidx < 0 && s == fmt.Sprintf("%s#%d", cc.Fault.Label, cc.Fault.Occ) {
					fidx = i
				}
			}
			cleanupFault = boundary >= 0 && fidx > boundary
		}
	}
	if cleanupFault {
		c.Outcome("a step of the cleanup itself failed: removal and commit not judged")
	}
	nLeftRec, nLeftCt := 0, 0
	for id, w := range post.Workloads {
		if _, was := pre.Workloads[id]; !was && !cleanupFault {
			nLeftRec++
			viol("workload-left-behind", "after the stream closed workload %s is still recorded on %s", c30Short(id), w.Node)
		}
	}
	preC := containerIDs(pre)
	for id, ct := range containerIDs(post) {
		if _, was := preC[id]; !was && !cleanupFault {
			nLeftCt++
			viol("container-left-behind", "after the stream closed container %s still exists on %s (running=%v, recorded=%v)", c30Short(id), ct.Node, ct.Running, post.Workloads[id] != nil)
		}
	}
	for id, w := range pre.Workloads {
		if pw, ok := post.Workloads[id]; !ok || pw.RawValue != w.RawValue {
			viol("other-workload-changed", "the ordinary workload %s of the pre-state changed or disappeared", c30Short(id))
		}
	}
	usageOK := true
	for n := range pre.Nodes {
		if cleanupFault {
			break
		}
		if nLeftRec == 0 {
			if d := c30UsageDiff(pre.NodeRes[n], post.NodeRes[n]); d != "" {
				usageOK = false
				viol("usage-not-returned", "node %s: %s", n, d)
			}
		} else if d := post.CompareUsage(n); len(d) > 0 {
			// a record was left behind (reported above): usage must at least match what is recorded
			usageOK = false
			viol("usage-not-returned", "node %s: %s", n, strings.Join(d, "; "))
		}
	}
	exitOK := 0
	for id := range waited {
		want := fmt.Sprintf("[exitcode] %d", map[string]int{"code0": 0, "code1": 1}[cc.Wait])
		var last *c30Msg
		for i := range r.msgs {
			if r.msgs[i].W == id {
				last = &r.msgs[i]
			}
		}
		switch {
		case last == nil:
			viol("exit-code-not-last", "the engine's wait for workload %s succeeded but the stream carries no message for it", c30Short(id))
		case last.Data != want:
			viol("exit-code-not-last", "the engine's wait for workload %s succeeded (%s) but its last message is %q", c30Short(id), want, last.Data)
		default:
			exitOK++
		}
	}
	nWal := 0
	for _, e := range wal {
		if e.Type == "create-lambda" && !cleanupFault {
			nWal++
			viol("wal-entry-not-committed", "after the stream closed the WAL file still holds %s %s (workload recorded=%v)", e.Key, c30Short(strings.Trim(e.Item, "\"")), post.Workloads[strings.Trim(e.Item, "\"")] != nil)
		}
	}
	c.Outcome(fmt.Sprintf("started%d waited%d exit-ok%d left-rec%d left-ct%d wal%d usage-ok=%v msgs=%d", len(started), len(waited), exitOK, nLeftRec, nLeftCt, nWal, usageOK, len(r.msgs)))
	if len(started) > 0 {
		c.Nontrivial(vcore.JSON(cc))
	}
	if c.WantSample() && len(started) > 0 && (cc.Fault != nil || cc.Count == 2) {
		c.Sample(map[string]any{"case": cc, "started": len(started), "messages": shortMsgs(), "steps": len(tr.Steps)})
	}
	return tr.Steps
}

func c30UsageDiff(pre, post *cpumemtypes.NodeResourceInfo) string {
	if pre == nil || post == nil {
		return "no resource record"
	}
	if a, b := vcore.JSON(pre.Usage), vcore.JSON(post.Usage); a != b {
		return fmt.Sprintf("usage %s, before the run %s", b, a)
	}
	if a, b := vcore.JSON(pre.Capacity), vcore.JSON(post.Capacity); a != b {
		return fmt.Sprintf("capacity %s, before the run %s", b, a)
	}
	return ""
}

// c30Short keeps the distinguishing tail of a fakev container id.
func c30Short(id string) string {
	if len(id) > 10 {
		return id[:4] + ".." + id[len(id)-3:]
	}
	return id
}
