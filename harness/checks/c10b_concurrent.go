package checks

import (
	"context"
	"fmt"
	"os"
	"strings"
	"testing"
	"time"

	"verif/harness/vcore"
	"verif/harness/world"
)

// C10, concurrent part: "interleavings of concurrent operations on different workloads". Two
// API calls that touch DIFFERENT workloads of the same node (or the node itself) run as
// threads of one core instance; every interleaving of their backend requests within the
// preemption bound is executed on the real code (engine E4); when both have returned and the
// background work has quiesced, every node's usage must equal the sum over its recorded
// workloads and stay within capacity.

type c10cSel struct {
	Node string `json:"node"`
	Req  string `json:"req"` // the request the pre-state workload was created with (mem | bind1)
}

type c10cOp struct {
	Op  wOp      `json:"op"`
	Sel *c10cSel `json:"target,omitempty"` // pre-state workload an operation on a workload refers to
}

type c10cCase struct {
	Threads []c10cOp `json:"threads"`
	Bound   int      `json:"preemption_bound"`
	Choices []int    `json:"choices,omitempty"`
}

// pre-state: n1 carries a bound workload (1 core, 30 memory) and a memory-only one (60), n2 a bound one
func c10cSetup(t *testing.T, b *world.Backend, snap0 *world.Snap) (*world.Snap, error) {
	b.Restore(snap0)
	var err error
	for _, op := range []wOp{
		{Kind: "create", Strategy: "AUTO", Count: 1, Req: "bind1", Include: []string{"n1"}},
		{Kind: "create", Strategy: "AUTO", Count: 1, Req: "mem", Include: []string{"n1"}},
		{Kind: "create", Strategy: "AUTO", Count: 1, Req: "bind1", Include: []string{"n2"}},
	} {
		op := op
		pre := b.View(false)
		tr := wexec(t, b, world.InstanceOpts{NoWAL: true}, nil, 3, func(ctx context.Context, inst *world.Instance) {
			if r := runOp(ctx, inst, op, pre); r.allFailed() {
				err = fmt.Errorf("setup %s: %s", op, r.summary())
			}
		}, nil)
		if tr.Deadlock != "" {
			return nil, fmt.Errorf("setup: %s", tr.Deadlock)
		}
		if err != nil {
			return nil, err
		}
	}
	return b.Save(), nil
}

func c10cIndex(pre *world.View, sel *c10cSel) int {
	for i, w := range sortedWorkloads(pre) {
		bound := strings.Contains(vcore.JSON(w.Res), "\"cpu_map\":{\"")
		if w.Node == sel.Node && bound == (sel.Req == "bind1") {
			return i
		}
	}
	return -1
}

func c10cPairs() [][]c10cOp {
	a, m, c2 := &c10cSel{"n1", "bind1"}, &c10cSel{"n1", "mem"}, &c10cSel{"n2", "bind1"}
	mk := func(kind, delta string, sel *c10cSel) c10cOp { return c10cOp{Op: wOp{Kind: kind, Delta: delta}, Sel: sel} }
	create := func(req string, cnt int, inc ...string) c10cOp {
		return c10cOp{Op: wOp{Kind: "create", Strategy: "AUTO", Count: cnt, Req: req, Include: inc}}
	}
	return [][]c10cOp{
		{create("bindhalf", 1, "n1"), mk("remove", "", a)},
		{create("bind1", 1, "n1"), create("bindhalf", 1, "n1")},
		{mk("realloc", "+cpu", a), create("bindhalf", 1, "n1")},
		{mk("realloc", "+mem", a), mk("realloc", "+mem", m)},
		{mk("remove", "", a), mk("remove", "", m)},
		{mk("dissociate", "", a), create("mem", 1, "n1")},
		{mk("replace", "", m), create("mem", 1, "n1")},
		{mk("realloc", "unbind", a), mk("remove", "", m)},
		{mk("realloc", "bind", m), mk("remove", "", a)},
		{create("mem", 2), mk("remove", "", c2)},
		{c10cOp{Op: wOp{Kind: "setnode", Node: "n1", Delta: "+cpu"}}, create("bind1", 1, "n1")},
	}
}

func c10cScenario(cc *c10cCase, snap *world.Snap, pre *world.View) *schedScenario {
	sc := &schedScenario{Name: "usage-concurrent", Snap: snap, Opts: world.InstanceOpts{NoWAL: true}, Horizon: 10 * time.Minute, Quantum: time.Second}
	for i, th := range cc.Threads {
		name := fmt.Sprintf("T%d", i+1)
		op := th.Op
		if th.Sel != nil {
			op.W = c10cIndex(pre, th.Sel)
		}
		sc.Threads = append(sc.Threads, schedThread{Name: name, Run: func(ctx context.Context, x *schedRun) {
			r := runOp(ctx, x.Inst(name), op, pre)
			x.mu.Lock()
			x.Data["res:"+name] = r.summary()
			x.mu.Unlock()
		}})
	}
	return sc
}

func c10Concurrent(t *testing.T, c *vcore.Ctx, b *world.Backend, snap0 *world.Snap, replay *c10cCase) {
	snap, err := c10cSetup(t, b, snap0)
	if err != nil {
		c.HarnessError("concurrent part: %v", err)
		return
	}
	b.Restore(snap)
	pre := b.View(false)
	if replay != nil {
		x := runSchedule(t, b, c10cScenario(replay, snap, pre), replay.Choices)
		c.Eval()
		c10cCheck(c, b, replay, x, replay.Choices)
		return
	}
	// quick: the eight scenarios with few scheduling points, preemption bound 1; thorough: all eleven at
	// bound 1 (the three long ones have > 5000 schedules each) and the three shortest also at bound 2
	type job struct {
		ths   []c10cOp
		bound int
	}
	var jobs []job
	pairs := c10cPairs()
	quick := map[int]bool{4: true, 5: true, 8: true} // three with few scheduling points (about 54 000 schedules at bound 1)
	for i, ths := range pairs {
		if !quick[i] && !c.Thorough() {
			continue
		}
		jobs = append(jobs, job{ths, 1})
	}
	if c.Thorough() {
		jobs = append(jobs, job{pairs[4], 2}) // remove || remove also with two preemptions
	}
	c.Bound("concurrent_part_scenarios", len(jobs))
	c.Bound("concurrent_part_preemption_bound_completed", map[bool]string{false: "1", true: "1 (all scenarios), 2 (remove||remove)"}[c.Thorough()])
	if dbg := os.Getenv("VERIF_C10C_ONLY"); dbg != "" { // debugging aid: one scenario, chosen bound
		var idx, bd int
		fmt.Sscanf(dbg, "%d:%d", &idx, &bd)
		jobs = []job{{pairs[idx], bd}}
	}
	for _, j := range jobs {
		// every shard runs every scenario: exploreSchedules divides the subtrees below the root execution
		// among the shards itself (dividing the scenarios as well would leave most subtrees unexplored)
		cc := c10cCase{Threads: j.ths, Bound: j.bound}
		if c.Expired() {
			c.CapHit("budget reached in the concurrent part")
			return
		}
		st := exploreSchedules(t, c, b, c10cScenario(&cc, snap, pre), j.bound, func(x *schedRun, choices []int) { c10cCheck(c, b, &cc, x, choices) })
		if !st.Complete {
			c.CapHit("budget reached inside a concurrent scenario")
		}
		if st.Diverged > 0 {
			c.Note("concurrent %s: %d replays diverged", vcore.JSON(j.ths), st.Diverged)
		}
		c.AddStates(int64(st.Executions))
		c.AddTransitions(int64(st.Executions * (st.MaxPoints + 1)))
	}
}

func c10cCheck(c *vcore.Ctx, b *world.Backend, cc *c10cCase, x *schedRun, choices []int) {
	rc := *cc
	rc.Choices = choices
	var names []string
	for _, th := range cc.Threads {
		n := th.Op.Kind
		if th.Op.Delta != "" {
			n += "(" + th.Op.Delta + ")"
		}
		names = append(names, n)
	}
	pair := strings.Join(names, "||")
	npre := 0
	for _, d := range x.Decisions {
		if d.Choice < len(d.Preempt) && d.Preempt[d.Choice] {
			npre++
		}
	}
	how := "interleaved"
	if npre == 0 {
		how = "sequential"
	}
	wc := &wCase{Conc: &rc}
	viol := func(sig, f string, a ...any) {
		c.Violate("C10/concurrent/"+pair+"/"+how+"/"+sig, fmt.Sprintf(f, a...)+" | threads="+vcore.JSON(cc.Threads)+" results="+c22Results(x, len(cc.Threads))+" schedule="+renderSchedule(x), wc)
	}
	if x.Stuck != "" {
		viol("call-never-returns", "%s", firstLine(x.Stuck))
		return
	}
	v := b.View(false)
	if os.Getenv("VERIF_DEBUG_SCHED") != "" && npre == 0 && strings.HasPrefix(pair, os.Getenv("VERIF_DEBUG_SCHED")) {
		menus := ""
		for i := 10; i < 16 && i < len(x.Decisions); i++ {
			menus += fmt.Sprintf(" [%d] %v", i, x.Decisions[i].Menu)
		}
		c.Note("default schedule of %s: MENUS%s", pair, menus)
	}
	c.Outcome("concurrent " + pair + ": " + c22Results(x, len(cc.Threads)))
	for _, n := range world.SortedStrings(keysOf(v.Nodes)) {
		if d := v.CompareUsage(n); len(d) > 0 {
			viol("usage-differs-from-recorded-workloads", "node %s: %s", n, strings.Join(d, "; "))
			break
		}
	}
	if npre > 0 {
		c.Nontrivial("conc|" + vcore.JSON(rc))
		if c.WantSample() {
			c.Sample(map[string]any{"concurrent_threads": cc.Threads, "results": c22Results(x, len(cc.Threads)), "schedule": renderSchedule(x)})
		}
	}
}

func keysOf[V any](m map[string]V) map[string]struct{} {
	out := map[string]struct{}{}
	for k := range m {
		out[k] = struct{}{}
	}
	return out
}
