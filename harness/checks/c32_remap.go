package checks

import (
	"context"
	"fmt"
	"sort"
	"testing"

	"github.com/mitchellh/mapstructure"

	"github.com/projecteru2/core/resource/cobalt"
	"github.com/projecteru2/core/resource/plugins"
	cpumemtypes "github.com/projecteru2/core/resource/plugins/cpumem/types"
	plugintypes "github.com/projecteru2/core/resource/plugins/types"
	resourcetypes "github.com/projecteru2/core/resource/types"
	coretypes "github.com/projecteru2/core/types"

	"verif/harness/vcore"
	"verif/harness/world"
)

// C32: after any change of CPU binding, every workload without CPU binding is given exactly
// the cores that still have at least one full core's worth of free pieces (all cores when
// there are none); workloads with CPU binding do not appear in the remap result.
// Part A: Plugin.CalculateRemap and Manager.Remap over all node states x workload mixes.
// Part B: histories through the real cobalt manager: alloc bound -> remap -> alloc bound ->
// remap -> release -> remap -> release -> remap, oracle after every step.

func init() {
	register(Meta{ID: "C32", Level: "exploration", BudgetQuick: 150, BudgetThor: 1200, GoMaxProcs: 2},
		func(t *testing.T, c *vcore.Ctx) {
			if c.Replay != nil {
				var rc c32Case
				if jsonUnmarshal(c.Replay, &rc) == nil && len(rc.World) > 0 {
					c32World(t, c, &rc)
					return
				}
			}
			remapEnum(c)
			if c.Replay == nil {
				c32World(t, c, nil)
			}
		})
}

type c32Case struct {
	Base  int      `json:"share_base"`
	Cap   []int    `json:"cap"`  // pieces per core
	Free  []int    `json:"free"` // free pieces per core
	Mix   []string `json:"mix,omitempty"`
	Hist  bool     `json:"history,omitempty"`
	R1    float64  `json:"r1,omitempty"` // history: first bound request
	R2    float64  `json:"r2,omitempty"` // history: second bound request
	Order int      `json:"release_order,omitempty"`
	World []wOp    `json:"cluster_history,omitempty"` // part C (c32c_world.go)
}

const c32MergeReps = 48

// c32Side is a second resource plugin whose remap answer names every workload of the node.
type c32Side struct{ c9Plugin }

func (p *c32Side) CalculateRemap(_ context.Context, _ string, ws map[string]plugintypes.WorkloadResource) (*plugintypes.CalculateRemapResponse, error) {
	resp := &plugintypes.CalculateRemapResponse{EngineParamsMap: map[string]plugintypes.EngineParams{}}
	for id := range ws {
		resp.EngineParamsMap[id] = plugintypes.EngineParams{"side": []string{"x"}}
	}
	return resp, nil
}

var c32Kinds = []string{"U0", "U1", "U2", "B1", "B2"}

// c32Resource builds the stored resource of a workload of the given kind on a node of k cores.
func c32Resource(kind string, base, k int) (raw plugintypes.WorkloadResource, bound bool) {
	w := &cpumemtypes.WorkloadResource{}
	switch kind {
	case "U0": // unbound, no limits at all
	case "U1":
		w.CPURequest, w.CPULimit, w.MemoryRequest, w.MemoryLimit = 0.5, 0.5, 30, 30
	case "U2": // limit above one core
		w.CPURequest, w.CPULimit = 0, 2
	case "B1": // one full core
		w.CPURequest, w.CPULimit, w.CPUMap = 1, 1, cpumemtypes.CPUMap{"0": base}
		bound = true
	case "B2": // a fragment on the last core
		w.CPURequest, w.CPULimit, w.CPUMap, w.MemoryRequest = 0.3, 0.3, cpumemtypes.CPUMap{fmt.Sprint(k - 1): 3 * base / 10}, 10
		bound = true
	}
	return world.ToRaw(w), bound
}

func c32Pool(capP, free []int, base int) []string {
	var pool, all []string
	for i := range capP {
		all = append(all, fmt.Sprint(i))
		if free[i] >= base {
			pool = append(pool, fmt.Sprint(i))
		}
	}
	if len(pool) == 0 {
		pool = all
	}
	sort.Strings(pool)
	return pool
}

func c32Mixes() [][]string {
	out := [][]string{{}}
	n := len(c32Kinds)
	for a := 0; a < n; a++ {
		out = append(out, []string{c32Kinds[a]})
		for b := a; b < n; b++ {
			out = append(out, []string{c32Kinds[a], c32Kinds[b]})
			for d := b; d < n; d++ {
				out = append(out, []string{c32Kinds[a], c32Kinds[b], c32Kinds[d]})
			}
		}
	}
	return out
}

// c32States: k cores, each (capacity, free) with capacity {1,2} x base and free {0,.3,1,2} x base.
func c32States(k, base int) [][2][]int {
	type cf struct{ c, f int }
	var cores []cf
	for _, cp := range []int{base, 2 * base} {
		for _, f := range []int{0, 3 * base / 10, base, 2 * base} {
			if f <= cp {
				cores = append(cores, cf{cp, f})
			}
		}
	}
	var out [][2][]int
	cur := make([]cf, k)
	var rec func(i int)
	rec = func(i int) {
		if i == k {
			cp, fr := make([]int, k), make([]int, k)
			for j, x := range cur {
				cp[j], fr[j] = x.c, x.f
			}
			out = append(out, [2][]int{cp, fr})
			return
		}
		for _, x := range cores {
			cur[i] = x
			rec(i + 1)
		}
	}
	rec(0)
	return out
}

func c32Node(capP, free []int) *cpumemtypes.NodeResourceInfo {
	use := make([]int, len(capP))
	for i := range capP {
		use[i] = capP[i] - free[i]
	}
	return (&nState{Cap: capP, Use: use, MemCap: 1000, MemUse: 100}).info()
}

func remapEnum(c *vcore.Ctx) {
	c.Assume("the order in which the manager merges the answers of two plugins is Go map iteration order, which the harness cannot choose: the two-plugin call is repeated 48 times per case instead of being enumerated over both orders")
	c.SetRule("A: every node of k cores, per core (capacity, free) with capacity {1,2} cores and free {0,.3,1,2} cores (free <= capacity), share base {100,10} x every multiset of <= 3 resident workloads over {U0 unbound no limits, U1 unbound cpu .5 mem 30, U2 unbound cpu-limit 2, B1 bound to core 0, B2 bound to .3 of the last core}: Plugin.CalculateRemap, Manager.Remap, and Manager.Remap of a manager with cpumem plus a second plugin that answers for every workload (repeated 48 times: the merge order is Go map order); " +
		"B: histories on the same nodes (k <= 2 quick, <= 3 thorough) with two resident unbound workloads allocated through Manager.Alloc: alloc bound r1 -> remap -> alloc bound r2 -> remap -> release one -> remap -> release the other -> remap, r1,r2 in {.5,1,1.2,2}, both release orders, Manager.Remap checked after every step; " +
		"C: the push - real cluster API histories on a 4-core node with two resident unbound workloads, every sequence up to depth 3 (thorough 4) over {create bound 1 / bound .5, remove / dissociate / realloc +cpu / unbind of a bound workload, bind of an unbound one}; after each operation the fake engine's containers of all unbound workloads must carry the share pool derived from the recorded usage, bound workloads the operation did not target must not have been updated; " +
		"oracle: every unbound workload's engine cpu set = {cores with free >= share base} (all cores when empty), bound workloads absent; non-trivial = a remap call with at least one unbound workload (A: distinct by config,node,mix; B: by config,node,r1,r2,order,step)")
	envs := penvCache{}
	defer envs.close()
	if c.Replay != nil {
		var rc c32Case
		if err := jsonUnmarshal(c.Replay, &rc); err != nil {
			c.HarnessError("replay: %v", err)
			return
		}
		if rc.Hist {
			c32History(c, envs.get(rc.Base, -1), &rc)
		} else {
			c32Direct(c, envs.get(rc.Base, -1), &rc)
		}
		return
	}
	maxK, maxKH := 3, 2
	if c.Thorough() {
		maxK, maxKH = 4, 3
	}
	c.Bound("max_cores", maxK)
	c.Bound("max_cores_histories", maxKH)
	mixes := c32Mixes()
	reqs := []float64{0.5, 1, 1.2, 2}
	var idx int64
	for _, base := range []int{100, 10} {
		env := envs.get(base, -1)
		for k := 1; k <= maxK; k++ {
			for _, st := range c32States(k, base) {
				idx++
				if !c.Mine(idx) {
					continue
				}
				for _, mix := range mixes {
					c32Direct(c, env, &c32Case{Base: base, Cap: st[0], Free: st[1], Mix: mix})
				}
				if k <= maxKH {
					for _, r1 := range reqs {
						for _, r2 := range reqs {
							for order := 0; order < 2; order++ {
								c32History(c, env, &c32Case{Base: base, Cap: st[0], Free: st[1], Hist: true, R1: r1, R2: r2, Order: order})
							}
						}
					}
				}
				if c.Expired() {
					c.CapHit(fmt.Sprintf("budget reached at base=%d k=%d", base, k))
					return
				}
			}
		}
	}
}

func parseEP(raw map[string]any) (*cpumemtypes.EngineParams, error) {
	ep := &cpumemtypes.EngineParams{}
	return ep, mapstructure.Decode(raw, ep)
}

// c32Verify applies the oracle to one remap result. bound: id -> is bound (every resident workload).
func c32Verify(c *vcore.Ctx, rc *c32Case, via, step string, result map[string]map[string]any, bound map[string]bool, pool []string) {
	c.Eval()
	viol := func(sig, f string, a ...any) {
		c.Violate("C32/"+sig, fmt.Sprintf("%s %s: ", via, step)+fmt.Sprintf(f, a...)+fmt.Sprintf(" | share pool %v result=%s case=%s", pool, vcore.JSON(result), vcore.JSON(rc)), rc)
	}
	for _, id := range vcore.SortedKeys(bound) {
		raw, present := result[id]
		if bound[id] {
			if present {
				viol("bound-workload-remapped", "workload %s has a CPU binding but appears in the remap result", id)
			}
			continue
		}
		if !present {
			viol("unbound-workload-missing", "workload %s has no CPU binding but gets no engine params", id)
			continue
		}
		ep, err := parseEP(raw)
		if err != nil {
			c.HarnessError("parse engine params: %v", err)
			return
		}
		if got := sortedCores(ep.CPUMap); !sameSet(got, pool) {
			viol("unbound-cpuset-wrong", "workload %s is given cores %v, the cores with a full core's worth of free pieces are %v", id, got, pool)
		}
	}
	for id := range result {
		if _, ok := bound[id]; !ok {
			viol("unknown-workload", "remap result names %s which is not on the node", id)
		}
	}
}

func c32Direct(c *vcore.Ctx, env *world.PluginEnv, rc *c32Case) {
	const node = "n"
	env.SetNodeRaw(node, c32Node(rc.Cap, rc.Free))
	pool := c32Pool(rc.Cap, rc.Free, rc.Base)
	in := map[string]plugintypes.WorkloadResource{}
	bound := map[string]bool{}
	var wls []*coretypes.Workload
	unbound := 0
	for i, kind := range rc.Mix {
		id := fmt.Sprintf("w%d-%s", i, kind)
		raw, b := c32Resource(kind, rc.Base, len(rc.Cap))
		in[id], bound[id] = raw, b
		wls = append(wls, &coretypes.Workload{ID: id, Nodename: node, Resources: resourcetypes.Resources{"cpumem": raw}})
		if !b {
			unbound++
		}
	}
	if unbound > 0 {
		c.Nontrivial(fmt.Sprintf("A/%d/%v/%v/%v", rc.Base, rc.Cap, rc.Free, rc.Mix))
	}
	if len(pool) < len(rc.Cap) {
		c.Outcome("pool-is-strict-subset")
	} else {
		c.Outcome("pool-is-all-cores")
	}
	resp, err := env.Plugin.CalculateRemap(bg, node, in)
	if err != nil {
		c.Eval()
		c.Violate("C32/remap-fails", fmt.Sprintf("CalculateRemap fails: %v | case=%s", err, vcore.JSON(rc)), rc)
		return
	}
	res := map[string]map[string]any{}
	for id, ep := range resp.EngineParamsMap {
		res[id] = ep
	}
	c32Verify(c, rc, "Plugin.CalculateRemap", "direct", res, bound, pool)

	mres, err := env.Mgr.Remap(bg, node, wls)
	if err != nil {
		c.Eval()
		c.Violate("C32/remap-fails", fmt.Sprintf("Manager.Remap fails: %v | case=%s", err, vcore.JSON(rc)), rc)
		return
	}
	res2 := map[string]map[string]any{}
	for id, r := range mres {
		res2[id] = r["cpumem"]
	}
	c32Verify(c, rc, "Manager.Remap", "direct", res2, bound, pool)
	// the same node served by cpumem AND a second plugin that also returns engine params for every
	// workload: the unbound workloads must still get their cores. The manager merges the plugins'
	// answers in Go map order, which the harness does not control: the call is repeated c32MergeReps times
	mgr2, err := cobalt.New(env.Config)
	if err != nil {
		c.HarnessError("cobalt.New: %v", err)
		return
	}
	mgr2.AddPlugins(env.Plugin, &c32Side{c9Plugin{name: "zside"}})
	for rep := 0; rep < c32MergeReps; rep++ {
		mres, err := mgr2.Remap(bg, node, wls)
		if err != nil {
			c.Eval()
			c.Violate("C32/remap-fails", fmt.Sprintf("Manager.Remap with two plugins fails: %v | case=%s", err, vcore.JSON(rc)), rc)
			return
		}
		res3 := map[string]map[string]any{}
		for id, r := range mres {
			if r["cpumem"] != nil {
				res3[id] = r["cpumem"]
			}
		}
		c32Verify(c, rc, "Manager.Remap (cpumem + a second plugin answering for every workload)", "direct", res3, bound, pool)
	}
	if c.WantSample() && unbound > 0 && unbound < len(rc.Mix) && len(pool) < len(rc.Cap) && len(rc.Cap) == 3 {
		c.Sample(map[string]any{"case": rc, "share_pool": pool, "manager_remap": mres})
	}
}

func c32History(c *vcore.Ctx, env *world.PluginEnv, rc *c32Case) {
	const node = "n"
	env.SetNodeRaw(node, c32Node(rc.Cap, rc.Free))
	free := append([]int(nil), rc.Free...)
	type live struct {
		id    string
		res   resourcetypes.Resources
		bound bool
	}
	var ws []*live
	seq := 0
	alloc := func(rq wReq) *live {
		wp, _, err := env.Mgr.Alloc(bg, node, 1, resourcetypes.Resources{"cpumem": rq.raw()})
		if err != nil {
			return nil
		}
		w, err := parseWR(wp[0]["cpumem"])
		if err != nil {
			c.HarnessError("parse: %v", err)
			return nil
		}
		for id, p := range w.CPUMap {
			var ci int
			fmt.Sscan(id, &ci)
			if ci >= 0 && ci < len(free) {
				free[ci] -= p
			}
		}
		seq++
		l := &live{id: fmt.Sprintf("w%d", seq), res: wp[0], bound: len(w.CPUMap) > 0}
		ws = append(ws, l)
		return l
	}
	release := func(l *live) bool {
		if _, _, err := env.Mgr.SetNodeResourceUsage(bg, node, nil, nil, []resourcetypes.Resources{l.res}, true, plugins.Decr); err != nil {
			return false
		}
		w, _ := parseWR(l.res["cpumem"])
		for id, p := range w.CPUMap {
			var ci int
			fmt.Sscan(id, &ci)
			if ci >= 0 && ci < len(free) {
				free[ci] += p
			}
		}
		for i, x := range ws {
			if x == l {
				ws = append(ws[:i:i], ws[i+1:]...)
				break
			}
		}
		return true
	}
	var trace []string
	remap := func(step string) {
		trace = append(trace, step)
		// the oracle's view of free pieces must agree with the node record (usage accounting is C04's subject)
		if rec, ok := env.GetNodeRaw(node); ok {
			for i := range free {
				if rec.Capacity.CPUMap[fmt.Sprint(i)]-rec.Usage.CPUMap[fmt.Sprint(i)] != free[i] {
					c.Outcome("history/node-record-differs-from-model (skipped)")
					return
				}
			}
		}
		var wls []*coretypes.Workload
		bound := map[string]bool{}
		for _, l := range ws {
			wls = append(wls, &coretypes.Workload{ID: l.id, Nodename: node, Resources: l.res})
			bound[l.id] = l.bound
		}
		mres, err := env.Mgr.Remap(bg, node, wls)
		if err != nil {
			c.Eval()
			c.Violate("C32/remap-fails", fmt.Sprintf("Manager.Remap fails after %v: %v | case=%s", trace, err, vcore.JSON(rc)), rc)
			return
		}
		res := map[string]map[string]any{}
		for id, r := range mres {
			res[id] = r["cpumem"]
		}
		pool := c32Pool(rc.Cap, free, rc.Base)
		c.Nontrivial(fmt.Sprintf("B/%d/%v/%v/%v/%v/%d/%d", rc.Base, rc.Cap, rc.Free, rc.R1, rc.R2, rc.Order, len(trace)))
		c.Outcome(fmt.Sprintf("history/pool-size-%d-of-%d", len(pool), len(rc.Cap)))
		c32Verify(c, rc, "Manager.Remap", fmt.Sprintf("history %v free=%v", trace, free), res, bound, pool)
		if c.WantSample() && len(trace) == 3 && len(pool) < len(rc.Cap) && len(rc.Cap) == 2 && rc.R1 == 1.2 {
			c.Sample(map[string]any{"case": rc, "trace": trace, "free": append([]int(nil), free...), "share_pool": pool, "manager_remap": mres})
		}
	}
	// two resident unbound workloads, allocated as calcium does
	if alloc(wReq{CPU: 0.5, CPULimit: 0.5, Mem: 10, MemLimit: 10}) == nil || alloc(wReq{}) == nil {
		c.Outcome("history/unbound-not-allocatable")
		return
	}
	remap("start")
	b1 := alloc(wReq{Bind: true, CPU: rc.R1, CPULimit: rc.R1, Mem: 10})
	if b1 == nil {
		c.Outcome("history/first-bound-refused")
		return
	}
	remap(fmt.Sprintf("alloc bound %v", rc.R1))
	b2 := alloc(wReq{Bind: true, CPU: rc.R2, CPULimit: rc.R2, Mem: 10})
	if b2 != nil {
		remap(fmt.Sprintf("alloc bound %v", rc.R2))
	} else {
		c.Outcome("history/second-bound-refused")
	}
	first, second := b1, b2
	if rc.Order == 1 && b2 != nil {
		first, second = b2, b1
	}
	if release(first) {
		remap("release " + first.id)
	}
	if second != nil && release(second) {
		remap("release " + second.id)
	}
}
