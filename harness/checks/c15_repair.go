package checks

import (
	"context"
	"encoding/json"
	"fmt"
	"os"
	"sort"
	"strings"
	"testing"

	cpumemtypes "github.com/projecteru2/core/resource/plugins/cpumem/types"

	"verif/harness/vcore"
	"verif/harness/world"
)

// C15: resource repair restores consistent usage.
//
// world    = initialCluster (pod p; n1: 2 cores / 200 memory; n2: 4 cores in 2 NUMA nodes / 400 memory)
// workload = every history of 0..3 creates from {memory-only on n1, bound 1.0 on n1, bound 0.5 on n2,
//            bound 1.0 on n2 (NUMA-bound)} executed through the real API; the reached states are
//            de-duplicated modulo core / NUMA-node symmetry (c15SymKey). The recorded workloads fit by construction
//            (the real allocator placed them on a consistent node) and this is re-checked.
// drift    = one edit of the *usage* half of the plugin's node record, written straight into the
//            KV (drift is by definition not validated): see c15Drifts.
// call     = real Calcium.NodeResource(node, fix=true) then NodeResource(node, fix=false), on a fresh
//            core instance in a virtual-time bubble.
// oracle   = (1) the repair call succeeds; (2) afterwards the stored usage equals the sum over the
//            recorded workloads (View.CompareUsage, an independent recomputation); (3) the second
//            call succeeds and reports no resource differences.

func init() {
	register(Meta{ID: "C15", Level: "exploration", ShardsQuick: 8, BudgetQuick: 110, BudgetThor: 900, GoMaxProcs: 2}, checkC15)
}

type c15Drift struct {
	Class string  `json:"class"`
	Core  string  `json:"core,omitempty"`
	NUMA  string  `json:"numa,omitempty"`
	Delta int64   `json:"delta,omitempty"`
	FD    float64 `json:"cpu_delta,omitempty"`
}

type c15Case struct {
	Hist  []wOp    `json:"history"`
	Node  string   `json:"node"`
	Drift c15Drift `json:"drift"`
}

func c15WorkloadAlphabet() []wOp {
	return []wOp{
		{Kind: "create", Strategy: "AUTO", Count: 1, Req: "mem", Include: []string{"n1"}},
		{Kind: "create", Strategy: "AUTO", Count: 1, Req: "bind1", Include: []string{"n1"}},
		{Kind: "create", Strategy: "AUTO", Count: 1, Req: "bindhalf", Include: []string{"n2"}},
		{Kind: "create", Strategy: "AUTO", Count: 1, Req: "bind1", Include: []string{"n2"}},
		// a workload on the NUMA node that holds no NUMA memory: the sum over the workloads then has no NUMA part at all
		{Kind: "create", Strategy: "AUTO", Count: 1, Req: "mem", Include: []string{"n2"}},
	}
}

// c15Drifts lists the drift alphabet for a node, given its cores and NUMA nodes (in the
// canonical order of c15SymNode). Only usage is edited, and only on cores / NUMA nodes the node has.
func c15Drifts(cores, numas []string) []c15Drift {
	ds := []c15Drift{{Class: "no-drift"}}
	for _, c := range cores {
		for _, d := range []int64{30, 100} {
			ds = append(ds, c15Drift{Class: "core-usage-extra", Core: c, Delta: d})
			ds = append(ds, c15Drift{Class: "core-usage-missing", Core: c, Delta: -d})
		}
		ds = append(ds, c15Drift{Class: "core-key-missing", Core: c})
		ds = append(ds, c15Drift{Class: "negative-core-usage", Core: c, Delta: -10})
	}
	ds = append(ds, c15Drift{Class: "memory-extra", Delta: 30}, c15Drift{Class: "memory-missing", Delta: -30}, c15Drift{Class: "negative-memory", Delta: -10})
	for _, n := range numas {
		ds = append(ds, c15Drift{Class: "numa-memory-extra", NUMA: n, Delta: 30}, c15Drift{Class: "numa-memory-missing", NUMA: n, Delta: -30},
			c15Drift{Class: "negative-numa-memory", NUMA: n, Delta: -10})
	}
	if len(numas) > 0 {
		ds = append(ds, c15Drift{Class: "numa-usage-map-missing"})
	}
	ds = append(ds, c15Drift{Class: "cpu-float-extra", FD: 0.5}, c15Drift{Class: "cpu-float-missing", FD: -0.5}, c15Drift{Class: "negative-cpu-float", FD: -1})
	ds = append(ds, c15Drift{Class: "all-usage-zero"}, c15Drift{Class: "all-fields-extra", Delta: 30, FD: 0.5})
	return ds
}

// c15Apply edits the usage of a record. The capacity is never touched.
func c15Apply(info *cpumemtypes.NodeResourceInfo, d c15Drift) {
	u := info.Usage
	if u.CPUMap == nil {
		u.CPUMap = cpumemtypes.CPUMap{}
	}
	switch d.Class {
	case "no-drift":
	case "core-usage-extra", "core-usage-missing":
		u.CPUMap[d.Core] += int(d.Delta)
	case "core-key-missing":
		delete(u.CPUMap, d.Core)
	case "negative-core-usage":
		u.CPUMap[d.Core] = int(d.Delta)
	case "memory-extra", "memory-missing":
		u.Memory += d.Delta
	case "negative-memory":
		u.Memory = d.Delta
	case "numa-memory-extra", "numa-memory-missing":
		if u.NUMAMemory == nil {
			u.NUMAMemory = cpumemtypes.NUMAMemory{}
		}
		u.NUMAMemory[d.NUMA] += d.Delta
	case "negative-numa-memory":
		if u.NUMAMemory == nil {
			u.NUMAMemory = cpumemtypes.NUMAMemory{}
		}
		u.NUMAMemory[d.NUMA] = d.Delta
	case "numa-usage-map-missing":
		u.NUMAMemory = nil
	case "cpu-float-extra", "cpu-float-missing":
		u.CPU += d.FD
	case "negative-cpu-float":
		u.CPU = d.FD
	case "all-usage-zero":
		u.CPU, u.Memory = 0, 0
		for c := range u.CPUMap {
			u.CPUMap[c] = 0
		}
		for n := range u.NUMAMemory {
			u.NUMAMemory[n] = 0
		}
	case "all-fields-extra":
		u.CPU += d.FD
		u.Memory += d.Delta
		for c := range info.Capacity.CPUMap {
			u.CPUMap[c] += int(d.Delta)
		}
		for n := range info.Capacity.NUMAMemory {
			if u.NUMAMemory == nil {
				u.NUMAMemory = cpumemtypes.NUMAMemory{}
			}
			u.NUMAMemory[n] += d.Delta
		}
	default:
		panic("unknown drift class " + d.Class)
	}
}

type c15State struct {
	hist []wOp
	snap *world.Snap
	view *world.View
	key  string
}

// c15Fits re-checks the property's precondition on a state: the recorded workloads of the node
// fit within its capacity.
func c15Fits(v *world.View, node string) error {
	info := v.NodeRes[node]
	if info == nil {
		return fmt.Errorf("no record for %s", node)
	}
	sum := v.UsageFromWorkloads(node)
	if sum.Memory > info.Capacity.Memory {
		return fmt.Errorf("%s: memory of workloads %d > capacity %d", node, sum.Memory, info.Capacity.Memory)
	}
	for c, p := range sum.CPUMap {
		if cp, ok := info.Capacity.CPUMap[c]; !ok || p > cp {
			return fmt.Errorf("%s: core %s workloads %d > capacity %d", node, c, p, cp)
		}
	}
	for n, m := range sum.NUMAMemory {
		if cm, ok := info.Capacity.NUMAMemory[n]; !ok || m > cm {
			return fmt.Errorf("%s: numa %s workloads %d > capacity %d", node, n, m, cm)
		}
	}
	return nil
}

// c15SymKey is the canonical form of a state modulo the symmetries of the cluster: cores of
// one NUMA node (of one node without NUMA) are interchangeable and so are the NUMA nodes of n2.
// The drift alphabet is closed under these symmetries (every core and every NUMA node is
// drifted), so one representative per class covers the class. Which representative the
// allocator produces depends on Go map iteration order; the class does not.
func c15SymKey(v *world.View) string {
	var parts []string
	nodes := make([]string, 0, len(v.NodeRes))
	for n := range v.NodeRes {
		nodes = append(nodes, n)
	}
	sort.Strings(nodes)
	for _, n := range nodes {
		k, _, _ := c15SymNode(v, n)
		parts = append(parts, k)
	}
	return strings.Join(parts, "\n")
}

// c15SymNode returns the symmetric canonical form of one node together with its cores and
// NUMA nodes in canonical order (ordered by their descriptions, then by name): position r of
// that order denotes equivalent cores in every representative of a symmetry class, which is
// what lets shards that hold different representatives partition the drifts consistently.
func c15SymNode(v *world.View, n string) (key string, coresInOrder []string, numasInOrder []string) {
	info := v.NodeRes[n]
	perCore := map[string][]string{}
	var unbound []string
	for _, w := range v.Workloads {
		if w.Node != n || w.Res == nil {
			continue
		}
		if len(w.Res.CPUMap) == 0 {
			unbound = append(unbound, fmt.Sprintf("cpu%.2f/mem%d", w.Res.CPURequest, w.Res.MemoryRequest))
			continue
		}
		cs := make([]string, 0, len(w.Res.CPUMap))
		for c := range w.Res.CPUMap {
			cs = append(cs, c)
		}
		sort.Strings(cs)
		numaMem := int64(0)
		for _, m := range w.Res.NUMAMemory {
			numaMem += m
		}
		// every workload of the alphabet touches exactly one core
		perCore[cs[0]] = append(perCore[cs[0]], fmt.Sprintf("pieces%v/cores%d/mem%d/numamem%d", w.Res.CPUMap[cs[0]], len(cs), w.Res.MemoryRequest, numaMem))
	}
	sort.Strings(unbound)
	type coreD struct{ name, desc string }
	type groupD struct {
		name, desc string
		cores      []coreD
	}
	groups := map[string]*groupD{}
	for c := range info.Capacity.CPUMap {
		g := info.Capacity.NUMA[c]
		ws := perCore[c]
		sort.Strings(ws)
		if groups[g] == nil {
			groups[g] = &groupD{name: g}
		}
		groups[g].cores = append(groups[g].cores, coreD{c, fmt.Sprintf("core(cap%d,used%d)[%s]", info.Capacity.CPUMap[c], info.Usage.CPUMap[c], strings.Join(ws, ","))})
	}
	var gl []*groupD
	for g, gd := range groups {
		sort.Slice(gd.cores, func(i, j int) bool {
			if gd.cores[i].desc != gd.cores[j].desc {
				return gd.cores[i].desc < gd.cores[j].desc
			}
			return gd.cores[i].name < gd.cores[j].name
		})
		ds := make([]string, len(gd.cores))
		for i, c := range gd.cores {
			ds[i] = c.desc
		}
		gd.desc = fmt.Sprintf("group(numacap%d,numaused%d){%s}", info.Capacity.NUMAMemory[g], info.Usage.NUMAMemory[g], strings.Join(ds, " "))
		gl = append(gl, gd)
	}
	sort.Slice(gl, func(i, j int) bool {
		if gl[i].desc != gl[j].desc {
			return gl[i].desc < gl[j].desc
		}
		return gl[i].name < gl[j].name
	})
	var gs []string
	for _, gd := range gl {
		gs = append(gs, gd.desc)
		if _, ok := info.Capacity.NUMAMemory[gd.name]; ok {
			numasInOrder = append(numasInOrder, gd.name)
		}
		for _, c := range gd.cores {
			coresInOrder = append(coresInOrder, c.name)
		}
	}
	key = fmt.Sprintf("%s: mem %d/%d cpu %.2f unbound[%s] %s", n, info.Usage.Memory, info.Capacity.Memory, info.Usage.CPU, strings.Join(unbound, ","), strings.Join(gs, " "))
	return key, coresInOrder, numasInOrder
}

// c15Build executes every history of 0..maxLen creates and returns the distinct reached states
// (distinct modulo c15SymKey), ordered by (history length, key). The allocator's choice among
// equally good cores follows Go map iteration order, which the harness does not own; should a
// choice ever lead outside the symmetry class, it is caught by repeating every (state, create)
// until `quiet` consecutive repetitions produced no new successor class (at most maxRep times)
// and keeping the union of the successors.
func c15Build(t *testing.T, c *vcore.Ctx, b *world.Backend, snap0 *world.Snap, maxLen, quiet, maxRep int) ([]*c15State, int, error) {
	b.Restore(snap0)
	root := &c15State{snap: snap0, view: b.View(false)}
	root.key = c15SymKey(root.view)
	seen := map[string]bool{root.key: true}
	all := []*c15State{root}
	frontier := []*c15State{root}
	execs := 0
	alpha := c15WorkloadAlphabet()
	for l := 0; l < maxLen; l++ {
		var next []*c15State
		for _, s := range frontier {
			for _, op := range alpha {
				local := map[string]bool{}
				for rep, idle := 0, 0; rep < maxRep && idle < quiet; rep++ {
					execs++
					b.Restore(s.snap)
					var res wResult
					tr := wexec(t, b, world.InstanceOpts{}, nil, 7, func(ctx context.Context, inst *world.Instance) { res = runOp(ctx, inst, op, s.view) }, nil)
					if tr.Deadlock != "" {
						return nil, 0, fmt.Errorf("building %v + %s: %s", s.hist, op, firstLine(tr.Deadlock))
					}
					v := b.View(false)
					key := c15SymKey(v)
					if local[key] {
						idle++
						continue
					}
					idle = 0
					local[key] = true
					if c.Shard == 0 {
						c.Outcome("build:" + op.Req + "@" + op.Include[0] + ":" + res.summary())
					}
					// the future of a history depends only on the state it reached (a refused create
					// leaves the state unchanged), so de-duplicating by canonical form loses no workload set
					if !seen[key] {
						seen[key] = true
						ns := &c15State{hist: append(append([]wOp{}, s.hist...), op), snap: b.Save(), view: v, key: key}
						all = append(all, ns)
						next = append(next, ns)
					}
				}
			}
		}
		frontier = next
	}
	sort.SliceStable(all, func(i, j int) bool {
		if len(all[i].hist) != len(all[j].hist) {
			return len(all[i].hist) < len(all[j].hist)
		}
		return all[i].key < all[j].key
	})
	return all, execs, nil
}

type c15Obs struct {
	Err1, Err2   string
	Diffs1       []string
	Diffs2       []string
	Post         *world.View
	Ran1, Ran2   bool
	UsageBefore  string
	UsageDrifted string
	UsageAfter   string
}

func c15ResourceDiffs(ds []string) []string {
	var out []string
	for _, d := range ds {
		if strings.Contains(d, "inspect failed") { // about containers, not usage
			continue
		}
		out = append(out, strings.TrimSpace(d))
	}
	return out
}

// c15Run restores the state, writes the drift and runs repair + re-check.
func c15Run(t *testing.T, b *world.Backend, s *c15State, node string, d c15Drift) (c15Obs, execTrace, error) {
	var o c15Obs
	b.Restore(s.snap)
	raw, ok := b.Etcd.Get(world.NodeKey(node))
	if !ok {
		return o, execTrace{}, fmt.Errorf("no record for %s", node)
	}
	info := &cpumemtypes.NodeResourceInfo{}
	if err := json.Unmarshal([]byte(raw), info); err != nil || info.Usage == nil || info.Capacity == nil {
		return o, execTrace{}, fmt.Errorf("record of %s unreadable: %v", node, err)
	}
	o.UsageBefore = vcore.JSON(info.Usage)
	capBefore := vcore.JSON(info.Capacity)
	c15Apply(info, d)
	if vcore.JSON(info.Capacity) != capBefore {
		return o, execTrace{}, fmt.Errorf("drift %v touched the capacity", d)
	}
	o.UsageDrifted = vcore.JSON(info.Usage)
	nb, _ := json.Marshal(info)
	b.Etcd.PutRaw(world.NodeKey(node), string(nb))

	tr := wexec(t, b, world.InstanceOpts{}, nil, 7, func(ctx context.Context, inst *world.Instance) {
		nr, err := inst.Cal.NodeResource(ctx, node, true)
		o.Ran1 = true
		o.Err1 = errStr(err)
		if nr != nil {
			o.Diffs1 = c15ResourceDiffs(nr.Diffs)
		}
		o.Post = b.View(false)
		nr2, err2 := inst.Cal.NodeResource(ctx, node, false)
		o.Ran2 = true
		o.Err2 = errStr(err2)
		if nr2 != nil {
			o.Diffs2 = c15ResourceDiffs(nr2.Diffs)
		}
	}, nil)
	if o.Post != nil && o.Post.NodeRes[node] != nil {
		o.UsageAfter = vcore.JSON(o.Post.NodeRes[node].Usage)
	}
	return o, tr, nil
}

func c15Oracle(c *vcore.Ctx, cs *c15Case, o c15Obs, tr execTrace) string {
	viol := func(sig, f string, a ...any) string {
		c.Violate("C15/"+cs.Drift.Class+"/"+sig, fmt.Sprintf(f, a...)+fmt.Sprintf(" | usage before drift=%s drifted=%s after repair=%s first-call diffs=%v | case=%s", o.UsageBefore, o.UsageDrifted, o.UsageAfter, o.Diffs1, vcore.JSON(cs)), cs)
		return sig
	}
	if tr.Deadlock != "" || !o.Ran1 {
		return viol("repair-stuck", "the repair call did not run to completion: %s", firstLine(tr.Deadlock+tr.Panic))
	}
	if o.Err1 != "" {
		return viol("repair-fails", "NodeResource(%s, fix=true) failed: %s", cs.Node, o.Err1)
	}
	if d := o.Post.CompareUsage(cs.Node); len(d) > 0 {
		return viol("usage-not-restored", "after the repair the stored usage of %s differs from the sum of its workloads: %s", cs.Node, strings.Join(d, "; "))
	}
	if o.Err2 != "" {
		return viol("recheck-fails", "NodeResource(%s, fix=false) after the repair failed: %s", cs.Node, o.Err2)
	}
	if len(o.Diffs2) > 0 {
		return viol("differences-still-reported", "the check after the repair still reports: %s", strings.Join(o.Diffs2, "; "))
	}
	return "ok"
}

func checkC15(t *testing.T, c *vcore.Ctx) {
	dir := os.Getenv("VERIF_TMP")
	if dir == "" {
		dir = t.TempDir()
	}
	b := world.NewBackend(dir, false)
	defer b.Close()
	snap0, err := initialCluster(t, b)
	if err != nil {
		c.HarnessError("initial cluster: %v", err)
		return
	}
	c.SetRule("every (workload set, node, drift): workload sets = all histories of 0..3 real create calls from {memory-only on n1, bound 1.0 on n1, bound 0.5 on n2, bound 1.0 on n2 (NUMA), memory-only on n2} on the cluster n1 (2 cores/200 memory), n2 (4 cores in 2 NUMA nodes/400 memory), de-duplicated modulo the symmetries of the cluster (cores of one NUMA group and the two NUMA nodes of n2 are interchangeable; the drift alphabet is closed under them); the allocator's choices follow Go map order, so every (state, create) is repeated until 12 (thorough: 20) consecutive repetitions yield no new successor class and the union is kept; " +
		"drift = one direct edit of the usage half of the plugin's record of the node: per core +30/+100/-30/-100, core key missing, core negative; memory +30/-30/negative; per NUMA node memory +30/-30/negative, NUMA usage map missing; CPU float +0.5/-0.5/negative; all usage zeroed; every field increased; no drift; " +
		"then real NodeResource(fix=true) and NodeResource(fix=false) on a fresh core instance in a virtual-time bubble. non-trivial = distinct (state, node, drift) whose drifted record really differs from the sum of the recorded workloads")
	c.Assume("etcd is the in-memory model memetcd; engines are the stateful fakev engines; 'inspect failed' lines of the check are about containers and are ignored")
	c.Assume("precondition as stated by the property: the recorded workloads fit within the node's capacity (re-checked for every state); drifts never edit the capacity and never mention cores or NUMA nodes the node does not have")

	if c.Replay != nil {
		var cs c15Case
		if err := json.Unmarshal(c.Replay, &cs); err != nil {
			c.HarnessError("replay: %v", err)
			return
		}
		s := &c15State{snap: snap0}
		b.Restore(snap0)
		s.view = b.View(false)
		for _, op := range cs.Hist {
			b.Restore(s.snap)
			pre := s.view
			tr := wexec(t, b, world.InstanceOpts{}, nil, 7, func(ctx context.Context, inst *world.Instance) { runOp(ctx, inst, op, pre) }, nil)
			if tr.Deadlock != "" {
				c.HarnessError("replay build: %s", firstLine(tr.Deadlock))
				return
			}
			s = &c15State{hist: append(s.hist, op), snap: b.Save(), view: b.View(false)}
		}
		o, tr, err := c15Run(t, b, s, cs.Node, cs.Drift)
		if err != nil {
			c.HarnessError("replay: %v", err)
			return
		}
		c.Eval()
		res := c15Oracle(c, &cs, o, tr)
		c.Note("replay %s => %s; usage before=%s drifted=%s after=%s diffs1=%v diffs2=%v", vcore.JSON(cs), res, o.UsageBefore, o.UsageDrifted, o.UsageAfter, o.Diffs1, o.Diffs2)
		c.Nontrivial("replay")
		c.Nontrivial("replay2")
		c.Sample(cs)
		return
	}

	maxLen, quiet, maxRep := 3, 12, 48
	if c.Thorough() {
		maxLen, quiet, maxRep = 4, 20, 80
	}
	c.Bound("max_history_length", maxLen)
	c.Bound("repetitions_without_new_successor_before_stopping", quiet)
	states, histories, err := c15Build(t, c, b, snap0, maxLen, quiet, maxRep)
	if err != nil {
		c.HarnessError("%v", err)
		return
	}
	c.Bound("create_executions_while_building", histories)
	numaBound := 0
	for _, s := range states {
		for _, w := range s.view.Workloads {
			if w.Res != nil && len(w.Res.NUMAMemory) > 0 {
				numaBound++
				break
			}
		}
	}
	c.Bound("states_with_numa_bound_workload", numaBound)
	c.Bound("distinct_workload_states", len(states))
	nodes := []string{"n1", "n2"}
	var idx int64
	total := 0
	for _, s := range states {
		for _, n := range nodes {
			if err := c15Fits(s.view, n); err != nil {
				c.HarnessError("precondition not met in a built state %v: %v", s.hist, err)
				return
			}
			if d := s.view.CompareUsage(n); len(d) > 0 {
				c.HarnessError("built state %v is not consistent before drifting: %v", s.hist, d)
				return
			}
			_, coresInOrder, numasInOrder := c15SymNode(s.view, n)
			rank := map[string]string{}
			for r, x := range coresInOrder {
				rank["c"+x] = fmt.Sprint(r)
			}
			for r, x := range numasInOrder {
				rank["n"+x] = fmt.Sprint(r)
			}
			for _, d := range c15Drifts(coresInOrder, numasInOrder) {
				i := idx
				idx++
				total++
				// partition by content, not by position: shards whose builds disagree (see c15Build)
				// still never evaluate a case twice
				// (cores and NUMA nodes are named by canonical rank for this purpose)
				caseKey := s.key + "|" + n + "|" + fmt.Sprintf("%s/core#%s/numa#%s/%d/%.1f", d.Class, rank["c"+d.Core], rank["n"+d.NUMA], d.Delta, d.FD)
				if int(hashKey(caseKey)%uint64(max(c.NShards, 1))) != c.Shard {
					continue
				}
				if c.Expired() {
					c.CapHit("budget reached")
					return
				}
				cs := &c15Case{Hist: s.hist, Node: n, Drift: d}
				o, tr, err := c15Run(t, b, s, n, d)
				if err != nil {
					c.HarnessError("%v", err)
					return
				}
				c.Eval()
				res := c15Oracle(c, cs, o, tr)
				drifted := o.UsageDrifted != o.UsageBefore
				if drifted {
					// non-trivial: the record written really disagrees with the workloads (judged
					// independently), so a repair is needed
					b.Restore(s.snap)
					nb := s.view.NodeRes[n]
					cp := &cpumemtypes.NodeResourceInfo{}
					_ = json.Unmarshal([]byte(vcore.JSON(nb)), cp)
					c15Apply(cp, d)
					pv := *s.view
					pv.NodeRes = map[string]*cpumemtypes.NodeResourceInfo{n: cp}
					if len(pv.CompareUsage(n)) > 0 {
						c.Nontrivial(caseKey)
						c.Outcome(d.Class + ":" + res + ":repaired=" + fmt.Sprint(o.UsageAfter != o.UsageDrifted))
					} else {
						c.Outcome(d.Class + ":" + res + ":drift-invisible")
					}
				} else {
					c.Outcome(d.Class + ":" + res + ":no-op-drift")
				}
				if c.WantSample() && drifted && len(s.hist) >= 2 && (i%7 == 0) {
					c.Sample(map[string]any{"case": cs, "usage_before": o.UsageBefore, "usage_drifted": o.UsageDrifted, "usage_after_repair": o.UsageAfter, "first_call_diffs": len(o.Diffs1), "second_call_diffs": len(o.Diffs2), "verdict": res})
				}
			}
		}
	}
	c.Bound("cases_total", total)
}
