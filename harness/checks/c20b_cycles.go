package checks

import (
	"context"
	"fmt"
	"os"
	"strings"
	"testing"
	"time"

	"verif/harness/vcore"
	"verif/harness/world"
)

// C20, second part: the consequence the statement draws - "no combination of concurrent
// operations can deadlock on locks" - checked directly. The per-goroutine monitor of part one
// cannot see a lock taken by a helper goroutine that the holder of another lock is waiting
// for. Here two operations on the SAME workload run as threads under the schedule explorer;
// nothing in them sleeps, so an execution consumes virtual time only when every goroutine is
// blocked - which, with two operations, means each is waiting for a lock the other holds,
// until the lock wait times out (30 s). Oracle: both operations return before one lock
// timeout of virtual time has passed. One operation of some pairs has its removal of the old
// workload failing, so that the error paths take their locks too.

type c20cCase struct {
	Threads  []c10cOp `json:"threads"`
	FailT1   string   `json:"t1_failing_step,omitempty"` // label prefix of the step of T1 that fails on the targeted workload
	Bound    int      `json:"preemption_bound"`
	Choices  []int    `json:"choices,omitempty"`
}

const c20LockTimeout = 30 * time.Second

func c20cScenario(cc *c20cCase, snap *world.Snap, pre *world.View) *schedScenario {
	sc := &schedScenario{Name: "lock-cycles", Snap: snap, Opts: world.InstanceOpts{NoWAL: true}, Horizon: 10 * time.Minute, Quantum: time.Second}
	targetID := ""
	for i, th := range cc.Threads {
		name := fmt.Sprintf("T%d", i+1)
		op := th.Op
		if th.Sel != nil {
			op.W = c10cIndex(pre, th.Sel)
			if ws := sortedWorkloads(pre); i == 0 && op.W >= 0 && op.W < len(ws) {
				targetID = ws[op.W].ID
			}
		}
		sc.Threads = append(sc.Threads, schedThread{Name: name, Run: func(ctx context.Context, x *schedRun) {
			r := runOp(ctx, x.Inst(name), op, pre)
			x.mu.Lock()
			x.Data["res:"+name] = r.summary()
			x.Data["end:"+name] = x.Now()
			x.mu.Unlock()
		}})
	}
	if cc.FailT1 != "" {
		sc.FailStep = func(thread string, s world.Step, label string) bool {
			return thread == "T1" && strings.HasPrefix(label, cc.FailT1) && targetID != "" && strings.Contains(s.Key, targetID)
		}
	}
	return sc
}

func c20Cycles(t *testing.T, c *vcore.Ctx, replay *c20cCase) {
	dir := os.Getenv("VERIF_TMP")
	if dir == "" {
		dir = t.TempDir()
	}
	b := world.NewBackend(dir, false)
	defer b.Close()
	snap0, err := initialCluster(t, b)
	if err != nil {
		c.HarnessError("cycle part: %v", err)
		return
	}
	snap, err := c10cSetup(t, b, snap0)
	if err != nil {
		c.HarnessError("cycle part: %v", err)
		return
	}
	b.Restore(snap)
	pre := b.View(false)
	if replay != nil {
		x := runSchedule(t, b, c20cScenario(replay, snap, pre), replay.Choices)
		c.Eval()
		c20cCheck(c, replay, x, replay.Choices)
		return
	}
	a, m := &c10cSel{"n1", "bind1"}, &c10cSel{"n1", "mem"}
	mk := func(kind, delta string, sel *c10cSel) c10cOp { return c10cOp{Op: wOp{Kind: kind, Delta: delta}, Sel: sel} }
	bound := 1
	if c.Thorough() {
		bound = 2
	}
	cases := []c20cCase{
		{Threads: []c10cOp{mk("replace", "", a), mk("remove", "", a)}, FailT1: "engine.remove("},
		{Threads: []c10cOp{mk("replace", "", m), mk("dissociate", "", m)}, FailT1: "engine.remove("},
		{Threads: []c10cOp{mk("replace", "", a), mk("realloc", "+mem", a)}, FailT1: "engine.remove("},
		{Threads: []c10cOp{mk("replace", "", a), mk("remove", "", a)}},
		{Threads: []c10cOp{mk("realloc", "+mem", a), mk("remove", "", a)}},
		{Threads: []c10cOp{mk("dissociate", "", a), mk("replace", "", a)}},
		{Threads: []c10cOp{mk("remove", "", a), mk("remove", "", a)}},
	}
	c.Bound("cycle_part_scenarios", len(cases))
	c.Bound("cycle_part_preemption_bound_completed", bound)
	for i := range cases {
		// every shard runs every scenario: exploreSchedules divides the subtrees below the root execution itself
		cc := cases[i]
		cc.Bound = bound
		if c.Expired() {
			c.CapHit("budget reached in the cycle part")
			return
		}
		st := exploreSchedules(t, c, b, c20cScenario(&cc, snap, pre), bound, func(x *schedRun, choices []int) { c20cCheck(c, &cc, x, choices) })
		if !st.Complete {
			c.CapHit("budget reached inside a cycle scenario")
		}
		if st.Diverged > 0 {
			c.Note("cycle part %s: %d replays diverged", vcore.JSON(cc.Threads), st.Diverged)
		}
		c.AddStates(int64(st.Executions))
	}
}

func c20cCheck(c *vcore.Ctx, cc *c20cCase, x *schedRun, choices []int) {
	rc := *cc
	rc.Choices = choices
	var names []string
	for _, th := range cc.Threads {
		names = append(names, th.Op.Kind)
	}
	pair := strings.Join(names, "||")
	if cc.FailT1 != "" {
		pair += "/old-removal-fails"
	}
	wc := &c20Case{Cycle: &rc}
	results := c22Results(x, len(cc.Threads)) // takes x.mu itself: before the lock below
	viol := func(sig, f string, a ...any) {
		c.Violate("C20/cycle/"+pair+"/"+sig, fmt.Sprintf(f, a...)+" | threads="+vcore.JSON(cc.Threads)+" results="+results+" schedule="+renderSchedule(x), wc)
	}
	if x.Stuck != "" {
		viol("operation-never-returns", "%s", firstLine(x.Stuck))
		return
	}
	ends := map[string]time.Duration{}
	x.mu.Lock()
	for i := range cc.Threads {
		name := fmt.Sprintf("T%d", i+1)
		ends[name], _ = x.Data["end:"+name].(time.Duration)
	}
	x.mu.Unlock()
	c.Outcome("cycle " + pair + ": " + results)
	for i := range cc.Threads {
		name := fmt.Sprintf("T%d", i+1)
		end := ends[name]
		if end >= c20LockTimeout {
			viol("lock-wait-cycle", "%s returned only after %v of virtual time although nothing in either operation sleeps: each was waiting for a lock the other held until a lock wait timed out (%v)", name, end, c20LockTimeout)
			break
		}
	}
	npre := 0
	for _, d := range x.Decisions {
		if d.Choice < len(d.Preempt) && d.Preempt[d.Choice] {
			npre++
		}
	}
	if npre > 0 {
		c.Nontrivial("cycle|" + vcore.JSON(rc))
	}
}
