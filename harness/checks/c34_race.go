package checks

import (
	"context"
	"encoding/json"
	"fmt"
	"net"
	"os"
	"os/exec"
	"path/filepath"
	"regexp"
	"runtime"
	"sort"
	"strings"
	"sync"
	"sync/atomic"
	"testing"
	"time"

	"github.com/rs/zerolog"
	"google.golang.org/grpc"
	"google.golang.org/grpc/credentials/insecure"
	"google.golang.org/grpc/test/bufconn"

	resourcetypes "github.com/projecteru2/core/resource/types"
	corerpc "github.com/projecteru2/core/rpc"
	pb "github.com/projecteru2/core/rpc/gen"
	coretypes "github.com/projecteru2/core/types"

	"verif/harness/vcore"
	"verif/harness/world"
)

// C34: concurrent API use is free of data races (engine E5, the FREE-RUNNING companion pass of
// the model-checking family: the cooperative scheduler's hand-offs are happens-before edges
// and hide races from the detector, so these scenarios run on the ordinary Go scheduler in a
// -race build, outside any bubble and without the parking interceptor).
//
// scenario  = unordered pair (with repetition) of operation kinds, run as two goroutines
//             released together on ONE real core instance over the world backend
// kinds     = create (EACH x2 on 2 nodes, one instance failing by an injected engine fault),
//             create2f (same, both instances of one node failing), remove / dissociate of one
//             workload on each of 3 nodes (n1, n2 in pod p; n3 alone in pod q), realloc, control stop+start, send, set+get status,
//             rpc (two concurrent unary calls on a real grpc server over bufconn, rpc.Vibranium)
// schedule  = whatever the runtime does, R repetitions x GOMAXPROCS in {2,16}: a SAMPLE
// observer  = the Go race detector; the worker re-executes itself once per scenario with
//             GORACE=log_path=... (read at process start) and parses the report files
// counts    = a report whose two access stacks are attributed (innermost frame that is neither
//             runtime/std-lib/third-party) to github.com/projecteru2/core, not to mocks and
//             not to the harness; signature = unordered pair of file:function[accessed thing] locations
//             (no line numbers, so it is stable under unrelated edits)

func init() {
	register(Meta{ID: "C34", Level: "exploration", Race: true, ShardsQuick: 15, ShardsThor: 15, BudgetQuick: 140, BudgetThor: 1100}, checkC34)
	// child dispatch: the worker binary re-executed with VERIF_C34_CHILD runs one scenario and
	// exits before the test main starts (no *testing.T is needed: nothing runs in a bubble)
	if p := os.Getenv("VERIF_C34_CHILD"); p != "" {
		c34Child(p)
		os.Exit(0)
	}
}

var c34Kinds = []string{"create", "create2f", "remove", "removef", "dissociate", "realloc", "control", "send", "status", "rpc", "listnodes"}

// the Redis store: the kinds whose store side differs most from the etcd store
var c34RedisKinds = []string{"listnodes", "create", "remove", "status"}

type c34Spec struct {
	A        string `json:"a"`
	B        string `json:"b"`
	Redis    bool   `json:"redis_store,omitempty"`
	Reps     int    `json:"reps"`
	GMP      []int  `json:"gomaxprocs"`
	Dir      string `json:"dir,omitempty"`
	Out      string `json:"out,omitempty"`
	Deadline int64  `json:"deadline_unix,omitempty"`
}

type c34ChildResult struct {
	Done     int            `json:"done"`
	Results  map[string]int `json:"results"` // "<gmp>|A=<summary>|B=<summary>" -> repetitions
	Problem  string         `json:"problem,omitempty"`
	TimedOut bool           `json:"timed_out,omitempty"`
}

func c34Scenarios() []c34Spec {
	var out []c34Spec
	for i, a := range c34Kinds {
		for _, b := range c34Kinds[i:] {
			out = append(out, c34Spec{A: a, B: b})
		}
	}
	for i, a := range c34RedisKinds {
		for _, b := range c34RedisKinds[i:] {
			out = append(out, c34Spec{A: a, B: b, Redis: true})
		}
	}
	return out
}

// ---------------------------------------------------------------------------------------
// parent
// ---------------------------------------------------------------------------------------

func checkC34(t *testing.T, c *vcore.Ctx) {
	reps := 20
	if c.Thorough() {
		reps = 200
	}
	gmps := []int{2, 16}
	c.SetRule("every unordered pair (with repetition) of operation kinds from {create EACH x2 on 2 nodes with one instance failing by an injected engine fault, the same with both instances of one node failing, remove of one workload on each of 3 nodes (two nodes share a pod, the third is alone in its pod), the same remove with the engine refusing every removal (each node's worker rolls back), dissociate of the same shape, realloc, control stop+start, send, set+get workload status, two concurrent unary RPCs (GetPod) on a real grpc server over bufconn serving rpc.Vibranium, listing the three real nodes of a pod (each node's heartbeat status is read from its own pool goroutine)}; the pairs over {list nodes, create, remove, status} also on the Redis store; " +
		"run as two goroutines released together on one real core instance (real Calcium/Mercury/cobalt/cpumem/WAL over memetcd and the fakev engines), free-running in a -race build, R repetitions x GOMAXPROCS in {2,16}, one child process per scenario with GORACE=log_path; " +
		"a race report counts when both access stacks can be attributed and at least one is attributed to github.com/projecteru2/core (not mocks), none to the harness; non-trivial = distinct (scenario, GOMAXPROCS) in which both operations ran to completion with their expected results")
	c.Assume("the race detector observes the executions the runtime happened to produce: this check is exhaustive over the scenario alphabet only, schedules are sampled")
	c.Assume("the in-memory backends are guarded by Go mutexes, so every backend request is a synchronisation point the detector sees but a network round-trip would not be: two conflicting accesses are reported only when no backend request of the first goroutine and a later one of the second lie between them; unsynchronised accesses that a real deployment separates only by network I/O can therefore be missed (never falsely reported)")
	c.Assume("etcd is the in-memory model memetcd, engines are the fakev engines; races whose innermost non-library frame is harness code are harness defects and are filtered (listed in the notes)")
	c.Bound("repetitions_per_scenario_and_gomaxprocs", reps)
	c.Bound("gomaxprocs", gmps)
	c.Bound("operation_kinds", c34Kinds)
	c.CapHit("schedules are sampled by the free-running runtime; exhaustive over the scenario alphabet only")

	dir := os.Getenv("VERIF_TMP")
	if dir == "" {
		dir = t.TempDir()
	}
	scen := c34Scenarios()
	c.Bound("scenarios", len(scen))
	if c.Replay != nil {
		var sp c34Spec
		if err := json.Unmarshal(c.Replay, &sp); err != nil {
			c.HarnessError("replay: %v", err)
			return
		}
		scen = []c34Spec{{A: sp.A, B: sp.B, Redis: sp.Redis}}
	}
	for i, sp := range scen {
		if c.Replay == nil && !c.Mine(int64(i)) {
			continue
		}
		if c.Expired() {
			c.CapHit("budget reached before all scenarios ran")
			return
		}
		sp.Reps, sp.GMP = reps, gmps
		c34RunScenario(c, dir, i, sp)
	}
}

func c34RunScenario(c *vcore.Ctx, dir string, idx int, sp c34Spec) {
	sdir := filepath.Join(dir, fmt.Sprintf("s%d", idx))
	os.RemoveAll(sdir)
	os.MkdirAll(sdir, 0o755)
	defer os.RemoveAll(sdir)
	sp.Dir = sdir
	sp.Out = filepath.Join(sdir, "result.json")
	sp.Deadline = c.Deadline.Unix()
	specPath := filepath.Join(sdir, "spec.json")
	b, _ := json.Marshal(sp)
	os.WriteFile(specPath, b, 0o644)
	logPrefix := filepath.Join(sdir, "race")

	cmd := exec.Command(os.Args[0], "-test.run", "^TestWorker$", "-test.timeout", "0")
	env := []string{}
	for _, e := range os.Environ() {
		if strings.HasPrefix(e, "GORACE=") || strings.HasPrefix(e, "GOMAXPROCS=") || strings.HasPrefix(e, "VERIF_OUT=") {
			continue
		}
		env = append(env, e)
	}
	cmd.Env = append(env, "VERIF_C34_CHILD="+specPath, "GORACE=log_path="+logPrefix+" halt_on_error=0 exitcode=0 history_size=5", "VERIF_TMP="+sdir)
	cmd.Dir = sdir
	done := make(chan struct{})
	var out []byte
	var werr error
	go func() { out, werr = cmd.CombinedOutput(); close(done) }()
	limit := time.Until(c.Deadline) + 60*time.Second
	select {
	case <-done:
	case <-time.After(limit):
		if cmd.Process != nil {
			cmd.Process.Kill()
		}
		<-done
		c.CapHit(fmt.Sprintf("scenario %s|%s was still running at the end of the budget", sp.A, sp.B))
	}
	name := sp.A + "|" + sp.B
	if sp.Redis {
		name = "redis:" + name
	}
	var res c34ChildResult
	rb, rerr := os.ReadFile(sp.Out)
	if rerr == nil {
		rerr = json.Unmarshal(rb, &res)
	}
	// race reports first: they are evidence even if the child died
	var reports []c34Report
	logs, _ := filepath.Glob(logPrefix + ".*")
	for _, lf := range logs {
		data, err := os.ReadFile(lf)
		if err != nil {
			continue
		}
		reports = append(reports, c34ParseReports(string(data))...)
	}
	// a child without a log_path file writes reports to stderr (should not happen; be safe)
	reports = append(reports, c34ParseReports(string(out))...)
	sigs := map[string]bool{}
	for _, r := range reports {
		switch r.Class {
		case "core":
			sig := "C34/race/" + r.Pair
			if !sigs[sig] {
				sigs[sig] = true
				c.Violate(sig, fmt.Sprintf("data race (%s vs %s) reported in scenario %s; accesses: %s  <->  %s", r.Kind[0], r.Kind[1], name, r.Where[0], r.Where[1]), c34Spec{A: sp.A, B: sp.B, Redis: sp.Redis})
			}
		case "harness":
			c.Outcome("filtered:harness-race")
			c.Note("filtered harness race in %s: %s", name, r.Pair)
		case "unattributed":
			c.Outcome("filtered:unattributed-stack")
			c.Note("race report with an unrestorable or purely third-party stack in %s: %s", name, r.Pair)
		default:
			c.Outcome("filtered:third-party-only")
			c.Note("filtered third-party race in %s: %s", name, r.Pair)
		}
	}
	if rerr != nil {
		tail := string(out)
		if len(tail) > 1500 {
			tail = tail[len(tail)-1500:]
		}
		if strings.Contains(string(out), "fatal error: concurrent map") {
			c.Violate("C34/fatal/concurrent-map-access", fmt.Sprintf("scenario %s died with a concurrent map access: %s", name, tail), c34Spec{A: sp.A, B: sp.B, Redis: sp.Redis})
			return
		}
		c.HarnessError("scenario %s: child produced no result (%v / %v): %s", name, werr, rerr, tail)
		return
	}
	if res.Problem != "" {
		c.HarnessError("scenario %s: %s", name, res.Problem)
		return
	}
	if res.TimedOut {
		c.CapHit(fmt.Sprintf("scenario %s stopped after %d repetitions at the end of the budget", name, res.Done))
	}
	c.EvalN(int64(res.Done))
	for k, n := range res.Results {
		c.Outcome(name + "@" + k)
		_ = n
		parts := strings.SplitN(k, "|", 2)
		if c34Expected(sp.A, sp.B, k) {
			c.Nontrivial(name + "@gomaxprocs=" + parts[0])
		}
	}
	if c.WantSample() {
		var rs []string
		for s := range sigs {
			rs = append(rs, s)
		}
		sort.Strings(rs)
		c.Sample(map[string]any{"scenario": name, "repetitions_done": res.Done, "results": res.Results, "race_reports_parsed": len(reports), "race_signatures": rs})
	}
}

// c34Expected says whether a repetition's result string shows both operations doing their work.
func c34Expected(a, b, k string) bool {
	parts := strings.Split(k, "|")
	if len(parts) != 3 {
		return false
	}
	return strings.TrimPrefix(parts[1], "A=") == c34Want(a) && strings.TrimPrefix(parts[2], "B=") == c34Want(b)
}

func c34Want(kind string) string {
	switch kind {
	case "create":
		return "ok3/fail1"
	case "create2f":
		return "ok2/fail2"
	case "rpc":
		return "ok2/fail0"
	case "listnodes":
		return "ok3/fail0"
	case "remove", "dissociate", "realloc", "send":
		return "ok3/fail0"
	case "removef":
		return "ok0/fail3"
	case "control", "status":
		return "ok6/fail0"
	}
	return "?"
}

// ---------------------------------------------------------------------------------------
// race report parsing
// ---------------------------------------------------------------------------------------

type c34Report struct {
	Class string    // core | harness | third-party | unattributed
	Pair  string    // "locA|locB" (sorted)
	Kind  [2]string // Write / Previous read ...
	Where [2]string // attributed frame with file:line (detail only)
}

var (
	reAccess  = regexp.MustCompile(`^(Previous )?(atomic )?(read|write|Read|Write|Atomic read|Atomic write) at 0x[0-9a-f]+ by `)
	reClosure = regexp.MustCompile(`\.(func|gowrap|deferwrap)[0-9]+`)
)

type c34Frame struct {
	Fn   string
	File string
	Line string
}

// c34ParseReports extracts the two access stacks of every "WARNING: DATA RACE" block.
func c34ParseReports(text string) []c34Report {
	var out []c34Report
	blocks := strings.Split(text, "WARNING: DATA RACE")
	for _, blk := range blocks[1:] {
		if i := strings.Index(blk, "=================="); i >= 0 {
			blk = blk[:i]
		}
		lines := strings.Split(blk, "\n")
		var stacks [][]c34Frame
		var kinds []string
		for i := 0; i < len(lines); i++ {
			l := strings.TrimRight(lines[i], "\r")
			if !reAccess.MatchString(l) {
				continue
			}
			kinds = append(kinds, strings.TrimSpace(l[:strings.Index(l, " at 0x")]))
			var fr []c34Frame
			j := i + 1
			for ; j < len(lines); j++ {
				fl := lines[j]
				if strings.TrimSpace(fl) == "" {
					break
				}
				if strings.HasPrefix(fl, "  ") && !strings.HasPrefix(fl, "   ") {
					f := c34Frame{Fn: strings.TrimSpace(fl)}
					if j+1 < len(lines) && strings.HasPrefix(lines[j+1], "      ") {
						loc := strings.Fields(strings.TrimSpace(lines[j+1]))
						if len(loc) > 0 {
							if k := strings.LastIndex(loc[0], ":"); k > 0 {
								f.File, f.Line = loc[0][:k], loc[0][k+1:]
							}
						}
						j++
					}
					fr = append(fr, f)
				}
			}
			stacks = append(stacks, fr)
			i = j
		}
		if len(stacks) < 2 {
			out = append(out, c34Report{Class: "unattributed", Pair: "unparsed-report"})
			continue
		}
		var locs, wheres, classes [2]string
		for s := 0; s < 2; s++ {
			classes[s], locs[s], wheres[s] = c34Attribute(stacks[s])
		}
		r := c34Report{Kind: [2]string{kinds[0], kinds[1]}, Where: wheres}
		a, b := locs[0], locs[1]
		if a > b {
			a, b = b, a
		}
		r.Pair = a + "|" + b
		switch {
		case classes[0] == "harness" || classes[1] == "harness":
			r.Class = "harness"
		case classes[0] == "none" || classes[1] == "none":
			// one stack could not be restored / has no frame outside the libraries: the report
			// cannot be attributed to a pair of locations
			// (kept out of the verdict, listed in the notes: the unknown side might be harness code)
			r.Class = "unattributed"
		case classes[0] == "core" || classes[1] == "core":
			r.Class = "core"
		default:
			r.Class = "third-party"
		}
		out = append(out, r)
	}
	return out
}

func c34PkgOf(fn string) string {
	// "github.com/projecteru2/core/cluster/calcium.(*Calcium).RemoveWorkload.func1.1()" -> package path
	s := fn
	slash := strings.LastIndex(s, "/")
	rest := s
	prefix := ""
	if slash >= 0 {
		prefix, rest = s[:slash+1], s[slash+1:]
	}
	if dot := strings.Index(rest, "."); dot >= 0 {
		return prefix + rest[:dot]
	}
	return prefix + rest
}

func c34ShortFn(fn string) string {
	s := strings.TrimSuffix(fn, "()")
	if i := strings.LastIndex(s, "/"); i >= 0 {
		s = s[i+1:]
	}
	if i := strings.Index(s, "."); i >= 0 {
		s = s[i+1:] // drop the package name
	}
	// drop the receiver: "(*Calcium).RemoveWorkload.func1.1" -> "RemoveWorkload.func1.1"
	if strings.HasPrefix(s, "(") {
		if i := strings.Index(s, ")."); i >= 0 {
			s = s[i+2:]
		}
	}
	// generic instantiation brackets
	if i := strings.Index(s, "["); i >= 0 {
		if j := strings.LastIndex(s, "]"); j > i {
			s = s[:i] + s[j+1:]
		}
	}
	// closures (whatever their nesting and numbering, which the compiler is free to change): "<function>.func"
	if m := reClosure.FindStringIndex(s); m != nil {
		return s[:m[0]] + ".func"
	}
	// value receiver "Plugin.GetNodeResourceInfo" -> "GetNodeResourceInfo"
	if i := strings.LastIndex(s, "."); i >= 0 {
		s = s[i+1:]
	}
	return s
}

// c34SrcToken names WHAT is accessed at a source position without using the line number (which
// moves with every edit above it): the left-hand side of the assignment / increment on that
// line, or the start of the statement. It keeps two different races inside one function apart.
// The text is read from the tree the binary was built from (VERIF_OVERLAY replacements honoured).
var (
	c34SrcMu    sync.Mutex
	c34SrcCache = map[string][]string{}
	c34Overlay  map[string]string
	reLHS       = regexp.MustCompile(`^([A-Za-z_][\w\s,.\[\]\*]*?)\s*(:=|=|\+\+|--|\+=|-=)(\s|$)`)
)

func c34SrcToken(file, line string) string {
	c34SrcMu.Lock()
	defer c34SrcMu.Unlock()
	if c34Overlay == nil {
		c34Overlay = map[string]string{}
		if ov := os.Getenv("VERIF_OVERLAY"); ov != "" {
			var o struct{ Replace map[string]string }
			if b, err := os.ReadFile(ov); err == nil && json.Unmarshal(b, &o) == nil {
				c34Overlay = o.Replace
			}
		}
	}
	path := file
	if r, ok := c34Overlay[file]; ok && r != "" {
		path = r
	}
	lines, ok := c34SrcCache[path]
	if !ok {
		if b, err := os.ReadFile(path); err == nil {
			lines = strings.Split(string(b), "\n")
		}
		c34SrcCache[path] = lines
	}
	var n int
	fmt.Sscan(line, &n)
	if n < 1 || n > len(lines) {
		return ""
	}
	txt := strings.Join(strings.Fields(lines[n-1]), " ")
	if m := reLHS.FindStringSubmatch(txt); m != nil {
		txt = strings.TrimSpace(m[1])
	}
	if len(txt) > 40 {
		txt = txt[:40]
	}
	return "[" + txt + "]"
}

// c34Attribute walks a stack from the access outwards and attributes it to the first frame
// that is neither the runtime, the standard library nor a third-party module.
func c34Attribute(fr []c34Frame) (class, loc, where string) {
	for _, f := range fr {
		pkg := c34PkgOf(f.Fn)
		switch {
		case strings.HasPrefix(pkg, "verif/harness"):
			return "harness", "harness:" + filepath.Base(f.File) + ":" + c34ShortFn(f.Fn), f.Fn + " " + f.File + ":" + f.Line
		case strings.HasPrefix(pkg, "github.com/projecteru2/core/") || pkg == "github.com/projecteru2/core":
			if strings.Contains(pkg, "/mocks") {
				return "harness", "mocks:" + filepath.Base(f.File) + ":" + c34ShortFn(f.Fn), f.Fn
			}
			return "core", filepath.Base(f.File) + ":" + c34ShortFn(f.Fn) + c34SrcToken(f.File, f.Line), f.Fn + " " + f.File + ":" + f.Line
		}
	}
	if len(fr) > 0 {
		f := fr[len(fr)-1]
		return "none", "outside:" + filepath.Base(f.File) + ":" + c34ShortFn(f.Fn), f.Fn + " " + f.File + ":" + f.Line
	}
	return "none", "unrestored-stack", ""
}

// ---------------------------------------------------------------------------------------
// child: one scenario, free-running
// ---------------------------------------------------------------------------------------

type c34World struct {
	b     *world.Backend
	snap  *world.Snap
	ids   map[string][]string // slot -> workload ids (one on each of n1, n2 (pod p) and n3 (pod q))
	redis bool
}

func c34Child(specPath string) {
	zerolog.SetGlobalLevel(zerolog.Disabled)
	if os.Getenv("VERIF_LOG") != "" {
		zerolog.SetGlobalLevel(zerolog.InfoLevel)
	}
	var sp c34Spec
	raw, err := os.ReadFile(specPath)
	if err == nil {
		err = json.Unmarshal(raw, &sp)
	}
	res := c34ChildResult{Results: map[string]int{}}
	write := func() {
		b, _ := json.Marshal(res)
		os.WriteFile(sp.Out, b, 0o644)
	}
	if err != nil {
		fmt.Fprintln(os.Stderr, "c34 child: bad spec:", err)
		os.Exit(4)
	}
	w, err := c34Setup(sp.Dir, sp.Redis)
	if err != nil {
		res.Problem = "setup: " + err.Error()
		write()
		return
	}
	defer w.b.Close()
	deadline := time.Unix(sp.Deadline, 0)
	for _, g := range sp.GMP {
		runtime.GOMAXPROCS(g)
		for r := 0; r < sp.Reps; r++ {
			if sp.Deadline > 0 && time.Now().After(deadline) {
				res.TimedOut = true
				write()
				return
			}
			ra, rb, problem := c34OneRep(w, sp.A, sp.B)
			if problem != "" {
				res.Problem = fmt.Sprintf("gomaxprocs=%d repetition %d: %s", g, r, problem)
				write()
				return
			}
			res.Done++
			res.Results[fmt.Sprintf("%d|A=%s|B=%s", g, ra, rb)]++
		}
	}
	write()
}

func c34Setup(dir string, redis bool) (*c34World, error) {
	b := world.NewBackend(dir, redis)
	inst, err := b.NewInstance(world.InstanceOpts{Redis: redis})
	if err != nil {
		return nil, err
	}
	ctx := world.WithThread(context.Background(), "setup")
	f := &c34Fault{}
	inst.SetInterceptor(f.intercept)
	if _, err := inst.Cal.AddPod(ctx, "p", ""); err != nil {
		return nil, err
	}
	if _, err := inst.Cal.AddPod(ctx, "q", ""); err != nil {
		return nil, err
	}
	// pod r holds two real (non-test) nodes without workloads: listing them asks the store for each node's
	// heartbeat status from its own pool goroutine
	if _, err := inst.Cal.AddPod(ctx, "r", ""); err != nil {
		return nil, err
	}
	for _, n := range []world.NodeSpec{{Name: "n4", Pod: "r", CPU: 2, Memory: 500}, {Name: "n5", Pod: "r", CPU: 2, Memory: 500}, {Name: "n6", Pod: "r", CPU: 2, Memory: 500}} {
		if _, err := inst.Cal.AddNode(ctx, n.Options()); err != nil {
			return nil, err
		}
	}
	// n1, n2 share pod p (operations on them serialise on the pod lock); n3 is alone in pod q, so
	// the per-node goroutines of one remove/dissociate call really run in parallel
	for _, n := range []world.NodeSpec{{Name: "n1", Pod: "p", CPU: 4, Memory: 2000, Test: true}, {Name: "n2", Pod: "p", CPU: 4, Memory: 2000, NUMA: true, Test: true}, {Name: "n3", Pod: "q", CPU: 4, Memory: 2000, Test: true}} {
		if _, err := inst.Cal.AddNode(ctx, n.Options()); err != nil {
			return nil, err
		}
	}
	w := &c34World{b: b, ids: map[string][]string{}, redis: redis}
	for _, slot := range []string{"A", "B"} {
		byNode := map[string]string{}
		for _, pod := range []string{"p", "q"} {
			msgs, err := inst.Create(ctx, world.DeploySpec{App: "pre" + strings.ToLower(slot), Pod: pod, Count: 1, Strategy: "EACH", Memory: 30})
			if err != nil {
				return nil, err
			}
			for _, m := range msgs {
				if m.Error != nil {
					return nil, fmt.Errorf("pre-create: %v", m.Error)
				}
				byNode[m.Nodename] = m.WorkloadID
			}
		}
		if byNode["n1"] == "" || byNode["n2"] == "" || byNode["n3"] == "" {
			return nil, fmt.Errorf("pre-create did not place one workload per node: %v", byNode)
		}
		w.ids[slot] = []string{byNode["n1"], byNode["n2"], byNode["n3"]}
	}
	f.settle()
	inst.Close()
	w.snap = b.Save()
	return w, nil
}

type c34Fault struct {
	kinds map[string]string // thread -> kind
	nA    atomic.Int64
	nB    atomic.Int64
	steps atomic.Int64
}

// settle waits (for housekeeping only, never for a verdict) until the instance has issued no
// backend step for a few milliseconds: the operations have returned, what may still run is
// their background remap. Instance.Quiesce is not used because outside a bubble it waits for
// the pools' idle workers to expire (about a second of real time per repetition); Close
// below still waits for every running pool task.
func (f *c34Fault) settle() {
	last, calm := f.steps.Load(), 0
	for i := 0; i < 400 && calm < 4; i++ {
		time.Sleep(time.Millisecond)
		if n := f.steps.Load(); n != last {
			last, calm = n, 0
		} else {
			calm++
		}
	}
}

func (f *c34Fault) intercept(ctx context.Context, s world.Step) error {
	f.steps.Add(1)
	who := world.Who(ctx)
	if s.Layer == "engine" && s.Kind == "remove" && f.kinds[who] == "removef" {
		return world.ErrInjected // the engine refuses every removal of this call: each node's worker rolls back
	}
	if s.Layer != "engine" || s.Kind != "create" {
		return nil
	}
	switch f.kinds[who] {
	case "create":
		// the first instance to reach the engine on n2 fails
		if strings.HasPrefix(s.Key, "n2/") {
			ctr := &f.nA
			if who == "B" {
				ctr = &f.nB
			}
			if ctr.Add(1) == 1 {
				return world.ErrInjected
			}
		}
	case "create2f":
		if strings.HasPrefix(s.Key, "n1/") {
			return world.ErrInjected
		}
	}
	return nil
}

func c34Summary(ok, bad int) string { return fmt.Sprintf("ok%d/fail%d", ok, bad) }

// c34Op runs one operation of the alphabet for a slot (thread) and summarises its items.
func c34Op(ctx context.Context, inst *world.Instance, w *c34World, kind, slot string, rpcCli pb.CoreRPCClient) string {
	ids := append([]string{}, w.ids[slot]...)
	ok, bad := 0, 0
	count := func(good bool) {
		if good {
			ok++
		} else {
			bad++
		}
	}
	switch kind {
	case "create", "create2f":
		msgs, err := inst.Create(ctx, world.DeploySpec{App: "app" + strings.ToLower(slot), Pod: "p", Count: 2, Strategy: "EACH", Memory: 30})
		if err != nil {
			return "error:" + err.Error()
		}
		for _, m := range msgs {
			count(m.Error == nil)
		}
	case "remove", "removef":
		ch, err := inst.Cal.RemoveWorkload(ctx, ids, true)
		if err != nil {
			return "error:" + err.Error()
		}
		for m := range ch {
			count(m.Success)
		}
	case "dissociate":
		ch, err := inst.Cal.DissociateWorkload(ctx, ids)
		if err != nil {
			return "error:" + err.Error()
		}
		for m := range ch {
			count(m.Error == nil)
		}
	case "realloc":
		for _, id := range ids {
			err := inst.Cal.ReallocResource(ctx, &coretypes.ReallocOptions{ID: id, Resources: resourcetypes.Resources{"cpumem": resourcetypes.RawParams{"memory-request": int64(20), "keep-cpu-bind": true}}})
			count(err == nil)
		}
	case "control":
		for _, typ := range []string{"stop", "start"} {
			ch, err := inst.Cal.ControlWorkload(ctx, ids, typ, true)
			if err != nil {
				return "error:" + err.Error()
			}
			for m := range ch {
				count(m.Error == nil)
			}
		}
	case "send":
		ch, err := inst.Cal.Send(ctx, &coretypes.SendOptions{IDs: ids, Files: []coretypes.LinuxFile{{Filename: "/etc/x", Content: []byte("hello"), Mode: 0o644}}})
		if err != nil {
			return "error:" + err.Error()
		}
		for m := range ch {
			count(m.Error == nil)
		}
	case "status":
		metas := []*coretypes.StatusMeta{{ID: ids[0], Running: true, Healthy: true}, {ID: ids[1], Running: true}, {ID: ids[2], Running: true}}
		out, err := inst.Cal.SetWorkloadsStatus(ctx, metas, map[string]int64{ids[0]: 0, ids[1]: 120, ids[2]: 120})
		if err != nil {
			return "error:" + err.Error()
		}
		ok += len(out)
		got, err := inst.Cal.GetWorkloadsStatus(ctx, ids)
		if err != nil {
			return "error:" + err.Error()
		}
		ok += len(got)
	case "listnodes":
		ch, err := inst.Cal.ListPodNodes(ctx, &coretypes.ListNodesOptions{Podname: "r", All: true})
		if err != nil {
			return "error:" + err.Error()
		}
		for range ch {
			ok++
		}
	case "rpc":
		// two concurrent unary calls through the real server
		var wg sync.WaitGroup
		var okN, badN atomic.Int64
		start := make(chan struct{})
		for i := 0; i < 2; i++ {
			wg.Add(1)
			go func() {
				defer wg.Done()
				<-start
				p, err := rpcCli.GetPod(ctx, &pb.GetPodOptions{Name: "p"})
				if err == nil && p.GetName() == "p" {
					okN.Add(1)
				} else {
					badN.Add(1)
				}
			}()
		}
		close(start)
		wg.Wait()
		ok, bad = int(okN.Load()), int(badN.Load())
	default:
		return "unknown-kind"
	}
	return c34Summary(ok, bad)
}

// c34OneRep restores the world, starts a fresh core instance and runs the two operations as
// two goroutines released together.
func c34OneRep(w *c34World, a, b string) (ra, rb, problem string) {
	w.b.Restore(w.snap)
	inst, err := w.b.NewInstance(world.InstanceOpts{Redis: w.redis})
	if err != nil {
		return "", "", "new instance: " + err.Error()
	}
	f := &c34Fault{kinds: map[string]string{"A": a, "B": b}}
	inst.SetInterceptor(f.intercept)

	var cli pb.CoreRPCClient
	var cleanup []func()
	if a == "rpc" || b == "rpc" {
		lis := bufconn.Listen(1 << 16)
		srv := grpc.NewServer()
		vib := corerpc.New(inst.Cal, inst.Cfg, make(chan struct{}))
		pb.RegisterCoreRPCServer(srv, vib)
		go func() { _ = srv.Serve(lis) }()
		conn, err := grpc.Dial("passthrough:///c34", grpc.WithTransportCredentials(insecure.NewCredentials()),
			grpc.WithContextDialer(func(ctx context.Context, _ string) (net.Conn, error) { return lis.DialContext(ctx) }))
		if err != nil {
			inst.Close()
			return "", "", "dial: " + err.Error()
		}
		cli = pb.NewCoreRPCClient(conn)
		// warm the connection up so that the two measured calls do not serialise on the handshake
		wctx, wcancel := context.WithTimeout(context.Background(), 20*time.Second)
		_, werr := cli.ListPods(wctx, &pb.Empty{})
		wcancel()
		if werr != nil {
			conn.Close()
			srv.Stop()
			inst.Close()
			return "", "", "rpc warm-up: " + werr.Error()
		}
		cleanup = append(cleanup, func() { conn.Close(); srv.Stop(); vib.Wait() })
	}

	start := make(chan struct{})
	var wg sync.WaitGroup
	ctxA, cancelA := context.WithCancel(world.WithThread(context.Background(), "A"))
	ctxB, cancelB := context.WithCancel(world.WithThread(context.Background(), "B"))
	wg.Add(2)
	go func() { defer wg.Done(); <-start; ra = c34Op(ctxA, inst, w, a, "A", cli) }()
	go func() { defer wg.Done(); <-start; rb = c34Op(ctxB, inst, w, b, "B", cli) }()
	done := make(chan struct{})
	go func() { wg.Wait(); close(done) }()
	t0 := time.Now()
	close(start)
	select {
	case <-done:
	case <-time.After(90 * time.Second):
		// not an oracle: a watchdog so that a wedged repetition cannot hang the worker
		cancelA()
		cancelB()
		return "", "", "the two operations were still running after 90 s of real time (watchdog)"
	}
	t1 := time.Now()
	f.settle()
	t2 := time.Now()
	cancelA()
	cancelB()
	for _, fn := range cleanup {
		fn()
	}
	inst.SetInterceptor(nil)
	inst.Close()
	if os.Getenv("VERIF_C34_TIMING") != "" {
		fmt.Fprintf(os.Stderr, "rep: ops %v quiesce %v close %v\n", t1.Sub(t0), t2.Sub(t1), time.Since(t2))
	}
	return ra, rb, ""
}
