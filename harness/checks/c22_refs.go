package checks

import (
	"context"
	"fmt"
	"os"
	"sort"
	"strings"
	"testing"
	"time"

	coretypes "github.com/projecteru2/core/types"

	"verif/harness/vcore"
	"verif/harness/world"
)

// C22: pods, nodes, node resources and workloads stay referentially consistent under
// concurrent pod/node/workload operations. Two (thorough: also three) API calls run as
// threads of one core instance; every interleaving of their backend requests within the
// preemption bound is executed on the real code; the oracle is evaluated when all calls have
// returned and the background work has quiesced.

func init() {
	register(Meta{ID: "C22", Level: "model_checking", BudgetQuick: 300, BudgetThor: 2400, GoMaxProcs: 2},
		func(t *testing.T, c *vcore.Ctx) { c22Explore(t, c) })
}

type c22Op struct {
	Kind string `json:"kind"` // addpod | removepod | addnode | removenode | create | remove
	Pod  string `json:"pod,omitempty"`
	Node string `json:"node,omitempty"`
}

func (o c22Op) String() string { return strings.TrimSpace(o.Kind + " " + o.Pod + " " + o.Node) }

type c22Case struct {
	Ops     []c22Op `json:"threads"`
	Backend string  `json:"backend,omitempty"` // "" = etcd | "redis"
	Bound   int     `json:"preemption_bound"`
	Choices []int   `json:"choices,omitempty"`
}

func c22Setup(t *testing.T, b *world.Backend, redis bool) (*world.Snap, string, error) {
	var err error
	tr := wexec(t, b, world.InstanceOpts{NoWAL: true, Redis: redis}, nil, 5, func(ctx context.Context, inst *world.Instance) {
		for _, p := range []string{"p", "q", "r"} {
			if _, e := inst.Cal.AddPod(ctx, p, ""); e != nil {
				err = e
				return
			}
		}
		for _, n := range []string{"n1", "n2"} {
			if _, e := inst.Cal.AddNode(ctx, world.NodeSpec{Name: n, Pod: "p", CPU: 2, Memory: 200, Test: true}.Options()); e != nil {
				err = e
				return
			}
		}
		// pod r has one node, and that node is down (a real node that never reported a heartbeat)
		if _, e := inst.Cal.AddNode(ctx, world.NodeSpec{Name: "n4", Pod: "r", CPU: 2, Memory: 200}.Options()); e != nil {
			err = e
			return
		}
		msgs, e := inst.Create(ctx, world.DeploySpec{Pod: "p", Count: 1, Strategy: "AUTO", Memory: 50, Filter: &coretypes.NodeFilter{Podname: "p", Includes: []string{"n2"}}})
		if e != nil || len(msgs) != 1 || msgs[0].Error != nil {
			err = fmt.Errorf("setup create: %v %v", e, msgs)
		}
	}, nil)
	if tr.Deadlock != "" {
		return nil, "", fmt.Errorf("%s", tr.Deadlock)
	}
	if err != nil {
		return nil, "", err
	}
	v := b.View(redis)
	wid := ""
	for id := range v.Workloads {
		wid = id
	}
	return b.Save(), wid, nil
}

func c22Thread(name string, op c22Op, wid string) schedThread {
	return schedThread{Name: name, Run: func(ctx context.Context, x *schedRun) {
		cal := x.Inst(name).Cal
		var err error
		switch op.Kind {
		case "addpod":
			_, err = cal.AddPod(ctx, op.Pod, "")
		case "removepod":
			err = cal.RemovePod(ctx, op.Pod)
		case "addnode":
			_, err = cal.AddNode(ctx, world.NodeSpec{Name: op.Node, Pod: op.Pod, CPU: 2, Memory: 200, Test: true}.Options())
		case "addnode-bare":
			o := world.NodeSpec{Name: op.Node, Pod: op.Pod, Test: true}.Options()
			o.Resources = nil
			_, err = cal.AddNode(ctx, o)
		case "removenode":
			err = cal.RemoveNode(ctx, op.Node)
		case "create":
			var ch chan *coretypes.CreateWorkloadMessage
			ch, err = cal.CreateWorkload(ctx, world.DeploySpec{Pod: "p", Count: 1, Strategy: "AUTO", Memory: 50, Filter: &coretypes.NodeFilter{Podname: "p", Includes: []string{op.Node}}}.Options())
			if err == nil {
				for m := range ch {
					if m.Error != nil {
						err = m.Error
					}
				}
			}
		case "remove":
			var ch chan *coretypes.RemoveWorkloadMessage
			ch, err = cal.RemoveWorkload(ctx, []string{wid}, true)
			if err == nil {
				for m := range ch {
					if !m.Success {
						err = fmt.Errorf("remove failed")
					}
				}
			}
		}
		res := "ok"
		if err != nil {
			res = "refused"
		}
		x.mu.Lock()
		x.Data["res:"+name] = res
		x.mu.Unlock()
	}}
}

func c22Explore(t *testing.T, c *vcore.Ctx) {
	dir := os.Getenv("VERIF_TMP")
	if dir == "" {
		dir = t.TempDir()
	}
	c.SetRule("two API calls as concurrent threads over pods p{n1,n2 with one workload on n2}, q{}, r{n4, down}: pairs drawn from {add-pod, remove-pod, add-node (with explicit resources or with the capacity taken from the engine), remove-node, create, remove} on overlapping names; every interleaving of their etcd/engine requests within the preemption bound; the pod-level scenarios also on the Redis store; oracle when both have returned; non-trivial = schedules with at least one switch between the threads while both were enabled")
	c.Assume("etcd = memetcd (conformance-checked); both calls run on one core instance (locks are distributed, so this equals two instances sharing the store)")
	b := world.NewBackend(dir, true)
	defer b.Close()
	snaps, wids := map[string]*world.Snap{}, map[string]string{}
	empty := b.Save()
	for _, be := range []string{"", "redis"} {
		b.Restore(empty)
		snap, wid, err := c22Setup(t, b, be == "redis")
		if err != nil {
			c.HarnessError("setup (%s): %v", be, err)
			return
		}
		snaps[be], wids[be] = snap, wid
	}
	mk := func(cc *c22Case) *schedScenario {
		sc := &schedScenario{Name: "refs", Snap: snaps[cc.Backend], Opts: world.InstanceOpts{NoWAL: true, Redis: cc.Backend == "redis"}, Horizon: 10 * time.Minute, Quantum: time.Second}
		for i, op := range cc.Ops {
			sc.Threads = append(sc.Threads, c22Thread(fmt.Sprintf("T%d", i+1), op, wids[cc.Backend]))
		}
		return sc
	}
	if c.Replay != nil {
		var cc c22Case
		if err := jsonUnmarshal(c.Replay, &cc); err != nil {
			c.HarnessError("replay: %v", err)
			return
		}
		x := runSchedule(t, b, mk(&cc), cc.Choices)
		c.Eval()
		c22Check(c, b, &cc, x, cc.Choices)
		return
	}
	bound := 1
	if c.Thorough() {
		bound = 2
	}
	pairs := [][]c22Op{
		{{Kind: "create", Node: "n1"}, {Kind: "removenode", Node: "n1"}},
		{{Kind: "addnode", Pod: "q", Node: "n3"}, {Kind: "removepod", Pod: "q"}},
		{{Kind: "remove"}, {Kind: "removenode", Node: "n2"}},
		{{Kind: "addnode", Pod: "p", Node: "n3"}, {Kind: "addnode", Pod: "p", Node: "n3"}},
		{{Kind: "removenode", Node: "n1"}, {Kind: "removenode", Node: "n1"}},
		{{Kind: "addpod", Pod: "s"}, {Kind: "addnode", Pod: "s", Node: "n3"}},
		{{Kind: "create", Node: "n1"}, {Kind: "remove"}},
		{{Kind: "removepod", Pod: "q"}, {Kind: "addpod", Pod: "q"}},
		// a pod whose only node is down must not be removed
		{{Kind: "removepod", Pod: "r"}},
		{{Kind: "removepod", Pod: "r"}, {Kind: "removenode", Node: "n4"}},
		// a node added without explicit resources (capacity taken from the engine) to a pod that may not exist yet
		{{Kind: "addpod", Pod: "s"}, {Kind: "addnode-bare", Pod: "s", Node: "n3"}},
	}
	type job struct {
		ops []c22Op
		be  string
	}
	var jobs []job
	for _, ops := range pairs {
		jobs = append(jobs, job{ops, ""})
	}
	// the Redis store: the pod-level scenarios (workload placement goes through the same cluster code)
	for _, i := range []int{1, 5, 7, 8, 9} {
		jobs = append(jobs, job{pairs[i], "redis"})
	}
	c.Bound("preemption_bound_completed", bound)
	c.Bound("scenarios", len(jobs))
	for _, j := range jobs {
		ops := j.ops
		cc := c22Case{Ops: ops, Backend: j.be, Bound: bound}
		if c.Expired() {
			c.CapHit("budget reached")
			return
		}
		st := exploreSchedules(t, c, b, mk(&cc), bound, func(x *schedRun, choices []int) { c22Check(c, b, &cc, x, choices) })
		if !st.Complete {
			c.CapHit("budget reached inside a scenario")
		}
		if st.Diverged > 0 {
			c.Note("%s: %d replays diverged", vcore.JSON(ops), st.Diverged)
		}
		c.AddStates(int64(st.Executions))
		c.AddTransitions(int64(st.Executions * (st.MaxPoints + 1)))
	}
}

func c22Check(c *vcore.Ctx, b *world.Backend, cc *c22Case, x *schedRun, choices []int) {
	rc := *cc
	rc.Choices = choices
	var names []string
	for _, op := range cc.Ops {
		names = append(names, op.Kind)
	}
	pair := strings.Join(names, "||")
	if cc.Backend != "" {
		pair = cc.Backend + "/" + pair
	}
	// a violation that needs no preemption at all (the calls run one after the other) is a
	// different finding from one that needs a particular interleaving
	npre := 0
	for _, d := range x.Decisions {
		if d.Choice < len(d.Preempt) && d.Preempt[d.Choice] {
			npre++
		}
	}
	how := "interleaved"
	if npre == 0 {
		how = "sequential"
	}
	viol := func(sig, f string, a ...any) {
		c.Violate("C22/"+pair+"/"+how+"/"+sig, fmt.Sprintf(f, a...)+" | threads="+vcore.JSON(cc.Ops)+" results="+c22Results(x, len(cc.Ops))+" schedule="+renderSchedule(x), rc)
	}
	if x.Stuck != "" {
		viol("call-never-returns", "%s", firstLine(x.Stuck))
		return
	}
	v := b.View(cc.Backend == "redis")
	c.Outcome(pair + ":" + c22Results(x, len(cc.Ops)))
	pods := map[string]bool{}
	for _, p := range v.Pods {
		pods[p] = true
	}
	var nodes []string
	for n := range v.Nodes {
		nodes = append(nodes, n)
	}
	sort.Strings(nodes)
	for _, n := range nodes {
		if !pods[v.Nodes[n]] {
			viol("node-of-removed-pod", "node %s belongs to pod %s which does not exist", n, v.Nodes[n])
		}
		if _, ok := v.NodeRes[n]; !ok {
			viol("node-without-resource-record", "node %s has no resource record", n)
		}
	}
	for n := range v.NodeRes {
		if _, ok := v.Nodes[n]; !ok {
			viol("resource-record-without-node", "resource record %s belongs to no recorded node", n)
		}
	}
	for id, w := range v.Workloads {
		if _, ok := v.Nodes[w.Node]; !ok {
			viol("workload-on-missing-node", "workload %s is recorded on node %s which does not exist", short(id), w.Node)
		}
	}
	switches := 0
	for _, d := range x.Decisions {
		if d.Choice < len(d.Preempt) && d.Preempt[d.Choice] {
			switches++
		}
	}
	if switches > 0 {
		c.Nontrivial(vcore.JSON(rc))
		if c.WantSample() {
			c.Sample(map[string]any{"threads": cc.Ops, "results": c22Results(x, len(cc.Ops)), "decisions": len(x.Decisions), "schedule": renderSchedule(x)})
		}
	}
}

func c22Results(x *schedRun, n int) string {
	x.mu.Lock()
	defer x.mu.Unlock()
	var rs []string
	for i := 1; i <= n; i++ {
		rs = append(rs, fmt.Sprint(x.Data[fmt.Sprintf("res:T%d", i)]))
	}
	return strings.Join(rs, ",")
}
