package checks

import (
	"fmt"
	"testing"

	resourcetypes "github.com/projecteru2/core/resource/types"
	"verif/harness/world"
)

func TestC08Debug(t *testing.T) {
	env := world.NewPluginEnv(100, -1)
	defer env.Close()
	c08Init(env)
	r := wReq{Bind: true, CPU: 0.5, CPULimit: 0.5, Mem: 100, MemLimit: 100}
	wrs, _, err := env.Mgr.Alloc(bg, "numa", 1, resourcetypes.Resources{"cpumem": r.raw()})
	fmt.Printf("alloc: %v %v\n", wrs, err)
	s, _ := env.Srv.Get(world.NodeKey("numa"))
	fmt.Println(s)
	w := c08NewW("numa", wrs[0]["cpumem"])
	d := wReq{Keep: true, Mem: 100, MemLimit: 100}
	_, delta, res, err := env.Mgr.Realloc(bg, "numa", resourcetypes.Resources{"cpumem": w.Res}, resourcetypes.Resources{"cpumem": d.raw()})
	fmt.Printf("realloc: delta=%v res=%v err=%v\n", delta, res, err)
	s, _ = env.Srv.Get(world.NodeKey("numa"))
	fmt.Println(s)
}
