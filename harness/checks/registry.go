// Package checks holds one file per property (or per group of properties decided by the same
// enumeration). Every check registers itself here; TestWorker (worker_test.go) runs one shard
// of one check, selected by VERIF_CHECK, and writes a vcore.Result.
package checks

import (
	"testing"

	"verif/harness/vcore"
)

// Meta is what the orchestrator needs to know before it starts workers.
type Meta struct {
	ID           string `json:"id"`
	Level        string `json:"level"`
	ShardsQuick  int    `json:"shards_quick"`
	ShardsThor   int    `json:"shards_thorough"`
	BudgetQuick  int    `json:"budget_quick_s"`
	BudgetThor   int    `json:"budget_thorough_s"`
	Race         bool   `json:"race"`
	GoMaxProcs   int    `json:"gomaxprocs"`
	MemLimitKB   int    `json:"mem_limit_kb"`
	WorkerGraceS int    `json:"worker_grace_s"`
}

type checkFn func(t *testing.T, c *vcore.Ctx)

type entry struct {
	meta Meta
	fn   checkFn
}

var registry = map[string]entry{}

func register(m Meta, fn checkFn) {
	if m.ShardsQuick == 0 {
		m.ShardsQuick = 16
	}
	if m.ShardsThor == 0 {
		m.ShardsThor = 16
	}
	if m.BudgetQuick == 0 {
		m.BudgetQuick = 120
	}
	if m.BudgetThor == 0 {
		m.BudgetThor = 1200
	}
	if _, dup := registry[m.ID]; dup {
		panic("duplicate check " + m.ID)
	}
	registry[m.ID] = entry{m, fn}
}
