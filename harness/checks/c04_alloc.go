package checks

import (
	"fmt"
	"math"
	"testing"

	cpumemtypes "github.com/projecteru2/core/resource/plugins/cpumem/types"
	plugintypes "github.com/projecteru2/core/resource/plugins/types"
	resourcetypes "github.com/projecteru2/core/resource/types"

	"verif/harness/vcore"
	"verif/harness/world"
)

// C04 (allocations never overcommit) and C07 (reported capacity = what allocation accepts):
// exhaustive enumeration over valid node states x requests x scheduler configurations on the
// real cpumem plugin (and the real cobalt manager for C07) over memetcd.

func init() {
	register(Meta{ID: "C04", Level: "exploration", BudgetQuick: 200, BudgetThor: 1800, GoMaxProcs: 2},
		func(t *testing.T, c *vcore.Ctx) { allocEnum(c, "C04") })
	register(Meta{ID: "C07", Level: "exploration", BudgetQuick: 200, BudgetThor: 1800, GoMaxProcs: 2},
		func(t *testing.T, c *vcore.Ctx) { allocEnum(c, "C07") })
}

type allocCase struct {
	Base     int     `json:"share_base"`
	MaxShare int     `json:"max_share"`
	State    *nState `json:"state"`
	Req      wReq    `json:"request"`
	Count    int     `json:"count,omitempty"`
}

func allocRequests(base int) []wReq {
	var out []wReq
	for _, cpu := range []float64{0.3, 0.5, 1, 1.2, 1.5, 2} {
		for _, lim := range []float64{0, 2} {
			for _, mem := range []int64{0, 30, 60} {
				out = append(out, wReq{Bind: true, CPU: cpu, CPULimit: cpu * lim, Mem: mem})
				if mem > 0 && lim == 0 {
					// a memory limit above the request: admission is by request, what is recorded must still fit
					out = append(out, wReq{Bind: true, CPU: cpu, Mem: mem, MemLimit: 2 * mem})
				}
			}
		}
	}
	for _, cpu := range []float64{0, 0.5, 1, 1.5, 2, 2.5, 3.5, 5} { // whole and fractional values around the core counts 1..3
		for _, mem := range []int64{0, 30, 60} {
			out = append(out, wReq{Bind: false, CPU: cpu, Mem: mem})
		}
	}
	return out
}

func allocEnum(c *vcore.Ctx, prop string) {
	c.SetRule("every valid node state (k cores with capacity {1,.5} core and usage {0,.3,.5,1} core, memory usage {0,40,80}/100, optional 2-NUMA split with NUMA memory {(50,50),(80,20)} usage {0,30}) x request (bound cpu {.3,.5,1,1.2,1.5,2} x limit {0,2x} x memory {0,30,60} (also with a memory limit of twice the request); unbound cpu {0,.5,1,1.5,2,2.5,3.5,5} x memory) x share base {100,10} x max-share {-1,1,2}; " +
		"non-trivial = the node offers capacity >= 1 for the request; distinct by (config,state,request)")
	envs := penvCache{}
	defer envs.close()
	if c.Replay != nil {
		var ac allocCase
		if err := jsonUnmarshal(c.Replay, &ac); err != nil {
			c.HarnessError("replay: %v", err)
			return
		}
		allocOne(c, prop, envs, &ac)
		return
	}
	maxK := 2
	if c.Thorough() {
		maxK = 3
	}
	c.Bound("max_cores", maxK)
	var idx int64
	for _, base := range []int{100, 10} {
		reqs := allocRequests(base)
		for k := 1; k <= maxK; k++ {
			// 130 and 170 > capacity 100: memory over-committed after the capacity was lowered
			// (the plugin's own validation accepts such a state)
			states := enumNodeStates(k, base, []int64{0, 40, 80, 130, 170}, true)
			for _, ms := range []int{-1, 1, 2} {
				for _, st := range states {
					idx++
					if !c.Mine(idx) {
						continue
					}
					for _, rq := range reqs {
						ac := allocCase{Base: base, MaxShare: ms, State: st, Req: rq}
						allocOne(c, prop, envs, &ac)
					}
					if c.Expired() {
						c.CapHit(fmt.Sprintf("budget reached at base=%d k=%d maxshare=%d", base, k, ms))
						return
					}
				}
			}
		}
	}
}

func guard(c *vcore.Ctx, prop string, ac any, f func()) (panicked bool) {
	defer func() {
		if r := recover(); r != nil {
			panicked = true
			// panics are C06's subject; other checks skip the case silently but count it
			c.Outcome("panic-skipped")
			if prop == "C06" {
				c.Violate("C06/panic", fmt.Sprintf("panic %v on %s", r, vcore.JSON(ac)), ac)
			}
		}
	}()
	f()
	return false
}

func allocOne(c *vcore.Ctx, prop string, envs penvCache, ac *allocCase) {
	env := envs.get(ac.Base, ac.MaxShare)
	info := ac.State.info()
	if err := info.DeepCopy().Validate(); err != nil {
		return // not a valid node state
	}
	guard(c, prop, ac, func() { allocOneInner(c, prop, env, ac, info) })
}

func allocOneInner(c *vcore.Ctx, prop string, env *world.PluginEnv, ac *allocCase, info *cpumemtypes.NodeResourceInfo) {
	const node = "n"
	st := ac.State
	env.SetNodeRaw(node, info)
	viol := func(sig, f string, a ...any) {
		c.Violate(prop+"/"+sig, fmt.Sprintf(f, a...)+" | case="+vcore.JSON(ac), ac)
	}
	capResp, err := env.Plugin.GetNodesDeployCapacity(bg, []string{node}, ac.Req.raw())
	c.Eval()
	if err != nil {
		c.Outcome("capacity-error")
		return
	}
	capacity := 0
	if nc, ok := capResp.NodeDeployCapacityMap[node]; ok {
		capacity = nc.Capacity
	}
	effCPU, effMem := ac.Req.effective()
	key := fmt.Sprintf("%d/%d/%s/%+v", ac.Base, ac.MaxShare, st.String(), ac.Req)
	if capacity >= 1 {
		c.Nontrivial(key)
	}
	free := make([]int, len(st.Cap))
	for i := range st.Cap {
		free[i] = st.Cap[i] - st.Use[i]
	}
	freeMem := st.MemCap - st.MemUse

	tryCounts := []int{}
	if capacity == math.MaxInt {
		tryCounts = []int{1, 7}
		c.Outcome("unlimited")
	} else {
		for n := 1; n <= capacity+1; n++ {
			tryCounts = append(tryCounts, n)
		}
		if capacity == 0 {
			c.Outcome("no-capacity")
		} else {
			c.Outcome("finite")
		}
	}
	if prop == "C07" && c.WantSample() && capacity > 1 && capacity != math.MaxInt && st.hasNUMA() {
		c.Sample(map[string]any{"case": ac, "reported_capacity": capacity})
	}
	if prop == "C07" {
		// zero-capacity nodes are not offered; total is the saturating sum
		if _, offered := capResp.NodeDeployCapacityMap[node]; offered && capacity == 0 {
			viol("zero-capacity-offered", "node offered with capacity 0")
		}
		if capResp.Total != capacity {
			viol("plugin-total", "single-node total %d != capacity %d", capResp.Total, capacity)
		}
	}
	for _, n := range tryCounts {
		resp, err := env.Plugin.CalculateDeploy(bg, node, n, ac.Req.raw())
		c.Eval()
		if prop == "C07" {
			if capacity != math.MaxInt {
				if n <= capacity && err != nil {
					viol("capacity-not-accepted", "reported capacity %d but allocating %d fails: %v", capacity, n, err)
				}
				if n == capacity+1 && err == nil {
					viol("more-than-capacity-accepted", "reported capacity %d but allocating %d succeeds", capacity, n)
				}
			} else if err != nil {
				viol("unlimited-not-accepted", "unlimited capacity but allocating %d fails: %v", n, err)
			}
		}
		if err != nil {
			continue
		}
		if prop != "C04" {
			continue
		}
		if len(resp.WorkloadsResource) != n || len(resp.EnginesParams) != n {
			viol("wrong-instance-count", "asked %d instances, got %d resources / %d engine params", n, len(resp.WorkloadsResource), len(resp.EnginesParams))
			continue
		}
		used := make([]int, len(st.Cap))
		numaMem := map[string]int64{}
		bad := false
		for _, raw := range resp.WorkloadsResource {
			w, err := parseWR(raw)
			if err != nil {
				c.HarnessError("parse workload resource: %v", err)
				return
			}
			for id, p := range w.CPUMap {
				var ci int
				fmt.Sscan(id, &ci)
				if ci < 0 || ci >= len(used) || p < 0 {
					viol("unknown-core", "instance uses core %q pieces %d", id, p)
					bad = true
					continue
				}
				used[ci] += p
				if w.NUMANode != "" && (len(st.NUMA) == 0 || st.NUMA[ci] != w.NUMANode) {
					viol("numa-foreign-core", "instance on NUMA node %s uses core %s of node %q", w.NUMANode, id, st.NUMA[ci])
					bad = true
				}
			}
			if w.NUMANode != "" {
				numaMem[w.NUMANode] += w.MemoryRequest
			}
			if ac.Req.Bind && len(w.CPUMap) == 0 {
				viol("bound-without-cores", "bound instance got no cores")
				bad = true
			}
		}
		for i := range used {
			if used[i] > free[i] {
				viol("core-overcommit", "core %d given %d pieces, %d free (count %d)", i, used[i], free[i], n)
				bad = true
				break
			}
		}
		for id, m := range numaMem {
			if m > st.NMemCap[id]-st.NMemUse[id] {
				viol("numa-memory-overcommit", "NUMA node %s given %d memory, %d free (count %d)", id, m, st.NMemCap[id]-st.NMemUse[id], n)
				bad = true
			}
		}
		if effMem > 0 && int64(n)*effMem > freeMem {
			viol("memory-overcommit", "%d instances x %d memory > free %d", n, effMem, freeMem)
			bad = true
		}
		_ = effCPU
		// commit the allocation (as the manager's Alloc does) for the largest accepted count and for 1
		if !bad && (n == capacity || n == 1 || capacity == math.MaxInt) {
			env.SetNodeRaw(node, info)
			wrs := make([]plugintypes.WorkloadResource, 0, n)
			for _, raw := range resp.WorkloadsResource {
				wrs = append(wrs, raw)
			}
			_, err := env.Plugin.SetNodeResourceUsage(bg, node, nil, nil, wrs, true, true)
			c.Eval()
			if err != nil {
				viol("commit-rejected", "committing an accepted allocation of %d fails: %v", n, err)
			} else if after, ok := env.GetNodeRaw(node); ok {
				if err := after.DeepCopy().Validate(); err != nil {
					viol("invalid-after-commit", "state after commit is rejected by the plugin: %v", err)
				}
				if after.Usage.Memory > after.Capacity.Memory && effMem > 0 {
					viol("memory-overcommit", "memory usage %d > capacity %d after committing %d instances", after.Usage.Memory, after.Capacity.Memory, n)
				}
			}
			env.SetNodeRaw(node, info)
		}
		if c.WantSample() && n == capacity && capacity > 1 && st.hasNUMA() {
			c.Sample(map[string]any{"case": ac, "capacity": capacity, "instances": resp.WorkloadsResource})
		}
	}
	if prop == "C07" {
		allocC07Extra(c, env, ac, info, capacity, viol)
	}
}

// allocC07Extra: memory-only k-step decrease, and the manager-level total over node sets
// containing an unlimited node (repeated because the manager sums in map order).
func allocC07Extra(c *vcore.Ctx, env *world.PluginEnv, ac *allocCase, info *cpumemtypes.NodeResourceInfo, capacity int, viol func(sig, f string, a ...any)) {
	const node = "n"
	_, effMem := ac.Req.effective()
	if !ac.Req.Bind && capacity != math.MaxInt && capacity >= 1 && effMem > 0 {
		for k := 1; k <= capacity && k <= 2; k++ {
			env.SetNodeRaw(node, info)
			resp, err := env.Plugin.CalculateDeploy(bg, node, k, ac.Req.raw())
			if err != nil {
				continue
			}
			wrs := make([]plugintypes.WorkloadResource, 0, k)
			for _, raw := range resp.WorkloadsResource {
				wrs = append(wrs, raw)
			}
			if _, err := env.Plugin.SetNodeResourceUsage(bg, node, nil, nil, wrs, true, true); err != nil {
				continue
			}
			c2, err := env.Plugin.GetNodesDeployCapacity(bg, []string{node}, ac.Req.raw())
			c.Eval()
			if err != nil {
				continue
			}
			got := 0
			if nc, ok := c2.NodeDeployCapacityMap[node]; ok {
				got = nc.Capacity
			}
			if got != capacity-k {
				viol("memory-only-decrease", "capacity %d, after allocating %d it is %d (want %d)", capacity, k, got, capacity-k)
			}
		}
		env.SetNodeRaw(node, info)
	}
	// manager level: this node plus an unlimited node (memory request 0 is the only unlimited case, so
	// only when this request is itself unlimited) or plus a second copy; total must be the saturating sum.
	other := &nState{Cap: []int{ac.Base, ac.Base}, Use: []int{0, 0}, MemCap: 100, MemUse: 0}
	env.SetNodeRaw("m", other.info())
	defer env.Srv.DeleteRaw(world.NodeKey("m"))
	pr, err := env.Plugin.GetNodesDeployCapacity(bg, []string{node, "m"}, ac.Req.raw())
	if err != nil {
		return
	}
	want := 0
	for _, nc := range pr.NodeDeployCapacityMap {
		if nc.Capacity == math.MaxInt || want == math.MaxInt || want+nc.Capacity < want {
			want = math.MaxInt
		} else {
			want += nc.Capacity
		}
	}
	if pr.Total != want {
		viol("plugin-total", "plugin total %d != saturating sum %d", pr.Total, want)
	}
	for rep := 0; rep < 8; rep++ {
		mr, total, err := env.Mgr.GetNodesDeployCapacity(bg, []string{node, "m"}, resourcetypes.Resources{"cpumem": ac.Req.raw()})
		c.Eval()
		if err != nil {
			if len(pr.NodeDeployCapacityMap) > 0 {
				viol("manager-error", "manager fails where the plugin offers nodes: %v", err)
			}
			return
		}
		if total != want {
			viol("manager-total", "manager total %d != saturating sum %d (offered %d nodes)", total, want, len(mr))
			return
		}
		for name, nc := range pr.NodeDeployCapacityMap {
			if m, ok := mr[name]; !ok || m.Capacity != nc.Capacity {
				viol("manager-capacity", "manager capacity for %s differs from the plugin's %d", name, nc.Capacity)
				return
			}
		}
	}
}
