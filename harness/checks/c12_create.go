package checks

import (
	"context"
	"fmt"
	"os"
	"strings"
	"testing"

	cpumemtypes "github.com/projecteru2/core/resource/plugins/cpumem/types"
	resourcetypes "github.com/projecteru2/core/resource/types"

	"verif/harness/vcore"
	"verif/harness/world"
)

// C12: deployment results are complete and truthful. Every create request of the alphabet is
// run from three pre-states, fault-free and once per intercepted step with that step failing;
// the message stream and the resulting state are checked against the statement.

func init() {
	register(Meta{ID: "C12", Level: "fault_enumeration", BudgetQuick: 240, BudgetThor: 2400, GoMaxProcs: 2},
		func(t *testing.T, c *vcore.Ctx) { c12Explore(t, c) })
}

type c12Case struct {
	Pre   []wOp      `json:"pre_history"`
	Op    wOp        `json:"request"`
	Fault *faultSpec `json:"fault,omitempty"`
}

func c12Explore(t *testing.T, c *vcore.Ctx) {
	dir := os.Getenv("VERIF_TMP")
	if dir == "" {
		dir = t.TempDir()
	}
	b := world.NewBackend(dir, false)
	defer b.Close()
	snap0, err := initialCluster(t, b)
	if err != nil {
		c.HarnessError("initial cluster: %v", err)
		return
	}
	c.SetRule("create requests: strategy {AUTO,FILL,EACH,GLOBAL,DRAINED} x count x node filter {whole pod, include [n1], include [n2,n1,n1], exclude [n1]} x resources {memory-only, bound 1.0, infeasible} from pre-states {empty cluster, one workload present, node n1 full}; each run fault-free and once per intercepted step (etcd request, engine call, WAL write) with that step failing; " +
		"non-trivial = distinct (pre-state, request, failing step) with the fault delivered, plus distinct fault-free requests that planned at least one instance")
	c.Assume("etcd is the in-memory model memetcd (conformance-checked); engines are the stateful fakev engines; a failing step has no effect, all other steps succeed")
	pres := [][]wOp{
		{},
		{{Kind: "create", Strategy: "AUTO", Count: 1, Req: "mem"}},
		{{Kind: "create", Strategy: "AUTO", Count: 2, Req: "bind1", Include: []string{"n1"}}},
	}
	counts := []int{1, 2}
	filters := []wOp{{}, {Include: []string{"n2", "n1", "n1"}}}
	if c.Thorough() {
		counts = []int{1, 2, 3}
		filters = []wOp{{}, {Include: []string{"n1"}}, {Include: []string{"n2", "n1", "n1"}}, {Node: "exclude-n1"}}
	}
	c.Bound("counts", counts)
	c.Bound("filters", len(filters))
	if c.Replay != nil {
		var cc c12Case
		if err := jsonUnmarshal(c.Replay, &cc); err != nil {
			c.HarnessError("replay: %v", err)
			return
		}
		b.Restore(snap0)
		snap, view := snap0, b.View(false)
		for _, op := range cc.Pre {
			b.Restore(snap)
			_, _, view, _ = worldStep(t, b, op, view, nil, 7)
			snap = b.Save()
		}
		c12One(t, c, b, snap, view, &cc)
		return
	}
	var idx int64
	for _, pre := range pres {
		b.Restore(snap0)
		snap, view := snap0, b.View(false)
		for _, op := range pre {
			b.Restore(snap)
			_, _, view, _ = worldStep(t, b, op, view, nil, 7)
			snap = b.Save()
		}
		for _, st := range []string{"AUTO", "FILL", "EACH", "GLOBAL", "DRAINED"} {
			for _, cnt := range counts {
				for _, fl := range filters {
					for _, rq := range []string{"mem", "bind1", "huge"} {
						idx++
						if !c.Mine(idx) {
							continue
						}
						if c.Expired() {
							c.CapHit("budget reached")
							return
						}
						op := wOp{Kind: "create", Strategy: st, Count: cnt, Req: rq, Include: fl.Include, Node: fl.Node}
						cc := &c12Case{Pre: pre, Op: op}
						steps := c12One(t, c, b, snap, view, cc)
						for _, f := range stepList(steps) {
							f := f
							if c.Expired() {
								c.CapHit("budget reached during fault enumeration")
								return
							}
							fc := &c12Case{Pre: pre, Op: op, Fault: &f}
							c12One(t, c, b, snap, view, fc)
						}
					}
				}
			}
		}
	}
}

// c12One runs one create (optionally with a fault) from the given pre-state and checks it.
func c12One(t *testing.T, c *vcore.Ctx, b *world.Backend, snap *world.Snap, pre *world.View, cc *c12Case) []string {
	// a panic in a goroutine of the repository's own ends the worker: the driver reports it for this case
	c.Journal("C12/process-crashed-during-deployment", cc)
	defer c.JournalDone()
	b.Restore(snap)
	var res wResult
	capacity := map[string]int{}
	op := cc.Op
	tr := wexec(t, b, world.InstanceOpts{}, cc.Fault, 11,
		func(ctx context.Context, inst *world.Instance) {
			// reported capacity in the pre-state (hook-free: the interceptor only sees labelled steps, and a
			// read does not change the state) — used for the per-node capacity clause
			res = runOp(ctx, inst, op, pre)
		}, nil)
	post := b.View(false)
	c.Eval()
	c.Exec()
	viol := func(sig, f string, a ...any) {
		cls := "no-fault"
		if cc.Fault != nil {
			cls = faultLayer(&wCase{Fault: cc.Fault})
		}
		c.Violate("C12/"+cls+"/"+sig, fmt.Sprintf(f, a...)+" | case="+vcore.JSON(cc)+" result="+vcore.JSON(res), cc)
	}
	if cc.Fault != nil && !tr.Delivered {
		c.Outcome("fault-not-delivered")
		return tr.Steps
	}
	_ = capacity
	if tr.Deadlock != "" || !res.Closed {
		viol("stream-never-closes", "the result stream did not close: %s", firstLine(tr.Deadlock))
		return tr.Steps
	}
	c.Outcome(op.Strategy + ":" + res.summary())
	key := vcore.JSON(cc)
	okIDs := map[string]wItem{}
	nOK, nFail := 0, 0
	for _, it := range res.Items {
		if it.OK {
			nOK++
			okIDs[it.ID] = it
		} else {
			nFail++
		}
	}
	if cc.Fault != nil || nOK > 0 {
		c.Nontrivial(key)
	}
	if c.WantSample() && cc.Fault != nil && nOK > 0 && nFail > 0 {
		c.Sample(map[string]any{"case": cc, "result": res})
	}
	// message count
	n := len(res.Items)
	if res.Err != "" {
		n = 0
	}
	single := n == 1 && nFail == 1
	if res.Err == "" && !single {
		switch op.Strategy {
		case "AUTO", "GLOBAL", "DRAINED":
			if n != op.Count {
				viol("wrong-message-count", "%d messages for %d planned instances", n, op.Count)
			}
		case "EACH":
			if n == 0 || n%op.Count != 0 {
				viol("wrong-message-count", "EACH with %d per node produced %d messages", op.Count, n)
			}
		default:
			if n == 0 {
				viol("wrong-message-count", "no message at all")
			}
		}
	}
	preC, postC := containerIDs(pre), containerIDs(post)
	// successes are truthful
	for id, it := range okIDs {
		rec, ok := post.Workloads[id]
		if !ok {
			viol("success-not-recorded", "success names workload %s which is not recorded", short(id))
			continue
		}
		ct, ok := postC[id]
		if !ok || !ct.Running {
			viol("success-not-started", "success names workload %s whose container is missing or not running", short(id))
			continue
		}
		if rec.Node != it.Node || ct.Node != it.Node {
			viol("success-on-other-node", "workload %s reported on %s, recorded on %s, container on %s", short(id), it.Node, rec.Node, ct.Node)
		}
		want := &cpumemtypes.WorkloadResource{}
		if raw, ok := it.Res["cpumem"]; ok {
			_ = want.Parse(raw)
		}
		if vcore.JSON(want) != vcore.JSON(rec.Res) {
			viol("success-resources-differ", "workload %s reported resources %s, recorded %s", short(id), vcore.JSON(want), vcore.JSON(rec.Res))
		}
		// the container was created with the reported engine params (a later remap of unbound workloads is C32's subject)
		if canonRes(ct.Created) != canonRes(it.EP) {
			viol("success-engine-params-differ", "workload %s reported engine params %s, container was created with %s", short(id), canonRes(it.EP), canonRes(ct.Created))
		}
	}
	// failures leave nothing behind
	for id, w := range post.Workloads {
		if _, was := pre.Workloads[id]; !was {
			if _, ok := okIDs[id]; !ok {
				viol("failure-left-a-record", "workload %s on %s is recorded but was not reported as a success", short(id), w.Node)
			}
		}
	}
	for id, ct := range postC {
		if _, was := preC[id]; !was {
			if _, ok := okIDs[id]; !ok {
				viol("failure-left-a-container", "container %s on %s exists but was not reported as a success", short(id), ct.Node)
			}
		}
	}
	for nname := range post.Nodes {
		if d := post.CompareUsage(nname); len(d) > 0 {
			viol("failure-holds-resources", "node %s: %s", nname, strings.Join(d, "; "))
			break
		}
	}
	// nothing that existed before is touched
	for id, w := range pre.Workloads {
		if pw, ok := post.Workloads[id]; !ok || pw.RawValue != w.RawValue {
			viol("other-workload-changed", "pre-existing workload %s changed", short(id))
		}
	}
	return tr.Steps
}

func short(id string) string {
	if len(id) > 8 {
		return id[:8]
	}
	return id
}

func canonRes(r resourcetypes.Resources) string {
	// through JSON so that numeric types compare by value
	m := map[string]any{}
	_ = jsonUnmarshal([]byte(vcore.JSON(r)), &m)
	return vcore.JSON(m)
}
