package checks

import (
	"context"
	"fmt"
	"os"
	"sort"
	"strings"
	"testing"
	"time"

	"github.com/projecteru2/core/discovery/helium"
	coretypes "github.com/projecteru2/core/types"

	"verif/harness/vcore"
	"verif/harness/world"
)

// C27: service discovery subscribers converge to the registered set (etcd store). The real
// helium.Helium runs over the real Mercury.ServiceStatusStream; a registrar thread registers
// and deregisters core addresses through the real RegisterService; a prompt and a slow
// subscriber subscribe, read and unsubscribe. All interleavings of the threads' scheduling
// points (the registrar's and helium's backend requests, the subscribers' actions) are explored.

func init() {
	register(Meta{ID: "C27", Level: "model_checking", BudgetQuick: 240, BudgetThor: 1800, GoMaxProcs: 2},
		func(t *testing.T, c *vcore.Ctx) { c27Explore(t, c) })
}

const pushInterval = time.Second

type c27Case struct {
	Slow      bool  `json:"slow_subscriber"`
	LateSub   bool  `json:"subscribe_after_changes"`
	Leaver    bool  `json:"leaving_subscriber,omitempty"`
	Bound     int   `json:"preemption_bound"`
	Choices   []int `json:"choices,omitempty"`
}

type subMsg struct {
	at    time.Duration
	addrs []string
}

type c27Obs struct {
	lastChange time.Duration
	msgs       map[string][]subMsg
	readUntil  map[string]time.Duration
	unsubOK    map[string]bool
	closed     map[string]bool
	cancelH    context.CancelFunc
	h          *helium.Helium
}

func getC27(x *schedRun) *c27Obs {
	x.mu.Lock()
	defer x.mu.Unlock()
	if o, ok := x.Data["c27"].(*c27Obs); ok {
		return o
	}
	o := &c27Obs{msgs: map[string][]subMsg{}, readUntil: map[string]time.Duration{}, unsubOK: map[string]bool{}, closed: map[string]bool{}, lastChange: -1}
	hctx, cancel := context.WithCancel(world.WithThread(context.Background(), "H"))
	o.cancelH = cancel
	inst := x.Insts[0]
	o.h = helium.New(hctx, inst.Cfg.GRPCConfig, inst.Store)
	x.Data["c27"] = o
	return o
}

func subscriber(name string, slow bool, startDelay time.Duration) schedThread {
	return schedThread{Name: name, Run: func(ctx context.Context, x *schedRun) {
		o := getC27(x)
		if startDelay > 0 {
			time.Sleep(startDelay)
		}
		x.Yield(name, "subscribe")
		sctx, cancel := context.WithCancel(ctx)
		defer cancel()
		id, ch := o.h.Subscribe(sctx)
		x.Event("%s subscribed", name)
		end := 9 * time.Second
		for x.Now() < end {
			if slow {
				time.Sleep(1500 * time.Millisecond)
			}
			select {
			case st, ok := <-ch:
				if !ok {
					x.mu.Lock()
					o.closed[name] = true
					x.mu.Unlock()
					return
				}
				addrs := append([]string{}, st.Addresses...)
				sort.Strings(addrs)
				x.mu.Lock()
				o.msgs[name] = append(o.msgs[name], subMsg{at: x.Now(), addrs: addrs})
				x.mu.Unlock()
			case <-time.After(end - x.Now() + time.Millisecond):
			}
		}
		x.mu.Lock()
		o.readUntil[name] = x.Now()
		x.mu.Unlock()
		x.Yield(name, "unsubscribe")
		// keep draining while unsubscribing, as calcium.WatchServiceStatus's consumer (a gRPC stream) does
		done := make(chan struct{})
		go func() {
			o.h.Unsubscribe(id)
			close(done)
		}()
		for {
			select {
			case _, ok := <-ch:
				if !ok {
					x.mu.Lock()
					o.closed[name] = true
					x.mu.Unlock()
					ch = nil
				}
			case <-done:
				x.mu.Lock()
				o.unsubOK[name] = true
				x.mu.Unlock()
				if ch != nil {
					select {
					case _, ok := <-ch:
						if !ok {
							x.mu.Lock()
							o.closed[name] = true
							x.mu.Unlock()
						}
					case <-time.After(3 * pushInterval):
					}
				}
				x.Event("%s unsubscribed", name)
				return
			case <-time.After(30 * time.Second):
				x.Event("%s: Unsubscribe still blocked after 30 s", name)
				return
			}
		}
	}}
}

// leaver is a subscriber that goes away the way an RPC client does: its context is cancelled, it
// stops reading at once, and Unsubscribe is called later by somebody else (calcium.WatchServiceStatus
// hands it to a pool goroutine, which may be late) - here after one and a half push intervals, so
// that at least one dispatch happens while the gone subscriber is still in the table.
func leaver(name string) schedThread {
	return schedThread{Name: name, Run: func(ctx context.Context, x *schedRun) {
		o := getC27(x)
		x.Yield(name, "subscribe")
		sctx, cancel := context.WithCancel(ctx)
		id, ch := o.h.Subscribe(sctx)
		x.Event("%s subscribed", name)
		end := 1200 * time.Millisecond
		for x.Now() < end {
			select {
			case st, ok := <-ch:
				if !ok {
					x.mu.Lock()
					o.closed[name] = true
					x.mu.Unlock()
					cancel()
					return
				}
				addrs := append([]string{}, st.Addresses...)
				sort.Strings(addrs)
				x.mu.Lock()
				o.msgs[name] = append(o.msgs[name], subMsg{at: x.Now(), addrs: addrs})
				x.mu.Unlock()
			case <-time.After(end - x.Now() + time.Millisecond):
			}
		}
		cancel()
		x.mu.Lock()
		o.readUntil[name] = x.Now()
		x.mu.Unlock()
		x.Event("%s: context cancelled, no longer reading", name)
		time.Sleep(pushInterval + pushInterval/2)
		x.Yield(name, "unsubscribe")
		done := make(chan struct{})
		go func() {
			o.h.Unsubscribe(id)
			close(done)
		}()
		select {
		case <-done:
			x.mu.Lock()
			o.unsubOK[name] = true
			x.mu.Unlock()
			select {
			case _, ok := <-ch:
				if !ok {
					x.mu.Lock()
					o.closed[name] = true
					x.mu.Unlock()
				}
			case <-time.After(3 * pushInterval):
			}
			x.Event("%s unsubscribed", name)
		case <-time.After(30 * time.Second):
			x.Event("%s: Unsubscribe still blocked after 30 s", name)
		}
	}}
}

func c27Scenario(cc *c27Case) *schedScenario {
	sc := &schedScenario{Name: "discovery", Opts: world.InstanceOpts{NoWAL: true}, Horizon: 3 * time.Minute, Quantum: 500 * time.Millisecond, ExtraNames: []string{"H"}}
	sc.Threads = append(sc.Threads, schedThread{Name: "Reg", Run: func(ctx context.Context, x *schedRun) {
		o := getC27(x)
		st := x.Inst("Reg").Store
		mark := func() {
			x.mu.Lock()
			o.lastChange = x.Now()
			x.mu.Unlock()
		}
		_, unA, err := st.RegisterService(ctx, "10.0.0.1:5001", 6*time.Second)
		if err != nil {
			x.Event("register a failed: %v", err)
			return
		}
		mark()
		x.Event("registered a")
		_, unB, err := st.RegisterService(ctx, "10.0.0.2:5001", 6*time.Second)
		if err != nil {
			x.Event("register b failed: %v", err)
			unA()
			return
		}
		mark()
		x.Event("registered b")
		time.Sleep(500 * time.Millisecond)
		unA()
		mark()
		x.Event("deregistered a")
		// b stays registered until the subscribers are done
		time.Sleep(12 * time.Second)
		unB()
	}})
	delay := time.Duration(0)
	if cc.LateSub {
		delay = 2 * time.Second
	}
	sc.Threads = append(sc.Threads, subscriber("S1", false, delay))
	if cc.Slow {
		sc.Threads = append(sc.Threads, subscriber("S2", true, 0))
	}
	if cc.Leaver {
		sc.Threads = append(sc.Threads, leaver("S3"))
	}
	// heartbeats of the registrations are not scheduling points (they do not change the set)
	sc.Control = func(thread string, s world.Step) bool {
		return !(s.Layer == "etcd" && (s.Kind == "keepalive"))
	}
	sc.Finally = func(x *schedRun) {
		o := getC27(x)
		o.cancelH()
	}
	return sc
}

func c27Explore(t *testing.T, c *vcore.Ctx) {
	dir := os.Getenv("VERIF_TMP")
	if dir == "" {
		dir = t.TempDir()
	}
	c.SetRule("registrar (register a, register b, deregister a, keep b) + prompt subscriber (subscribing at once or after the changes) + optional slow reader (one read per 1.5 s) or leaving subscriber (context cancelled at 1.2 s, stops reading at once, Unsubscribe called 1.5 s later) on the real helium over the real etcd ServiceStatusStream, push interval 1 s; all interleavings of the scheduling points within the preemption bound; non-trivial = schedules in which a subscriber received at least two different address sets")
	c.Assume("the watch is registered synchronously in memetcd; the real client's asynchronous watch registration is outside what is explored")
	b := world.NewBackend(dir, false)
	defer b.Close()
	if c.Replay != nil {
		var cc c27Case
		if err := jsonUnmarshal(c.Replay, &cc); err != nil {
			c.HarnessError("replay: %v", err)
			return
		}
		x := runSchedule(t, b, c27Scenario(&cc), cc.Choices)
		c.Eval()
		c27Check(c, &cc, x, cc.Choices)
		return
	}
	bound := 2
	if c.Thorough() {
		bound = 3
	}
	c.Bound("preemption_bound_completed", bound)
	for _, cc := range []c27Case{{Bound: bound}, {LateSub: true, Bound: bound}, {Slow: true, Bound: bound - 1}, {Slow: true, LateSub: true, Bound: bound - 1}, {Leaver: true, Bound: bound - 1}} {
		cc := cc
		if c.Expired() {
			c.CapHit("budget reached")
			return
		}
		st := exploreSchedules(t, c, b, c27Scenario(&cc), cc.Bound, func(x *schedRun, choices []int) { c27Check(c, &cc, x, choices) })
		if !st.Complete {
			c.CapHit("budget reached inside a scenario")
		}
		c.AddStates(int64(st.Executions))
		c.AddTransitions(int64(st.Executions * (st.MaxPoints + 1)))
	}
}

func c27Check(c *vcore.Ctx, cc *c27Case, x *schedRun, choices []int) {
	o := getC27(x)
	rc := *cc
	rc.Choices = choices
	viol := func(sig, f string, a ...any) {
		cls := "prompt-readers-only"
		if cc.Slow {
			cls = "with-slow-reader"
		}
		if cc.Leaver {
			cls = "with-leaving-subscriber"
		}
		c.Violate("C27/"+cls+"/"+sig, fmt.Sprintf(f, a...)+" | scenario="+vcore.JSON(cc)+" events="+fmt.Sprint(x.Events), rc)
	}
	if x.Stuck != "" {
		viol("thread-never-returns", "%s", firstLine(x.Stuck))
		return
	}
	x.mu.Lock()
	defer x.mu.Unlock()
	want := []string{"10.0.0.2:5001"}
	names := []string{"S1"}
	if cc.Slow {
		names = append(names, "S2")
	}
	if cc.Leaver {
		names = append(names, "S3")
	}
	distinct := 0
	for _, n := range names {
		if _, ok := o.readUntil[n]; !ok {
			continue
		}
		if !o.unsubOK[n] {
			viol("unsubscribe-does-not-complete", "%s: Unsubscribe did not return", n)
		} else if !o.closed[n] {
			viol("channel-not-closed", "%s: the subscriber's channel was not closed by Unsubscribe", n)
		}
		seen := map[string]bool{}
		gotLate := false
		for _, m := range o.msgs[n] {
			seen[strings.Join(m.addrs, ",")] = true
			// received at least one push interval after the last change (and the subscriber reads promptly)
			if o.lastChange >= 0 && m.at >= o.lastChange+pushInterval+pushInterval/2 {
				gotLate = true
				if strings.Join(m.addrs, ",") != strings.Join(want, ",") && n == "S1" {
					viol("stale-address-set", "%s received %v at %v, the registered set has been %v since %v", n, m.addrs, m.at, want, o.lastChange)
					break
				}
			}
		}
		if len(seen) > distinct {
			distinct = len(seen)
		}
		if n == "S1" && o.lastChange >= 0 && o.readUntil[n] > o.lastChange+3*pushInterval && !gotLate {
			viol("no-push-after-change", "%s read until %v but received nothing later than one push interval after the last change at %v", n, o.readUntil[n], o.lastChange)
		}
	}
	c.Outcome(fmt.Sprintf("slow=%v late=%v distinct-sets=%d", cc.Slow, cc.LateSub, distinct))
	if distinct >= 2 {
		c.Nontrivial(vcore.JSON(rc))
		if c.WantSample() {
			c.Sample(map[string]any{"scenario": cc, "events": x.Events, "messages_S1": len(o.msgs["S1"])})
		}
	}
}

var _ = coretypes.ServiceStatus{}
