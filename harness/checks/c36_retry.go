package checks

import (
	"context"
	"errors"
	"fmt"
	"io"
	"net"
	"runtime"
	"strings"
	"sync"
	"testing"
	"testing/synctest"
	"time"

	"github.com/projecteru2/core/client/interceptor"
	pb "github.com/projecteru2/core/rpc/gen"

	"google.golang.org/grpc"
	"google.golang.org/grpc/codes"
	"google.golang.org/grpc/credentials/insecure"
	"google.golang.org/grpc/metadata"
	"google.golang.org/grpc/status"
	"google.golang.org/grpc/test/bufconn"

	"verif/harness/vcore"
)

// C36: client watch streams retry transparently (engine E3 inside a synctest bubble).
//
// The stream interceptor returned by interceptor.NewStreamRetry(RetryOptions{Max}) is invoked
// directly with a scripted grpc.Streamer (no transport): the streamer hands out scripted
// grpc.ClientStreams, each delivering k messages and then ending with io.EOF or a transport
// error (status Unavailable), or it fails at open. The caller does what generated
// server-streaming client code does: SendMsg(req) once, CloseSend, then RecvMsg until an error.
// Everything runs in a synctest bubble, so the interceptor's back-off sleeps are virtual.
//
// Oracle (from the property sentence; where the sentence is silent nothing is flagged, the
// behaviour is only counted as an outcome):
//   * messages: what the caller receives is the concatenation, in order, without gaps or
//     repeats, of the scripted messages of the successive streams that were opened;
//   * request: every (re)opened stream sees the ORIGINAL request exactly once;
//   * cancellation: after the caller cancelled its context the streamer is never invoked again;
//   * non-watch methods: exactly one stream, its messages and its end (error or EOF) unchanged;
//   * budget: the error surfaces after a bounded run of consecutive fruitless reopen attempts.
//     The sentence does not say whether "budget Max" counts attempts or retries of an attempt nor
//     whether it is reset by a delivered message, so the check accepts both: never more than
//     Max+1 consecutive fruitless reopen attempts (budget-exceeded), never fewer than Max reopen
//     attempts in total before a transport error is surfaced (gave-up-early).
//   Silent (outcomes only): whether a clean EOF is retried, whether a failure of the very first
//   open is retried, whether a reopened stream is half-closed, which error finally surfaces.

func init() {
	register(Meta{ID: "C36", Level: "fault_enumeration", ShardsQuick: 16, ShardsThor: 16, BudgetQuick: 100, BudgetThor: 900, GoMaxProcs: 1},
		func(t *testing.T, c *vcore.Ctx) { retryEnum(t, c) })
}

// the methods the property calls "watched status streams" (full gRPC method names), and one
// streaming method that is not a watch
var (
	rsWatchMethods   = []string{"/pb.CoreRPC/WorkloadStatusStream", "/pb.CoreRPC/WatchServiceStatus"}
	rsNonWatchMethod = "/pb.CoreRPC/LogStream"
)

type rsStream struct {
	K   int    `json:"k"`
	End string `json:"end"` // eof | err (status Unavailable) | cerr (status Canceled sent by the server while the caller is alive) | openfail
}

type rsCase struct {
	Method  string     `json:"method"`
	Max     int        `json:"max"`
	Script  []rsStream `json:"script"`            // stream i of the script answers the i-th open; later opens fail (Unavailable)
	Cancel  string     `json:"cancel"`            // never | before-recv | after-msg | backoff
	At      int        `json:"at,omitempty"`      // after-msg: after the At-th delivered message; backoff: 1ms after the At-th fruitless reopen attempt
	Flavour string     `json:"flavour,omitempty"` // what a stream reports once its context is cancelled: status (as grpc does) | ctx (bare context.Canceled)
}

type rsMsg struct{ ID string }

// per-stream alphabet, simplest first
var rsAlphabet = []rsStream{{0, "eof"}, {0, "err"}, {0, "openfail"}, {1, "eof"}, {1, "err"}, {2, "eof"}, {2, "err"}, {0, "cerr"}, {1, "cerr"}}

func rsIsWatch(m string) bool {
	for _, w := range rsWatchMethods {
		if w == m {
			return true
		}
	}
	return false
}

// ---- the scripted transport -------------------------------------------------------------

type rsRun struct {
	cs     *rsCase
	ctx    context.Context
	cancel context.CancelFunc
	req    *rsMsg
	desc   *grpc.StreamDesc

	mu             sync.Mutex
	opens          []*rsOpen // every streamer invocation made with a live context
	afterCancel    int       // streamer invocations made with a cancelled context
	fruitless      int       // fruitless reopen attempts so far (drives cancel=backoff)
	inRecv         bool
	cancelledInRcv bool // the cancellation happened while the caller was blocked in RecvMsg
	cancelFired    bool
	runaway        bool
	wrongMethod    string
	wg             sync.WaitGroup

	delivered []string
	firstErr  error // error returned by the interceptor itself (open)
	finalErr  error // error that ended the RecvMsg loop
	sendErr   error
	nilStream bool
	dupGuard  bool
}

type rsOpen struct {
	idx    int
	spec   rsStream
	failed bool // open failed
	err    error
	st     *rsClientStream
}

type rsClientStream struct {
	run        *rsRun
	idx        int
	spec       rsStream
	handed     int
	ended      bool
	endErr     error
	sends      []string
	closeSends int
}

func (s *rsClientStream) Header() (metadata.MD, error) { return metadata.MD{}, nil }
func (s *rsClientStream) Trailer() metadata.MD         { return metadata.MD{} }
func (s *rsClientStream) Context() context.Context     { return s.run.ctx }
func (s *rsClientStream) CloseSend() error             { s.closeSends++; return nil }

func (s *rsClientStream) SendMsg(m any) error {
	switch {
	case m == any(s.run.req):
		s.sends = append(s.sends, "REQ")
	default:
		if x, ok := m.(*rsMsg); ok && x != nil && *x == *s.run.req {
			s.sends = append(s.sends, "REQ") // an equal copy is still the original request
		} else {
			s.sends = append(s.sends, fmt.Sprintf("other(%T %v)", m, m))
		}
	}
	return nil
}

func (r *rsRun) cancelErr() error {
	if r.cs.Flavour == "ctx" {
		return r.ctx.Err()
	}
	return status.FromContextError(r.ctx.Err()).Err() // what grpc's clientStream reports
}

func (s *rsClientStream) RecvMsg(m any) error {
	if s.run.ctx.Err() != nil {
		return s.run.cancelErr()
	}
	if s.handed < s.spec.K {
		s.handed++
		if p, ok := m.(*rsMsg); ok {
			p.ID = fmt.Sprintf("s%dm%d", s.idx, s.handed)
		}
		return nil
	}
	if !s.ended {
		s.ended = true
		if s.idx >= 1 && s.handed == 0 {
			s.run.fruitlessAttempt()
		}
	}
	return s.endErr
}

func (r *rsRun) doCancel() {
	r.mu.Lock()
	if !r.cancelFired {
		r.cancelFired = true
		r.cancelledInRcv = r.inRecv
	}
	r.mu.Unlock()
	r.cancel()
}

func (r *rsRun) fruitlessAttempt() {
	r.fruitless++
	if r.cs.Cancel == "backoff" && r.fruitless == r.cs.At {
		r.wg.Add(1)
		go func() {
			defer r.wg.Done()
			time.Sleep(time.Millisecond) // virtual; every back-off interval is >= 250ms
			r.doCancel()
		}()
	}
}

func (r *rsRun) streamer(ctx context.Context, desc *grpc.StreamDesc, _ *grpc.ClientConn, method string, _ ...grpc.CallOption) (grpc.ClientStream, error) {
	if method != r.cs.Method || desc != r.desc {
		r.wrongMethod = method
	}
	if ctx.Err() != nil {
		// grpc refuses to start an attempt on a dead context (clientStream.newAttemptLocked)
		r.afterCancel++
		return nil, status.FromContextError(ctx.Err()).Err()
	}
	if len(r.opens) >= len(r.cs.Script)+r.cs.Max+4 {
		r.runaway = true
		runtime.Goexit() // stop a caller that would reopen for ever
	}
	idx := len(r.opens)
	spec := rsStream{0, "openfail"}
	if idx < len(r.cs.Script) {
		spec = r.cs.Script[idx]
	}
	o := &rsOpen{idx: idx, spec: spec}
	r.opens = append(r.opens, o)
	if spec.End == "openfail" {
		o.failed = true
		o.err = status.Errorf(codes.Unavailable, "open %d refused", idx)
		if idx >= 1 {
			r.fruitlessAttempt()
		}
		return nil, o.err
	}
	st := &rsClientStream{run: r, idx: idx, spec: spec}
	switch spec.End {
	case "eof":
		st.endErr = io.EOF
	case "cerr":
		// the far side (handler, proxy, RST_STREAM(CANCEL)) ends the stream with status Canceled; the caller has not cancelled
		st.endErr = status.Errorf(codes.Canceled, "stream %d cancelled by the server", idx)
	default:
		st.endErr = status.Errorf(codes.Unavailable, "stream %d broke", idx)
	}
	o.st = st
	return st, nil
}

// caller is the application side: what generated server-streaming client code does.
func (r *rsRun) caller(icpt grpc.StreamClientInterceptor) {
	cs, err := icpt(r.ctx, r.desc, nil, r.cs.Method, r.streamer)
	r.firstErr = err
	if err != nil {
		return
	}
	if cs == nil {
		r.nilStream = true
		return
	}
	if err := cs.SendMsg(r.req); err != nil {
		r.sendErr = err
		return
	}
	if err := cs.CloseSend(); err != nil {
		r.sendErr = err
		return
	}
	if r.cs.Cancel == "before-recv" {
		r.doCancel()
	}
	total := 0
	for _, s := range r.cs.Script {
		total += s.K
	}
	for {
		m := &rsMsg{}
		r.mu.Lock()
		r.inRecv = true
		r.mu.Unlock()
		err := cs.RecvMsg(m)
		r.mu.Lock()
		r.inRecv = false
		r.mu.Unlock()
		if err != nil {
			r.finalErr = err
			return
		}
		r.delivered = append(r.delivered, m.ID)
		if len(r.delivered) > total+2 {
			r.dupGuard = true
			return
		}
		if r.cs.Cancel == "after-msg" && len(r.delivered) == r.cs.At {
			r.doCancel()
		}
	}
}

func rsExecute(t *testing.T, cs *rsCase) *rsRun {
	var run *rsRun
	synctest.Test(t, func(t *testing.T) {
		ctx, cancel := context.WithCancel(context.Background())
		run = &rsRun{cs: cs, ctx: ctx, cancel: cancel, req: &rsMsg{ID: "original-request"},
			desc: &grpc.StreamDesc{StreamName: cs.Method[strings.LastIndex(cs.Method, "/")+1:], ServerStreams: true}}
		icpt := interceptor.NewStreamRetry(interceptor.RetryOptions{Max: cs.Max})
		done := make(chan struct{})
		go func() {
			defer close(done)
			run.caller(icpt)
		}()
		<-done
		run.wg.Wait()
		cancel()
	})
	return run
}

// ---- the oracle -------------------------------------------------------------------------

func rsErrClass(err error) string {
	switch {
	case err == nil:
		return "nil"
	case err == io.EOF:
		return "EOF"
	case errors.Is(err, context.Canceled):
		return "context.Canceled"
	}
	if st, ok := status.FromError(err); ok {
		return "status:" + st.Code().String()
	}
	return fmt.Sprintf("%T", err)
}

func (r *rsRun) trace() string {
	var b strings.Builder
	for _, o := range r.opens {
		if o.failed {
			fmt.Fprintf(&b, "[open%d refused]", o.idx)
			continue
		}
		fmt.Fprintf(&b, "[open%d k=%d/%d %s sends=%v closeSend=%d]", o.idx, o.st.handed, o.spec.K, o.spec.End, o.st.sends, o.st.closeSends)
	}
	return fmt.Sprintf("opens=%s opens_after_cancel=%d delivered=%v open_err=%v final_err=%v", b.String(), r.afterCancel, r.delivered, r.firstErr, r.finalErr)
}

func retryOne(t *testing.T, c *vcore.Ctx, cs *rsCase) {
	c.Eval()
	c.Exec()
	r := rsExecute(t, cs)
	watch := rsIsWatch(cs.Method)
	viol := func(sig, f string, a ...any) {
		cp := *cs
		cp.Script = append([]rsStream{}, cs.Script...)
		c.Violate("C36/"+sig, fmt.Sprintf(f, a...)+" | case="+vcore.JSON(cp)+" "+r.trace(), cp)
	}
	if r.sendErr != nil || r.nilStream {
		c.HarnessError("C36: scripted stream refused a send or the interceptor returned neither stream nor error: %s %s", vcore.JSON(cs), r.trace())
		return
	}
	if r.wrongMethod != "" {
		viol("reopened-with-different-call", "the streamer was invoked for %q / another descriptor", r.wrongMethod)
	}

	cancelled := r.cancelFired
	// what the scripted streams handed out, in the order they were opened
	var want []string
	fullyRead := true
	lastDelivering, lastOK := 0, -1
	for i, o := range r.opens {
		if !o.failed {
			lastOK = i
		}
	}
	for i, o := range r.opens {
		if o.failed {
			continue
		}
		for j := 1; j <= o.st.handed; j++ {
			want = append(want, fmt.Sprintf("s%dm%d", o.idx, j))
		}
		if o.st.handed > 0 {
			lastDelivering = o.idx
		}
		// a stream may be left half-read only if it is the one the caller cancelled
		if o.st.handed < o.spec.K && (i != lastOK || !cancelled) {
			fullyRead = false
		}
	}

	// outcomes (behaviour the sentence is silent about)
	switch {
	case r.firstErr != nil && len(r.opens) == 1:
		c.Outcome("first-open-failed:surfaced-without-retry")
	case r.firstErr != nil:
		c.Outcome("first-open-failed:retried")
	}
	if watch && !cancelled {
		for _, o := range r.opens {
			if !o.failed && o.spec.End == "eof" && o.st.ended {
				if o.idx < len(r.opens)-1 {
					c.Outcome("clean-EOF:reopened")
				} else {
					c.Outcome("clean-EOF:surfaced")
				}
			}
			if !o.failed && o.idx >= 1 {
				if o.st.closeSends == 0 {
					c.Outcome("reopened-stream:not-half-closed")
				} else {
					c.Outcome("reopened-stream:half-closed")
				}
			}
		}
	}
	if r.firstErr == nil {
		kind := "non-watch"
		if watch {
			kind = "watch"
		}
		c.Outcome(fmt.Sprintf("%s:cancel=%s:final=%s", kind, cs.Cancel, rsErrClass(r.finalErr)))
	}

	// ---- clauses ----
	if r.runaway {
		viol("budget-exceeded", "the interceptor kept reopening (%d opens for a script of %d streams, Max=%d); stopped by the harness", len(r.opens), len(cs.Script), cs.Max)
		return
	}
	if r.dupGuard {
		viol("message-duplicated", "more messages delivered than all scripted streams contain")
		return
	}
	if r.afterCancel > 0 {
		cause := "cancel-error-from-stream-not-recognised/" + cs.Flavour
		if cs.Cancel == "backoff" {
			cause = "during-backoff"
		}
		viol("retried-after-cancel/"+cause, "the caller had cancelled its context, yet the streamer was invoked %d more time(s)", r.afterCancel)
	}
	if !watch {
		if len(r.opens)+r.afterCancel != 1 {
			viol("non-watch-retried", "a method that is not a watch stream was opened %d times", len(r.opens)+r.afterCancel)
			return
		}
		o := r.opens[0]
		if o.failed {
			if r.firstErr != o.err {
				viol("non-watch-altered", "open error %v surfaced as %v", o.err, r.firstErr)
			}
			return
		}
		if r.firstErr != nil {
			viol("non-watch-altered", "open succeeded but the interceptor reported %v", r.firstErr)
			return
		}
		if strings.Join(r.delivered, ",") != strings.Join(want, ",") || !fullyRead {
			viol("message-lost", "non-watch stream: delivered %v, stream handed out %v of %d", r.delivered, want, o.spec.K)
		}
		if !cancelled && r.finalErr != o.st.endErr {
			viol("non-watch-altered", "stream ended with %v but the caller saw %v", o.st.endErr, r.finalErr)
		}
		if vcore.JSON(o.st.sends) != `["REQ"]` {
			viol("request-not-forwarded", "the only stream saw sends=%v", o.st.sends)
		}
		if o.spec.K > 0 || cancelled {
			c.Nontrivial(vcore.JSON(cs))
		}
		return
	}

	// watch methods
	if r.firstErr != nil {
		// failure of the very first open: the sentence speaks of a stream that breaks; only the bound applies
		if len(r.opens) > cs.Max+2 {
			viol("budget-exceeded", "first open failed and %d opens were made with Max=%d", len(r.opens), cs.Max)
		}
		return
	}
	for _, o := range r.opens {
		if o.failed {
			continue
		}
		switch {
		case len(o.st.sends) == 0 && o.idx == 0:
			viol("request-not-forwarded", "the first stream never saw the request")
		case len(o.st.sends) == 0:
			viol("request-not-resent", "reopened stream %d never saw the request", o.idx)
		case len(o.st.sends) > 1:
			viol("request-resent-twice", "stream %d saw %d sends: %v", o.idx, len(o.st.sends), o.st.sends)
		case o.st.sends[0] != "REQ":
			viol("request-not-resent", "stream %d saw %s instead of the original request", o.idx, o.st.sends[0])
		}
	}
	got, exp := strings.Join(r.delivered, ","), strings.Join(want, ",")
	switch {
	case got == exp && fullyRead:
	case got == exp:
		viol("message-lost", "a stream was abandoned before its scripted messages were read")
	case len(r.delivered) < len(want) && strings.HasPrefix(exp, got):
		viol("message-lost", "streams handed out %v, caller received %v", want, r.delivered)
	default:
		viol("message-order", "streams handed out %v, caller received %v", want, r.delivered)
	}
	// consecutive fruitless reopen attempts at the end
	trailing := len(r.opens) - 1 - lastDelivering
	if trailing > cs.Max+1 {
		viol("budget-exceeded", "%d consecutive fruitless reopen attempts with Max=%d", trailing, cs.Max)
	}
	if !cancelled {
		if r.finalErr == nil {
			c.HarnessError("RecvMsg loop ended without error: %s", vcore.JSON(cs))
			return
		}
		reopens := len(r.opens) - 1
		if r.finalErr != io.EOF && reopens < cs.Max {
			viol("gave-up-early", "error %v surfaced after only %d reopen attempt(s), budget Max=%d", r.finalErr, reopens, cs.Max)
		}
	}

	// non-trivial: the stream broke and was reopened at least once, or a cancellation took effect
	if (cs.Cancel == "never" && len(r.opens) >= 2) || (cancelled && (cs.Cancel != "backoff" || r.cancelledInRcv)) {
		c.Nontrivial(vcore.JSON(cs))
	}
	if c.WantSample() && len(r.opens) >= 3 && len(r.delivered) >= 2 && !rsSampled[cs.Cancel] && (cs.Cancel == "never" || cancelled) {
		rsSampled[cs.Cancel] = true
		c.Sample(map[string]any{"case": cs, "delivered": r.delivered, "opens": len(r.opens), "opens_after_cancel": r.afterCancel,
			"final_error": fmt.Sprint(r.finalErr), "trace": r.trace()})
	}
}

var rsSampled = map[string]bool{}

// ---- the enumeration --------------------------------------------------------------------

func retryEnum(t *testing.T, c *vcore.Ctx) {
	c.SetRule("method in {/pb.CoreRPC/WorkloadStatusStream, /pb.CoreRPC/WatchServiceStatus, /pb.CoreRPC/LogStream (not a watch)} x Max in {0,1,2,3} (thorough: also 4) x every server script of 1..Max+2 streams " +
		"(non-watch: 1..2) over {k in 0,1,2 messages then EOF | transport error (status Unavailable)} + {k in 0,1 messages then status Canceled sent by the server while the caller is alive} + {open refused} (nothing is enumerated after a refused first open; opens beyond the script are refused) " +
		"x caller cancellation in {never, before the first RecvMsg, after the i-th delivered message (every i up to the script's total), 1ms into the back-off after the j-th fruitless reopen attempt (j in 1..Max+1)} " +
		"x what a stream reports once cancelled {grpc status Canceled, bare context.Canceled}; the interceptor is called directly with a scripted grpc.Streamer inside a synctest bubble; " +
		"non-trivial = at least one reopen happened or a cancellation took effect before the call ended; distinct by full case")
	c.Assume("the scripted streamer refuses to open on a cancelled context with status Canceled, as grpc's clientStream.newAttemptLocked does; every such invocation is still counted as a reopen attempt")
	c.Assume("budget: both readings of Max (attempts vs. retries, reset on delivery or not) are accepted; see the header of c36_retry.go")
	maxes := []int{0, 1, 2, 3}
	if c.Thorough() {
		maxes = []int{0, 1, 2, 3, 4}
	}
	c.Bound("max_retries", maxes)
	c.Bound("messages_per_stream", []int{0, 1, 2})
	c.Bound("script_length", "1..Max+2")

	if c.Replay != nil {
		var sm rsSmokeCase
		if err := jsonUnmarshal(c.Replay, &sm); err == nil && sm.Smoke {
			retrySmokeOne(t, c, &sm)
			return
		}
		var cs rsCase
		if err := jsonUnmarshal(c.Replay, &cs); err != nil {
			c.HarnessError("replay: %v", err)
			return
		}
		retryOne(t, c, &cs)
		return
	}
	// the allow-list the interceptor uses must be the watch methods of the property
	if c.Shard == 0 {
		for m := range interceptor.RPCNeedRetry {
			if !rsIsWatch(m) {
				c.Note("interceptor.RPCNeedRetry also lists %s, which the check does not exercise", m)
			}
		}
	}

	methods := append(append([]string{}, rsWatchMethods...), rsNonWatchMethod)
	var idx int64
	for _, max := range maxes {
		for _, method := range methods {
			maxLen := max + 2
			if !rsIsWatch(method) {
				maxLen = 2
			}
			for L := 1; L <= maxLen; L++ {
				script := make([]rsStream, L)
				var rec func(i int) bool
				rec = func(i int) bool {
					if i == L {
						mine := c.Mine(idx) // the simplest case goes to shard 0
						idx++
						if !mine {
							return true
						}
						if c.Expired() {
							c.CapHit(fmt.Sprintf("budget reached at Max=%d method=%s script length %d", max, method, L))
							return false
						}
						retryVariants(t, c, method, max, script)
						return true
					}
					for _, a := range rsAlphabet {
						if i == 1 && script[0].End == "openfail" {
							return true // nothing after a refused first open is ever reached by a caller
						}
						script[i] = a
						if !rec(i + 1) {
							return false
						}
					}
					return true
				}
				if !rec(0) {
					return
				}
			}
		}
	}
	if c.Shard == 0 {
		retrySmoke(t, c)
	}
}

func retryVariants(t *testing.T, c *vcore.Ctx, method string, max int, script []rsStream) {
	if len(script) > 1 && script[0].End == "openfail" {
		return
	}
	mk := func(cancel string, at int, fl string) {
		cs := &rsCase{Method: method, Max: max, Script: append([]rsStream{}, script...), Cancel: cancel, At: at, Flavour: fl}
		retryOne(t, c, cs)
	}
	mk("never", 0, "")
	if script[0].End == "openfail" {
		return
	}
	total := 0
	for i, s := range script {
		if s.End == "openfail" {
			continue
		}
		if !rsIsWatch(method) && i > 0 {
			break
		}
		total += s.K
	}
	for _, fl := range []string{"status", "ctx"} {
		mk("before-recv", 0, fl)
		for at := 1; at <= total; at++ {
			mk("after-msg", at, fl)
		}
	}
	if rsIsWatch(method) {
		for at := 1; at <= max+1; at++ {
			mk("backoff", at, "status")
		}
	}
}

// ---- bufconn smoke: five scripts end-to-end over a real transport ------------------------
//
// A real grpc.Server (pb.CoreRPC, WorkloadStatusStream) that breaks its streams as scripted, a
// real ClientConn with the retry interceptor chained in front of a probe interceptor, the
// generated client code as the caller; all inside a synctest bubble so that the back-off is
// virtual. It ties the seam used above to the transport: the real run must deliver the same
// messages and open the same number of streams as the scripted run of the same script, the
// server must see the original request on every stream, and the flavour of the error a
// cancelled real stream reports is recorded (it is the "status" flavour of the enumeration).

type rsSmokeServer struct {
	pb.UnimplementedCoreRPCServer
	mu      sync.Mutex
	script  []rsStream
	started int      // streams that reached the server (before the request is read)
	reqs    []string // request seen by the handler of each stream
}

func (s *rsSmokeServer) intercept(srv any, ss grpc.ServerStream, _ *grpc.StreamServerInfo, h grpc.StreamHandler) error {
	s.mu.Lock()
	s.started++
	s.mu.Unlock()
	return h(srv, ss)
}

func (s *rsSmokeServer) WorkloadStatusStream(o *pb.WorkloadStatusStreamOptions, st pb.CoreRPC_WorkloadStatusStreamServer) error {
	s.mu.Lock()
	idx := len(s.reqs)
	s.reqs = append(s.reqs, o.Appname+"/"+o.Entrypoint)
	spec := rsStream{0, "err"} // beyond the script every stream breaks at once
	if idx < len(s.script) {
		spec = s.script[idx]
	}
	s.mu.Unlock()
	for j := 1; j <= spec.K; j++ {
		if err := st.Send(&pb.WorkloadStatusStreamMessage{Id: fmt.Sprintf("s%dm%d", idx, j)}); err != nil {
			return err
		}
	}
	switch spec.End {
	case "eof":
		return nil
	case "hold":
		<-st.Context().Done()
		return st.Context().Err()
	case "cerr":
		return status.Errorf(codes.Canceled, "stream %d cancelled by the server", idx)
	}
	return status.Errorf(codes.Unavailable, "stream %d broke", idx)
}

type rsProbe struct {
	mu           sync.Mutex
	invocations  int
	afterCancel  int
	recvErrAfter string // class of the error a real stream reported once the caller had cancelled
}

type rsProbeStream struct {
	grpc.ClientStream
	p   *rsProbe
	ctx context.Context
}

func (s *rsProbeStream) RecvMsg(m any) error {
	err := s.ClientStream.RecvMsg(m)
	if err != nil && s.ctx.Err() != nil {
		s.p.mu.Lock()
		if s.p.recvErrAfter == "" {
			s.p.recvErrAfter = fmt.Sprintf("%s (%T)", rsErrClass(err), err)
			if err == context.Canceled {
				s.p.recvErrAfter = "bare context.Canceled"
			}
		}
		s.p.mu.Unlock()
	}
	return err
}

func (p *rsProbe) intercept(ctx context.Context, desc *grpc.StreamDesc, cc *grpc.ClientConn, method string, streamer grpc.Streamer, opts ...grpc.CallOption) (grpc.ClientStream, error) {
	p.mu.Lock()
	p.invocations++
	if ctx.Err() != nil {
		p.afterCancel++
	}
	p.mu.Unlock()
	st, err := streamer(ctx, desc, cc, method, opts...)
	if err != nil {
		return st, err
	}
	return &rsProbeStream{ClientStream: st, p: p, ctx: ctx}, nil
}

type rsSmokeCase struct {
	Smoke       bool       `json:"smoke"`
	Max         int        `json:"max"`
	Script      []rsStream `json:"script"`
	CancelAfter int        `json:"cancel_after_msg,omitempty"`
}

func retrySmoke(t *testing.T, c *vcore.Ctx) {
	cases := []rsSmokeCase{
		{true, 1, []rsStream{{2, "err"}, {1, "eof"}}, 0},
		{true, 1, []rsStream{{0, "err"}, {2, "err"}}, 0},
		{true, 1, []rsStream{{1, "eof"}, {0, "eof"}, {1, "err"}}, 0},
		{true, 2, []rsStream{{0, "err"}}, 0},
		{true, 1, []rsStream{{1, "cerr"}, {2, "eof"}}, 0},
		{true, 1, []rsStream{{1, "hold"}}, 1},
	}
	for i := range cases {
		retrySmokeOne(t, c, &cases[i])
	}
}

func retrySmokeOne(t *testing.T, c *vcore.Ctx, sc *rsSmokeCase) {
	c.Eval()
	c.Exec()
	srvImpl := &rsSmokeServer{script: sc.Script}
	probe := &rsProbe{}
	var delivered []string
	var finalErr, openErr error
	synctest.Test(t, func(t *testing.T) {
		lis := bufconn.Listen(1 << 16)
		srv := grpc.NewServer(grpc.StreamInterceptor(srvImpl.intercept))
		pb.RegisterCoreRPCServer(srv, srvImpl)
		srvDone := make(chan struct{})
		go func() { defer close(srvDone); _ = srv.Serve(lis) }()
		conn, err := grpc.Dial("passthrough:///c36",
			grpc.WithTransportCredentials(insecure.NewCredentials()),
			grpc.WithContextDialer(func(ctx context.Context, _ string) (net.Conn, error) { return lis.DialContext(ctx) }),
			grpc.WithChainStreamInterceptor(interceptor.NewStreamRetry(interceptor.RetryOptions{Max: sc.Max}), probe.intercept))
		if err != nil {
			openErr = err
			return
		}
		// virtual-time liveness guard only
		ctx, cancel := context.WithTimeout(context.Background(), 10*time.Minute)
		cl, err := pb.NewCoreRPCClient(conn).WorkloadStatusStream(ctx, &pb.WorkloadStatusStreamOptions{Appname: "original", Entrypoint: "request"})
		if err != nil {
			openErr = err
		} else {
			for {
				m, err := cl.Recv()
				if err != nil {
					finalErr = err
					break
				}
				delivered = append(delivered, m.Id)
				if sc.CancelAfter > 0 && len(delivered) == sc.CancelAfter {
					cancel()
				}
				if len(delivered) > 64 {
					break
				}
			}
		}
		cancel()
		_ = conn.Close()
		srv.Stop()
		<-srvDone
		_ = lis.Close()
	})
	if openErr != nil {
		c.HarnessError("C36 smoke %s: could not open: %v", vcore.JSON(sc), openErr)
		return
	}
	if status.Code(finalErr) == codes.DeadlineExceeded || errors.Is(finalErr, context.DeadlineExceeded) {
		// the call stalled until the virtual liveness deadline
		srvImpl.mu.Lock()
		started, nreq := srvImpl.started, len(srvImpl.reqs)
		srvImpl.mu.Unlock()
		if started > nreq {
			// deterministic in virtual time: a stream reached the server, no request ever followed, both sides waited
			c.Violate("C36/request-not-resent", fmt.Sprintf("bufconn smoke: %d streams reached the server but only %d carried a request; the call stalled until the virtual liveness deadline | case=%s delivered=%v",
				started, nreq, vcore.JSON(sc), delivered), sc)
			return
		}
		c.HarnessError("C36 smoke %s: did not complete: final=%v", vcore.JSON(sc), finalErr)
		return
	}
	// the same script through the scripted seam
	model := &rsCase{Method: rsWatchMethods[0], Max: sc.Max, Cancel: "never"}
	for _, s := range sc.Script {
		if s.End == "hold" {
			s.End = "err"
		}
		model.Script = append(model.Script, s)
	}
	if sc.CancelAfter > 0 {
		model.Cancel, model.At, model.Flavour = "after-msg", sc.CancelAfter, "status"
	}
	mr := rsExecute(t, model)
	srvImpl.mu.Lock()
	started, reqs := srvImpl.started, append([]string{}, srvImpl.reqs...)
	srvImpl.mu.Unlock()
	obs := fmt.Sprintf("real: delivered=%v server_streams=%d requests=%v client_streamer_invocations=%d (after cancel %d) final=%v recv_error_after_cancel=%q | scripted: delivered=%v opens=%d after_cancel=%d final=%v",
		delivered, started, reqs, probe.invocations, probe.afterCancel, finalErr, probe.recvErrAfter, mr.delivered, len(mr.opens), mr.afterCancel, mr.finalErr)
	c.Outcome("smoke:final=" + rsErrClass(finalErr))
	c.Nontrivial("smoke:" + vcore.JSON(sc))
	if c.WantSample() && (sc.CancelAfter > 0 || len(sc.Script) == 3) {
		c.Sample(map[string]any{"smoke_case": sc, "observed": obs})
	}
	viol := func(sig, msg string) {
		c.Violate("C36/"+sig, "bufconn smoke: "+msg+" | case="+vcore.JSON(sc)+" "+obs, sc)
	}
	if strings.Join(delivered, ",") != strings.Join(mr.delivered, ",") || probe.invocations != len(mr.opens)+mr.afterCancel || probe.afterCancel != mr.afterCancel {
		c.HarnessError("C36 smoke: the real transport and the scripted seam disagree: %s %s", vcore.JSON(sc), obs)
	}
	var want []string
	for i := 0; i < started && i < len(sc.Script); i++ {
		for j := 1; j <= sc.Script[i].K; j++ {
			want = append(want, fmt.Sprintf("s%dm%d", i, j))
		}
	}
	if strings.Join(delivered, ",") != strings.Join(want, ",") {
		viol("message-lost", fmt.Sprintf("server streams handed out %v", want))
	}
	if len(reqs) != started {
		viol("request-not-resent", fmt.Sprintf("%d streams reached the server but only %d carried a request", started, len(reqs)))
	}
	for _, r := range reqs {
		if r != "original/request" {
			viol("request-not-resent", "a stream carried "+r+" instead of the original request")
		}
	}
	if sc.CancelAfter > 0 {
		c.Note("bufconn smoke: a real grpc client stream whose context was cancelled reports %s; streamer invocations after the cancellation: %d; streams that reached the server: %d", probe.recvErrAfter, probe.afterCancel, started)
		if probe.afterCancel > 0 {
			viol("retried-after-cancel/cancel-error-from-stream-not-recognised/status", fmt.Sprintf("the caller had cancelled, yet the streamer was invoked %d more time(s) (refused by grpc before reaching the server)", probe.afterCancel))
		}
	}
}
