package checks

import (
	"context"
	"fmt"
	"sort"
	"strings"
	"testing"
	"time"

	"github.com/projecteru2/core/selfmon"
	coretypes "github.com/projecteru2/core/types"

	"verif/harness/vcore"
	"verif/harness/world"
)

// C26, second part: the other registrant named by the statement, the active node-status
// watcher. Two real selfmon.NodeStatusWatcher instances contend for /selfmon/active through
// their real withActiveLock (etcd store). The lease behind the active one's registration is
// revoked at 5 s (at every scheduling point around it); long after the other watcher has taken
// over (and more than two heartbeat periods after the revocation) a node's heartbeat status is
// deleted. A watcher "believes it holds the key" while it acts on node-status events; at most
// one of the two may act on that event.

type c26wObs struct {
	eventAt time.Duration
	acted   map[string][]string // watcher thread -> writes it issued after the event
}

func getC26w(x *schedRun) *c26wObs {
	x.mu.Lock()
	defer x.mu.Unlock()
	if o, ok := x.Data["c26w"].(*c26wObs); ok {
		return o
	}
	o := &c26wObs{eventAt: -1, acted: map[string][]string{}}
	x.Data["c26w"] = o
	return o
}

func c26wScenario(cc *c26Case, snap *world.Snap) *schedScenario {
	sc := &schedScenario{Name: "active-watcher", Snap: snap, Opts: world.InstanceOpts{NoWAL: true}, Horizon: 10 * time.Minute, Quantum: time.Second, AllDeviations: true}
	eventAt, end := 40*time.Second, 70*time.Second
	sc.Threads = append(sc.Threads, schedThread{Name: "Agent", Run: func(ctx context.Context, x *schedRun) {
		o := getC26w(x)
		inst := x.Inst("Agent")
		n1, n2 := &coretypes.Node{NodeMeta: coretypes.NodeMeta{Name: "n1", Podname: "p"}}, &coretypes.Node{NodeMeta: coretypes.NodeMeta{Name: "n2", Podname: "p"}}
		_ = inst.Store.SetNodeStatus(ctx, n1, 300)
		_ = inst.Store.SetNodeStatus(ctx, n2, 300)
		reportWorkloads(ctx, inst, x.B)
		for x.Now() < eventAt {
			time.Sleep(time.Second)
		}
		x.mu.Lock()
		o.eventAt = x.Now()
		x.mu.Unlock()
		_ = inst.Store.SetNodeStatus(ctx, n1, -1)
		x.Event("agent deleted n1's heartbeat status")
	}})
	watcher := func(name string, id int64, delay time.Duration) schedThread {
		return schedThread{Name: name, Run: func(ctx context.Context, x *schedRun) {
			inst := x.Inst(name)
			time.Sleep(delay)
			wctx, cancel := context.WithCancel(ctx)
			w := selfmon.NewWatcherForVerif(id, inst.Cfg, inst.Cal, inst.Store)
			done := make(chan struct{})
			go func() { w.RunForVerif(wctx); close(done) }()
			x.Event("%s started", name)
			for x.Now() < end {
				time.Sleep(time.Second)
			}
			cancel()
			<-done
		}}
	}
	sc.Threads = append(sc.Threads, watcher("WA", 1, 0), watcher("WB", 2, 2*time.Second))
	if cc.Revoke {
		sc.Threads = append(sc.Threads, schedThread{Name: "F", Run: func(ctx context.Context, x *schedRun) {
			time.Sleep(5 * time.Second)
			x.Yield("F", "revoke-lease-of-active-key")
			for _, e := range x.B.Etcd.Dump("") {
				if strings.HasSuffix(e.Key, selfmon.ActiveKey) && e.Lease != 0 {
					x.B.Etcd.RevokeLease(e.Lease)
					x.Event("F revoked the lease behind %s (registered by %s)", selfmon.ActiveKey, e.Creator)
				}
			}
		}})
	}
	// scheduling points: writes and everything that touches the active key; the watchers' reads of
	// nodes and statuses run with the step that follows them
	sc.Control = func(thread string, s world.Step) bool {
		if s.Layer == "etcd" && (s.Kind == "ttl" || s.Kind == "grant") {
			return false
		}
		return s.Write || strings.Contains(s.Key, selfmon.ActiveKey) || s.Kind == "keepalive" || s.Kind == "revoke"
	}
	sc.OnRelease = func(x *schedRun, thread, label string) {
		if thread != "WA" && thread != "WB" {
			return
		}
		if strings.Contains(label, selfmon.ActiveKey) || strings.HasPrefix(label, "etcd.keepalive") || strings.HasPrefix(label, "etcd.revoke") || strings.HasPrefix(label, "etcd.grant") || strings.HasPrefix(label, "etcd.ttl") {
			return
		}
		if !(strings.HasPrefix(label, "etcd.txn") || strings.HasPrefix(label, "etcd.put") || strings.HasPrefix(label, "etcd.delete")) {
			return
		}
		o := getC26w(x)
		x.mu.Lock()
		defer x.mu.Unlock()
		if o.eventAt >= 0 && x.Now() >= o.eventAt {
			o.acted[thread] = append(o.acted[thread], label)
		}
	}
	return sc
}

func c26wExplore(t *testing.T, c *vcore.Ctx, b *world.Backend, replay *c26Case) {
	snap, err := c28Setup(t, b)
	if err != nil {
		c.HarnessError("watcher part setup: %v", err)
		return
	}
	if replay != nil {
		x := runSchedule(t, b, c26wScenario(replay, snap), replay.Choices)
		c.Eval()
		c26wCheck(c, replay, x, replay.Choices)
		return
	}
	bound := 1
	if c.Thorough() {
		bound = 2
	}
	c.Bound("watcher_part_deviation_bound_completed", bound)
	for _, cc := range []c26Case{{Backend: "etcd", Watchers: true, Revoke: true, Bound: bound}, {Backend: "etcd", Watchers: true, Bound: bound}} {
		cc := cc
		if c.Expired() {
			c.CapHit("budget reached in the watcher part")
			return
		}
		st := exploreSchedules(t, c, b, c26wScenario(&cc, snap), cc.Bound, func(x *schedRun, choices []int) { c26wCheck(c, &cc, x, choices) })
		if !st.Complete {
			c.CapHit("budget reached inside a watcher scenario")
		}
		if st.Diverged > 0 {
			c.Note("watchers %s: %d replays diverged", vcore.JSON(cc), st.Diverged)
		}
		c.AddStates(int64(st.Executions))
		c.AddTransitions(int64(st.Executions * (st.MaxPoints + 1)))
	}
}

func c26wCheck(c *vcore.Ctx, cc *c26Case, x *schedRun, choices []int) {
	rc := *cc
	rc.Choices = choices
	viol := func(sig, f string, a ...any) {
		c.Violate("C26/etcd/active-watcher/"+sig, fmt.Sprintf(f, a...)+" | scenario="+vcore.JSON(cc)+" events="+fmt.Sprint(x.Events), rc)
	}
	if x.Stuck != "" {
		viol("watcher-never-returns", "%s", firstLine(x.Stuck))
		return
	}
	o := getC26w(x)
	x.mu.Lock()
	defer x.mu.Unlock()
	var who []string
	for w := range o.acted {
		who = append(who, w)
	}
	sort.Strings(who)
	c.Outcome(fmt.Sprintf("watchers revoke=%v acting=%v", cc.Revoke, who))
	if len(who) > 1 {
		viol("two-active-watchers", "both watchers acted on the node-status event at %v (%d and %d writes): the one whose registration lapsed was not stopped", o.eventAt, len(o.acted[who[0]]), len(o.acted[who[1]]))
	}
	if cc.Revoke && len(who) > 0 {
		c.Nontrivial("watchers|" + vcore.JSON(rc))
		if c.WantSample() {
			c.Sample(map[string]any{"scenario": cc, "events": x.Events, "acting": who})
		}
	}
}
