package checks

import (
	"context"
	"fmt"
	"math"
	"sort"
	"strings"
	"testing"

	dockertypes "github.com/docker/docker/api/types"
	dockercontainer "github.com/docker/docker/api/types/container"
	dockernetwork "github.com/docker/docker/api/types/network"
	dockerapi "github.com/docker/docker/client"
	ocispec "github.com/opencontainers/image-spec/specs-go/v1"

	"github.com/projecteru2/core/engine/docker"
	enginetypes "github.com/projecteru2/core/engine/types"
	cpumemtypes "github.com/projecteru2/core/resource/plugins/cpumem/types"
	plugintypes "github.com/projecteru2/core/resource/plugins/types"
	resourcetypes "github.com/projecteru2/core/resource/types"

	"verif/harness/vcore"
	"verif/harness/world"
)

// C31: the container settings the real docker engine hands to the Docker API enforce the
// allocation they came from. Engine params are produced by the real cpumem plugin
// (CalculateDeploy / CalculateRealloc / CalculateRemap) over enumerated node states and
// requests, then pushed through the real docker Engine (VirtualizationCreate and
// VirtualizationUpdateResource) onto a recording dockerapi.APIClient. The captured
// container.Resources is compared with the plugin's own record of the allocation
// (workload_resource: cpu_map, numa_node, cpu_limit, memory_limit).

func init() {
	register(Meta{ID: "C31", Level: "exploration", BudgetQuick: 150, BudgetThor: 1500, GoMaxProcs: 2},
		func(t *testing.T, c *vcore.Ctx) { engineSettingsEnum(c) })
}

const c31MiB = int64(1 << 20)

// recDocker records what the engine sends to the Docker API. The embedded interface is nil:
// any API method the engine calls that is not overridden here panics (caught and reported
// as a harness error, so that a silent stub never hides an engine call).
type recDocker struct {
	dockerapi.APIClient
	ncpu    int
	created []*dockercontainer.HostConfig
	updated []dockercontainer.UpdateConfig
}

func (r *recDocker) DaemonHost() string { return "tcp://10.9.8.7:2376" }

func (r *recDocker) Info(context.Context) (dockertypes.Info, error) {
	return dockertypes.Info{ID: "verif", NCPU: r.ncpu, MemTotal: 100 * c31MiB}, nil
}

func (r *recDocker) ContainerCreate(_ context.Context, _ *dockercontainer.Config, hc *dockercontainer.HostConfig, _ *dockernetwork.NetworkingConfig, _ *ocispec.Platform, name string) (dockercontainer.CreateResponse, error) {
	r.created = append(r.created, hc)
	return dockercontainer.CreateResponse{ID: "id-" + name}, nil
}

func (r *recDocker) ContainerUpdate(_ context.Context, _ string, uc dockercontainer.UpdateConfig) (dockercontainer.ContainerUpdateOKBody, error) {
	r.updated = append(r.updated, uc)
	return dockercontainer.ContainerUpdateOKBody{}, nil
}

type c31Case struct {
	Base     int     `json:"share_base"`
	MaxShare int     `json:"max_share"`
	State    *nState `json:"state"` // memory figures in MiB
	Req      wReq    `json:"request"`
}

// c31Requests: memory figures are MiB (the docker engine refuses limits below 4 MiB).
func c31Requests() []wReq {
	var out []wReq
	mems := [][2]int64{{0, 0}, {30, 0}, {30, 30}, {30, 60}}
	for _, cpu := range []float64{0.3, 0.5, 1, 1.2, 1.5, 2} {
		for _, lim := range []float64{0, cpu} {
			for _, m := range mems {
				out = append(out, wReq{Bind: true, CPU: cpu, CPULimit: lim, Mem: m[0], MemLimit: m[1]})
			}
		}
	}
	for _, cl := range [][2]float64{{0, 0}, {0, 0.5}, {0.5, 0}, {0.3, 0.3}, {0.5, 1.5}, {0, 2}} {
		for _, m := range mems {
			out = append(out, wReq{Bind: false, CPU: cl[0], CPULimit: cl[1], Mem: m[0], MemLimit: m[1]})
		}
	}
	return out
}

func (r wReq) rawMiB() plugintypes.WorkloadResourceRequest {
	q := r
	q.Mem *= c31MiB
	q.MemLimit *= c31MiB
	return q.raw()
}

// c31Deltas are the realloc requests applied to an allocated workload (update path).
type c31Delta struct {
	Name string
	Raw  plugintypes.WorkloadResourceRequest
}

func c31Deltas() []c31Delta {
	return []c31Delta{
		{"keep/mem+10", plugintypes.WorkloadResourceRequest{"keep-cpu-bind": true, "cpu-request": 0.0, "cpu-limit": 0.0, "memory-request": 10 * c31MiB, "memory-limit": 10 * c31MiB}},
		{"keep/cpu+0.5", plugintypes.WorkloadResourceRequest{"keep-cpu-bind": true, "cpu-request": 0.5, "cpu-limit": 0.5, "memory-request": int64(0), "memory-limit": int64(0)}},
		{"unbind", plugintypes.WorkloadResourceRequest{"cpu-bind": false, "cpu-request": 0.0, "cpu-limit": 0.0, "memory-request": int64(0), "memory-limit": int64(0)}},
		{"bind", plugintypes.WorkloadResourceRequest{"cpu-bind": true, "cpu-request": 0.0, "cpu-limit": 0.0, "memory-request": int64(0), "memory-limit": int64(0)}},
	}
}

func scaleMiB(s *nState) *nState {
	o := &nState{Cap: s.Cap, Use: s.Use, MemCap: s.MemCap * c31MiB, MemUse: s.MemUse * c31MiB, NUMA: s.NUMA}
	if s.NMemCap != nil {
		o.NMemCap, o.NMemUse = map[string]int64{}, map[string]int64{}
		for k, v := range s.NMemCap {
			o.NMemCap[k] = v * c31MiB
		}
		for k, v := range s.NMemUse {
			o.NMemUse[k] = v * c31MiB
		}
	}
	return o
}

func engineSettingsEnum(c *vcore.Ctx) {
	c.SetRule("every valid node state (k cores, capacity {1,.5} core, usage {0,.3,.5,1} core, memory usage {0,40}/100 MiB, optional 2-NUMA split with NUMA memory (50,50) and usage {0,30} on node 0 [thorough: also (80,20) and usage on node 1]) x request (bound cpu {.3,.5,1,1.2,1.5,2} x cpu-limit {0,=cpu}; unbound (cpu-request,cpu-limit) in {(0,0),(0,.5),(.5,0),(.3,.3),(.5,1.5),(0,2)}; (memory-request,memory-limit) in {(0,0),(30,0),(30,30),(30,60)} MiB) x share base {100,10}; " +
		"per case: CalculateDeploy of 2 instances (1 if 2 do not fit) -> VirtualizationCreate of each; commit; CalculateRealloc of the first and last instance with {keep-bind memory +10 MiB, keep-bind cpu +0.5, unbind, bind} -> VirtualizationUpdateResource; CalculateRemap of the committed instances and of the unbound result of 'unbind' (after committing it) -> VirtualizationUpdateResource; all through the real docker Engine on a recording API client; " +
		"oracle on the captured container.Resources versus the plugin's workload_resource; non-trivial = an engine call whose settings were checked, distinct by (config,state,request,path)")
	envs := penvCache{}
	defer envs.close()
	if c.Replay != nil {
		var ec c31Case
		if err := jsonUnmarshal(c.Replay, &ec); err != nil {
			c.HarnessError("replay: %v", err)
			return
		}
		c31One(c, envs, &ec)
		return
	}
	maxK := 2
	maxShares := []int{-1}
	if c.Thorough() {
		maxK = 3
		maxShares = []int{-1, 1, 2}
	}
	c.Bound("max_cores", maxK)
	c.Bound("max_share", maxShares)
	reqs := c31Requests()
	var idx int64
	for _, base := range []int{100, 10} {
		for k := 1; k <= maxK; k++ {
			states := enumNodeStates(k, base, []int64{0, 40}, true)
			for _, ms := range maxShares {
				for _, st := range states {
					idx++
					if !c.Mine(idx) {
						continue
					}
					if err := st.info().Validate(); err != nil {
						continue
					}
					// quick tier: one NUMA memory split, NUMA usage on node 0 only (NUMA memory does not reach the engine)
					if !c.Thorough() && st.hasNUMA() && (st.NMemCap["0"] != 50 || st.NMemUse["1"] != 0) {
						continue
					}
					for _, rq := range reqs {
						c31One(c, envs, &c31Case{Base: base, MaxShare: ms, State: st, Req: rq})
					}
					if c.Expired() {
						c.CapHit(fmt.Sprintf("budget reached at base=%d k=%d maxshare=%d", base, k, ms))
						return
					}
				}
			}
		}
	}
}

func c31One(c *vcore.Ctx, envs penvCache, ec *c31Case) {
	defer func() {
		if r := recover(); r != nil {
			c.HarnessError("C31 panic (an un-stubbed Docker API method, or a panic in the code under test): %v | case=%s", r, vcore.JSON(ec))
		}
	}()
	env := envs.get(ec.Base, ec.MaxShare)
	c31Run(c, env, ec)
}

type c31Ctx struct {
	c    *vcore.Ctx
	ec   *c31Case
	env  *world.PluginEnv
	cli  *recDocker
	eng  *docker.Engine
	key  string
	seq  int
	base int
}

func (x *c31Ctx) viol(sig, f string, a ...any) {
	x.c.Violate("C31/"+sig, fmt.Sprintf(f, a...)+" | case="+vcore.JSON(x.ec), x.ec)
}

func cpusetOf(s string) []string {
	if s == "" {
		return nil
	}
	out := strings.Split(s, ",")
	sort.Strings(out)
	return out
}

func sameSet(a, b []string) bool {
	if len(a) != len(b) {
		return false
	}
	for i := range a {
		if a[i] != b[i] {
			return false
		}
	}
	return true
}

func keysOfPieces(m cpumemtypes.CPUMap) []string {
	var ks []string
	for k, p := range m {
		if p > 0 {
			ks = append(ks, k)
		}
	}
	sort.Strings(ks)
	return ks
}

// verify is the oracle. path: "create" (settings passed to ContainerCreate), "update"
// (UpdateConfig after a realloc), "remap" (UpdateConfig after a remap; pool = the share pool).
// w is the allocation as the plugin records it.
func (x *c31Ctx) verify(path, what string, res dockercontainer.Resources, w *cpumemtypes.WorkloadResource, pool []string) {
	x.c.Eval()
	bound := len(w.CPUMap) > 0
	kind := "unbound"
	if bound {
		kind = "bound"
	}
	x.c.Nontrivial(fmt.Sprintf("%s|%s|%s", x.key, path, what))
	x.c.Outcome(path + "/" + kind)
	ctxs := fmt.Sprintf("%s %s: allocation=%s settings={CpusetCpus:%q CpusetMems:%q CPUQuota:%d CPUPeriod:%d CPUShares:%d Memory:%d MemorySwap:%d}",
		path, what, vcore.JSON(w), res.CpusetCpus, res.CpusetMems, res.CPUQuota, res.CPUPeriod, res.CPUShares, res.Memory, res.MemorySwap)

	// Docker's "no CPU quota": at create 0 (unset) or -1; on update only -1 (0 = leave as is).
	unrestricted := func(q int64) bool {
		if path == "create" {
			return q == 0 || q == -1
		}
		return q == -1
	}
	period := res.CPUPeriod
	if period == 0 {
		period = 100000 // Docker's default CFS period
	}
	// signature: create -> C31/<kind>/<clause>; update and remap -> C31/<path>/<kind>-<clause>
	sig := func(k, clause string) string {
		if path == "create" {
			return k + "/" + clause
		}
		return path + "/" + k + "-" + clause
	}
	got := cpusetOf(res.CpusetCpus)
	if bound {
		want := keysOfPieces(w.CPUMap)
		if !sameSet(got, want) {
			x.viol(sig("bound", "cpuset-mismatch"), "bound workload pinned to %v, allocated cores %v; %s", got, want, ctxs)
		}
		if w.NUMANode != "" && res.CpusetMems != w.NUMANode {
			x.viol(sig("bound", "numa-node-mismatch"), "bound workload on NUMA node %q gets CpusetMems %q; %s", w.NUMANode, res.CpusetMems, ctxs)
		}
		if !unrestricted(res.CPUQuota) {
			x.viol(sig("bound", "quota-restricted"), "bound workload gets CPU quota %d (not Docker's unrestricted encoding); %s", res.CPUQuota, ctxs)
		}
		total := 0
		for _, p := range w.CPUMap {
			total += p
		}
		if frag := total % x.base; frag > 0 {
			wantShares := int64(math.Round(1024 * float64(frag) / float64(x.base)))
			if res.CPUShares != wantShares {
				x.viol(sig("bound", "shares-not-proportional"), "bound workload holds a fragment of %d/%d of a core, CPUShares %d, want %d; %s", frag, x.base, res.CPUShares, wantShares, ctxs)
			}
		}
	} else {
		if w.CPULimit > 0 {
			want := w.CPULimit * float64(period)
			if math.Abs(float64(res.CPUQuota)-want) >= 1 {
				clause := "quota-not-limit"
				if path != "create" && res.CPUQuota <= 0 {
					clause = "loses-quota"
				}
				x.viol(sig("unbound", clause), "unbound workload with cpu limit %v gets CPUQuota %d at period %d (want %v); %s", w.CPULimit, res.CPUQuota, period, want, ctxs)
			}
		} else if !unrestricted(res.CPUQuota) {
			x.viol(sig("unbound", "unlimited-quota-encoding"), "unbound workload without cpu limit gets CPUQuota %d (not Docker's unrestricted encoding on %s); %s", res.CPUQuota, path, ctxs)
		}
		if path == "remap" && !sameSet(got, pool) {
			x.viol("remap/cpuset-not-share-pool", "remapped unbound workload gets cpuset %v, share pool is %v; %s", got, pool, ctxs)
		}
	}
	// memory and memory+swap are capped at the memory limit; 0 = unlimited
	if w.MemoryLimit > 0 {
		if res.Memory != w.MemoryLimit || res.MemorySwap != w.MemoryLimit {
			x.viol(sig("memory", "not-limit"), "memory limit %d, settings Memory %d MemorySwap %d; %s", w.MemoryLimit, res.Memory, res.MemorySwap, ctxs)
		}
	} else {
		unl := func(v int64) bool {
			if path == "create" {
				return v == 0 || v == -1
			}
			// on update 0 means "leave unchanged"; unlimited is -1 (the engine writes MaxInt64, which the kernel clamps to unlimited)
			return v == -1 || v == math.MaxInt64
		}
		if !unl(res.Memory) || !unl(res.MemorySwap) {
			x.viol(sig("memory", "unlimited-encoding"), "no memory limit, settings Memory %d MemorySwap %d are not an unlimited encoding on %s; %s", res.Memory, res.MemorySwap, path, ctxs)
		}
	}
	if x.c.WantSample() && x.ec.State.hasNUMA() && (path != "create" && bound && w.NUMANode != "" || path == "remap") {
		x.c.Sample(map[string]any{"case": x.ec, "path": path, "step": what, "allocation": w, "settings": map[string]any{
			"CpusetCpus": res.CpusetCpus, "CpusetMems": res.CpusetMems, "CPUQuota": res.CPUQuota, "CPUPeriod": res.CPUPeriod, "CPUShares": res.CPUShares, "Memory": res.Memory, "MemorySwap": res.MemorySwap}})
	}
}

func (x *c31Ctx) create(what string, ep plugintypes.EngineParams, w *cpumemtypes.WorkloadResource) {
	x.seq++
	n := len(x.cli.created)
	_, err := x.eng.VirtualizationCreate(bg, &enginetypes.VirtualizationCreateOptions{
		EngineParams: resourcetypes.Resources{"cpumem": ep},
		Name:         fmt.Sprintf("w%d", x.seq), Image: "img", Cmd: []string{"true"},
	})
	if err != nil {
		x.c.Eval()
		x.c.Outcome("create-refused-by-engine") // not a settings question; the property does not speak about refusals
		return
	}
	if len(x.cli.created) != n+1 {
		x.c.HarnessError("VirtualizationCreate returned nil without calling ContainerCreate")
		return
	}
	x.verify("create", what, x.cli.created[n].Resources, w, nil)
}

func (x *c31Ctx) update(path, what string, ep plugintypes.EngineParams, w *cpumemtypes.WorkloadResource, pool []string) {
	n := len(x.cli.updated)
	if err := x.eng.VirtualizationUpdateResource(bg, "id-w", resourcetypes.Resources{"cpumem": ep}); err != nil {
		x.c.Eval()
		x.c.Outcome("update-refused-by-engine")
		return
	}
	if len(x.cli.updated) != n+1 {
		x.c.HarnessError("VirtualizationUpdateResource returned nil without calling ContainerUpdate")
		return
	}
	x.verify(path, what, x.cli.updated[n].Resources, w, pool)
}

// sharePool is the property's (C32) definition evaluated on the model: cores with at least one
// full core's worth of free pieces, all cores when there are none.
func sharePool(capP, useP []int, base int) []string {
	var pool, all []string
	for i := range capP {
		all = append(all, fmt.Sprint(i))
		if capP[i]-useP[i] >= base {
			pool = append(pool, fmt.Sprint(i))
		}
	}
	if len(pool) == 0 {
		pool = all
	}
	sort.Strings(pool)
	return pool
}

func c31Run(c *vcore.Ctx, env *world.PluginEnv, ec *c31Case) {
	const node = "n"
	st := scaleMiB(ec.State)
	info := st.info()
	if err := info.DeepCopy().Validate(); err != nil {
		return
	}
	env.SetNodeRaw(node, info)
	cli := &recDocker{ncpu: len(st.Cap)}
	x := &c31Ctx{c: c, ec: ec, env: env, cli: cli, base: ec.Base,
		eng: docker.NewEngineForVerif(cli, env.Config, nil),
		key: fmt.Sprintf("%d/%d/%s/%+v", ec.Base, ec.MaxShare, ec.State.String(), ec.Req)}

	var resp *plugintypes.CalculateDeployResponse
	var err error
	for _, n := range []int{2, 1} {
		resp, err = env.Plugin.CalculateDeploy(bg, node, n, ec.Req.rawMiB())
		if err == nil {
			break
		}
	}
	if err != nil {
		c.Eval()
		c.Outcome("not-allocatable")
		return
	}
	n := len(resp.WorkloadsResource)
	if len(resp.EnginesParams) != n {
		return // C04's subject
	}
	ws := make([]*cpumemtypes.WorkloadResource, n)
	use := append([]int(nil), st.Use...)
	for i := 0; i < n; i++ {
		w, err := parseWR(resp.WorkloadsResource[i])
		if err != nil {
			c.HarnessError("parse workload resource: %v", err)
			return
		}
		ws[i] = w
		x.create(fmt.Sprintf("deploy[%d]", i), resp.EnginesParams[i], w)
		for id, p := range w.CPUMap {
			var ci int
			fmt.Sscan(id, &ci)
			if ci >= 0 && ci < len(use) {
				use[ci] += p
			}
		}
	}
	// commit as the manager's Alloc does
	wrs := make([]plugintypes.WorkloadResource, 0, n)
	for _, raw := range resp.WorkloadsResource {
		wrs = append(wrs, raw)
	}
	if _, err := env.Plugin.SetNodeResourceUsage(bg, node, nil, nil, wrs, true, true); err != nil {
		c.Outcome("commit-refused")
		return
	}
	committed, _ := env.GetNodeRaw(node)

	// remap of the committed instances (only unbound ones are expected back; C32 checks that)
	remapIn := map[string]plugintypes.WorkloadResource{}
	for i := 0; i < n; i++ {
		remapIn[fmt.Sprintf("w%d", i)] = resp.WorkloadsResource[i]
	}
	if rr, err := env.Plugin.CalculateRemap(bg, node, remapIn); err == nil {
		pool := sharePool(st.Cap, use, ec.Base)
		for i := 0; i < n; i++ {
			if ep, ok := rr.EngineParamsMap[fmt.Sprintf("w%d", i)]; ok && len(ws[i].CPUMap) == 0 {
				x.update("remap", fmt.Sprintf("remap[%d]", i), ep, ws[i], pool)
			}
		}
	}

	// realloc of the first and the last instance (the last may be a cross-NUMA plan)
	idxs := []int{0}
	if n > 1 {
		idxs = append(idxs, n-1)
	}
	for _, i := range idxs {
		for _, d := range c31Deltas() {
			env.SetNodeRaw(node, committed)
			r2, err := env.Plugin.CalculateRealloc(bg, node, resp.WorkloadsResource[i], d.Raw)
			if err != nil {
				c.Eval()
				c.Outcome("realloc-refused")
				continue
			}
			w2, err := parseWR(r2.WorkloadResource)
			if err != nil {
				c.HarnessError("parse realloc workload resource: %v", err)
				return
			}
			x.update("update", fmt.Sprintf("realloc[%d] %s", i, d.Name), r2.EngineParams, w2, nil)
			if d.Name != "unbind" || len(ws[i].CPUMap) == 0 || len(w2.CPUMap) != 0 {
				continue
			}
			// a bound workload became unbound: commit the delta, then remap it (calcium's realloc -> remap)
			if _, err := env.Plugin.SetNodeResourceUsage(bg, node, nil, nil, []plugintypes.WorkloadResource{r2.DeltaResource}, true, true); err != nil {
				c.Outcome("realloc-commit-refused")
				continue
			}
			use2 := append([]int(nil), use...)
			for id, p := range ws[i].CPUMap {
				var ci int
				fmt.Sscan(id, &ci)
				if ci >= 0 && ci < len(use2) {
					use2[ci] -= p
				}
			}
			if rr, err := env.Plugin.CalculateRemap(bg, node, map[string]plugintypes.WorkloadResource{"w": r2.WorkloadResource}); err == nil {
				if ep, ok := rr.EngineParamsMap["w"]; ok {
					x.update("remap", fmt.Sprintf("unbind[%d] then remap", i), ep, w2, sharePool(st.Cap, use2, ec.Base))
				}
			}
		}
	}
	env.SetNodeRaw(node, info)
}
