package checks

import (
	"context"
	"fmt"
	"os"
	"sort"
	"strings"
	"testing"
	"time"

	"github.com/projecteru2/core/selfmon"
	coretypes "github.com/projecteru2/core/types"

	"verif/harness/vcore"
	"verif/harness/world"
)

// C28: a failed node's workloads are reported down (etcd store). The real
// selfmon.NodeStatusWatcher runs over the real Calcium and Mercury; an agent thread reports
// heartbeats for nodes n1 and n2 and workload statuses "running, healthy", then stops
// reporting n1 (its status expires in virtual time) or deletes it; a creator thread adds a
// workload on n1 before the lapse; the watcher starts before or after the lapse. All
// interleavings of the threads' backend requests within the preemption bound are explored.

func init() {
	register(Meta{ID: "C28", Level: "model_checking", BudgetQuick: 300, BudgetThor: 2400, GoMaxProcs: 2},
		func(t *testing.T, c *vcore.Ctx) { c28Explore(t, c) })
}

type c28Case struct {
	WatcherLate bool  `json:"watcher_started_after_lapse"`
	Delete      bool  `json:"status_deleted_instead_of_expiring"`
	Creator     bool  `json:"workload_created_before_lapse"`
	Resume      bool  `json:"heartbeat_resumes_after_lapse,omitempty"`
	Bound       int   `json:"preemption_bound"`
	Choices     []int `json:"choices,omitempty"`
}

const nodeTTL = 10 // seconds

func c28Setup(t *testing.T, b *world.Backend) (*world.Snap, error) {
	var err error
	tr := wexec(t, b, world.InstanceOpts{NoWAL: true}, nil, 5, func(ctx context.Context, inst *world.Instance) {
		if _, e := inst.Cal.AddPod(ctx, "p", ""); e != nil {
			err = e
			return
		}
		for _, n := range []string{"n1", "n2"} {
			if _, e := inst.Cal.AddNode(ctx, world.NodeSpec{Name: n, Pod: "p", CPU: 4, Memory: 1000}.Options()); e != nil {
				err = e
				return
			}
		}
		for _, n := range []string{"n1", "n2"} {
			msgs, e := inst.Create(ctx, world.DeploySpec{Pod: "p", Count: 1, Strategy: "AUTO", Memory: 50, Filter: &coretypes.NodeFilter{Podname: "p", Includes: []string{n}}})
			if e != nil || len(msgs) != 1 || msgs[0].Error != nil {
				err = fmt.Errorf("setup create on %s: %v %v", n, e, msgs)
				return
			}
		}
	}, nil)
	if tr.Deadlock != "" {
		return nil, fmt.Errorf("%s", tr.Deadlock)
	}
	return b.Save(), err
}

func reportWorkloads(ctx context.Context, inst *world.Instance, b *world.Backend) {
	for id, w := range b.View(false).Workloads {
		app, entry, _, _ := parseName(w.Name)
		// the pre-existing workload of n1 is running but its health check has not passed: it still has to be reported down
		healthy := w.Node != "n1"
		_ = inst.Store.SetWorkloadStatus(ctx, &coretypes.StatusMeta{ID: id, Running: true, Healthy: healthy, Appname: app, Entrypoint: entry, Nodename: w.Node}, 0)
	}
}

func c28Scenario(cc *c28Case, snap *world.Snap) *schedScenario {
	sc := &schedScenario{Name: "selfmon", Snap: snap, Opts: world.InstanceOpts{NoWAL: true}, Horizon: 10 * time.Minute, Quantum: time.Second, AllDeviations: true}
	lapseAt := time.Duration(nodeTTL) * time.Second
	end := 45 * time.Second
	sc.Threads = append(sc.Threads, schedThread{Name: "Agent", Run: func(ctx context.Context, x *schedRun) {
		inst := x.Inst("Agent")
		n1, n2 := &coretypes.Node{NodeMeta: coretypes.NodeMeta{Name: "n1", Podname: "p"}}, &coretypes.Node{NodeMeta: coretypes.NodeMeta{Name: "n2", Podname: "p"}}
		_ = inst.Store.SetNodeStatus(ctx, n1, nodeTTL)
		_ = inst.Store.SetNodeStatus(ctx, n2, nodeTTL)
		reportWorkloads(ctx, inst, x.B)
		x.Event("agent reported n1, n2 and the workloads")
		if cc.Delete {
			time.Sleep(4 * time.Second)
			_ = inst.Store.SetNodeStatus(ctx, n1, -1)
			x.mu.Lock()
			x.Data["lapse"] = x.Now()
			x.mu.Unlock()
			x.Event("agent deleted n1's status")
			if cc.Resume {
				// a flapping agent: the very next heartbeat arrives right after the lapse
				_ = inst.Store.SetNodeStatus(ctx, n1, nodeTTL)
				x.Event("agent reports n1 again")
			}
		} else {
			x.mu.Lock()
			x.Data["lapse"] = x.Now() + lapseAt
			x.mu.Unlock()
			if cc.Resume {
				time.Sleep(lapseAt + time.Second)
				_ = inst.Store.SetNodeStatus(ctx, n1, nodeTTL)
				x.Event("agent reports n1 again")
			}
		}
		// n2 keeps reporting (and n1 too once its heartbeat has resumed: it must not lapse a second time)
		for x.Now() < end {
			time.Sleep(4 * time.Second)
			_ = inst.Store.SetNodeStatus(ctx, n2, nodeTTL)
			if cc.Resume {
				_ = inst.Store.SetNodeStatus(ctx, n1, nodeTTL)
			}
		}
	}})
	if cc.Creator {
		sc.Threads = append(sc.Threads, schedThread{Name: "Creator", Run: func(ctx context.Context, x *schedRun) {
			inst := x.Inst("Creator")
			time.Sleep(time.Second)
			msgs, err := inst.Create(ctx, world.DeploySpec{Pod: "p", Count: 1, Strategy: "AUTO", Memory: 50, Filter: &coretypes.NodeFilter{Podname: "p", Includes: []string{"n1"}}})
			if err == nil && len(msgs) == 1 && msgs[0].Error == nil {
				x.mu.Lock()
				x.Data["created"] = msgs[0].WorkloadID
				x.Data["createdAt"] = x.Now()
				x.mu.Unlock()
				_ = inst.Store.SetWorkloadStatus(ctx, &coretypes.StatusMeta{ID: msgs[0].WorkloadID, Running: true, Healthy: true, Appname: "app", Entrypoint: "web", Nodename: "n1"}, 0)
				x.Event("creator added a workload on n1")
			}
		}})
	}
	sc.Threads = append(sc.Threads, schedThread{Name: "Watcher", Run: func(ctx context.Context, x *schedRun) {
		inst := x.Inst("Watcher")
		if cc.WatcherLate {
			time.Sleep(lapseAt + 5*time.Second)
		}
		wctx, cancel := context.WithCancel(ctx)
		w := selfmon.NewWatcherForVerif(7, inst.Cfg, inst.Cal, inst.Store)
		done := make(chan struct{})
		go func() { w.RunForVerif(wctx); close(done) }()
		x.Event("watcher started")
		for x.Now() < end {
			time.Sleep(time.Second)
		}
		cancel()
		<-done
	}})
	// the agent's periodic refreshes of the healthy node are not scheduling points
	// scheduling points: every write, and every request that touches a node-status key; plain
	// reads of other keys run with the step that follows them
	sc.Control = func(thread string, s world.Step) bool {
		if thread == "Agent" && !strings.Contains(s.Key, "n1") {
			return false // the healthy node's periodic refreshes are not scheduling points
		}
		if s.Layer == "etcd" && (s.Kind == "keepalive" || s.Kind == "ttl" || s.Kind == "grant" || s.Kind == "revoke") {
			return false
		}
		return s.Write || strings.Contains(s.Key, "/status:node/")
	}
	return sc
}

func c28Explore(t *testing.T, c *vcore.Ctx) {
	dir := os.Getenv("VERIF_TMP")
	if dir == "" {
		dir = t.TempDir()
	}
	c.SetRule("agent (heartbeats n1,n2 TTL 10 s + workload statuses - running and healthy, on n1 running but not healthy -, then n1 lapses by expiry or deletion while n2 keeps reporting; optionally n1's heartbeat resumes right after the lapse and stays), optional creator (a workload on n1 before the lapse), real NodeStatusWatcher started before or after the lapse; all interleavings of their backend requests within the preemption bound; oracle 60 s after the lapse; non-trivial = schedules with at least one preemption")
	c.Assume("etcd = memetcd: the status key disappears exactly at lease expiry and the watch delivers the delete event; the active-watcher registration uses the real StartEphemeral")
	b := world.NewBackend(dir, false)
	defer b.Close()
	snap, err := c28Setup(t, b)
	if err != nil {
		c.HarnessError("setup: %v", err)
		return
	}
	if c.Replay != nil {
		var cc c28Case
		if err := jsonUnmarshal(c.Replay, &cc); err != nil {
			c.HarnessError("replay: %v", err)
			return
		}
		x := runSchedule(t, b, c28Scenario(&cc, snap), cc.Choices)
		c.Eval()
		c28Check(c, b, &cc, x, cc.Choices)
		return
	}
	bound := 2
	if c.Thorough() {
		bound = 3
	}
	c.Bound("deviation_bound_completed", bound)
	var cases []c28Case
	for _, late := range []bool{false, true} {
		for _, del := range []bool{false, true} {
			cases = append(cases, c28Case{WatcherLate: late, Delete: del, Creator: true, Bound: bound})
		}
	}
	cases = append(cases, c28Case{Bound: bound})
	// the heartbeat resumes right after the lapse: the workloads were unobserved for a while and must
	// still be reported down (the agent does not re-report them in this scenario)
	cases = append(cases, c28Case{Delete: true, Resume: true, Bound: bound}, c28Case{Resume: true, Bound: bound})
	for i := range cases {
		cc := cases[i]
		if c.Expired() {
			c.CapHit("budget reached")
			return
		}
		st := exploreSchedules(t, c, b, c28Scenario(&cc, snap), cc.Bound, func(x *schedRun, choices []int) { c28Check(c, b, &cc, x, choices) })
		if !st.Complete {
			c.CapHit("budget reached inside a scenario")
		}
		if st.Diverged > 0 {
			c.Note("%s: %d replays diverged", vcore.JSON(cc), st.Diverged)
		}
		c.AddStates(int64(st.Executions))
		c.AddTransitions(int64(st.Executions * (st.MaxPoints + 1)))
	}
}

func c28Check(c *vcore.Ctx, b *world.Backend, cc *c28Case, x *schedRun, choices []int) {
	rc := *cc
	rc.Choices = choices
	cls := "watcher-first"
	if cc.WatcherLate {
		cls = "watcher-after-lapse"
	}
	if cc.Resume {
		cls += "/heartbeat-resumes"
	}
	if cc.Delete {
		cls += "/status-deleted"
	} else {
		cls += "/status-expired"
	}
	viol := func(sig, f string, a ...any) {
		c.Violate("C28/"+cls+"/"+sig, fmt.Sprintf(f, a...)+" | scenario="+vcore.JSON(cc)+" events="+fmt.Sprint(x.Events), rc)
	}
	if x.Stuck != "" {
		viol("thread-never-returns", "%s", firstLine(x.Stuck))
		return
	}
	v := b.View(false)
	x.mu.Lock()
	lapse, _ := x.Data["lapse"].(time.Duration)
	createdAt, hasCreated := x.Data["createdAt"].(time.Duration)
	created, _ := x.Data["created"].(string)
	x.mu.Unlock()
	var ids []string
	for id := range v.Workloads {
		ids = append(ids, id)
	}
	sort.Strings(ids)
	down, up := 0, 0
	for _, id := range ids {
		w := v.Workloads[id]
		app, entry, _, _ := parseName(w.Name)
		val, ok := b.Etcd.Get(fmt.Sprintf("/status/%s/%s/%s/%s", app, entry, w.Node, id))
		st := &coretypes.StatusMeta{}
		if ok {
			_ = jsonUnmarshal([]byte(val), st)
		}
		if w.Node == "n1" {
			if id == created && hasCreated && createdAt >= lapse {
				continue // recorded after the lapse: outside the statement
			}
			if !ok || st.Running || st.Healthy {
				viol("workload-still-reported-up", "workload %s on the failed node n1 is reported running=%v healthy=%v (status present=%v) 60 s after the lapse at %v", short(id), st.Running, st.Healthy, ok, lapse)
			} else {
				down++
			}
		} else {
			// the statement says nothing about other nodes (a watcher that starts before a node's
			// first heartbeat legitimately sees it as down); recorded as an outcome only
			if !(ok && (!st.Running || !st.Healthy)) {
				up++
			}
		}
	}
	c.Outcome(fmt.Sprintf("%s creator=%v down=%d up=%d", cls, hasCreated, down, up))
	pre := 0
	for _, d := range x.Decisions {
		if d.Choice < len(d.Preempt) && d.Preempt[d.Choice] {
			pre++
		}
	}
	if pre > 0 {
		c.Nontrivial(vcore.JSON(rc))
		if c.WantSample() {
			c.Sample(map[string]any{"scenario": cc, "events": x.Events, "decisions": len(x.Decisions)})
		}
	}
}
