package checks

import (
	"context"
	"fmt"
	"os"
	"strings"
	"testing"
	"testing/synctest"

	"verif/harness/vcore"
	"verif/harness/world"
)

// C14: a crash at any point of a deployment is repaired by recovery in a fresh instance.
// For every deployment of the alphabet the fault-free run records its externally visible
// steps; then for every step k the run is repeated with the process crashing before step k
// (that step and every later step of the instance have no effect, its context is cancelled,
// its bbolt handle is closed and - stated assumption - its lock sessions expire), a second
// core instance is built on the same store, engines and WAL file, runs DisasterRecover to
// quiescence, and the resulting state is checked.

func init() {
	register(Meta{ID: "C14", Level: "fault_enumeration", BudgetQuick: 240, BudgetThor: 2400, GoMaxProcs: 2},
		func(t *testing.T, c *vcore.Ctx) { c14Explore(t, c) })
}

type c14Case struct {
	Pre   []wOp     `json:"pre_history"`
	Op    wOp       `json:"deployment"`
	Fail  *faultSpec `json:"failing_step,omitempty"` // a step of the same run that fails (one instance of the deployment fails and is rolled back)
	Crash faultSpec `json:"crash_before_step"`
}

func c14Explore(t *testing.T, c *vcore.Ctx) {
	dir := os.Getenv("VERIF_TMP")
	if dir == "" {
		dir = t.TempDir()
	}
	b := world.NewBackend(dir, false)
	defer b.Close()
	snap0, err := initialCluster(t, b)
	if err != nil {
		c.HarnessError("initial cluster: %v", err)
		return
	}
	c.SetRule("deployments {1 node x 1, 1 node x 2, 2 nodes x 1+1 (AUTO over the pod), EACH x 1, AUTO x 3, FILL x 2, GLOBAL x 2; thorough also 3 bound instances on the NUMA node, EACH memory-only, two half-core instances, DRAINED x 3} x {memory-only, bound 1.0} from pre-states {empty, one workload present; thorough also a bound workload on each node}; plus two of them with one instance failing after its container was created (engine start refused for the first / second instance, its record refused); for every recorded step k: crash before step k, then recovery in a fresh instance on the same store/engines/WAL file; " +
		"non-trivial = distinct (pre-state, deployment, crash point) whose crash was delivered")
	c.Assume("a crash stops all external effects atomically between two intercepted steps (no torn individual write; bbolt's own atomicity is trusted)")
	c.Assume("recovery starts after the dead instance's lock sessions and leases have expired (all leases are revoked before the new instance starts)")
	pres := [][]wOp{{}, {{Kind: "create", Strategy: "AUTO", Count: 1, Req: "mem"}}}
	ops := []wOp{
		{Kind: "create", Strategy: "AUTO", Count: 1, Req: "mem", Include: []string{"n1"}},
		{Kind: "create", Strategy: "AUTO", Count: 2, Req: "bind1", Include: []string{"n1"}},
		{Kind: "create", Strategy: "AUTO", Count: 2, Req: "mem"},
		{Kind: "create", Strategy: "EACH", Count: 1, Req: "bind1"},
		{Kind: "create", Strategy: "AUTO", Count: 1, Req: "bind1", Include: []string{"n2"}},
		{Kind: "create", Strategy: "AUTO", Count: 3, Req: "mem"},
		{Kind: "create", Strategy: "FILL", Count: 2, Req: "mem"},
		{Kind: "create", Strategy: "GLOBAL", Count: 2, Req: "bind1"},
	}
	if c.Thorough() {
		pres = append(pres, []wOp{{Kind: "create", Strategy: "AUTO", Count: 1, Req: "bind1", Include: []string{"n1"}}, {Kind: "create", Strategy: "AUTO", Count: 1, Req: "bind1", Include: []string{"n2"}}})
		ops = append(ops,
			wOp{Kind: "create", Strategy: "AUTO", Count: 3, Req: "bind1", Include: []string{"n2"}},
			wOp{Kind: "create", Strategy: "EACH", Count: 1, Req: "mem"},
			wOp{Kind: "create", Strategy: "AUTO", Count: 2, Req: "bindhalf"},
			wOp{Kind: "create", Strategy: "DRAINED", Count: 3, Req: "mem"})
	}
	c.Bound("deployments", len(ops))
	prep := func(pre []wOp) (*world.Snap, *world.View) {
		b.Restore(snap0)
		snap, view := snap0, b.View(false)
		for _, op := range pre {
			b.Restore(snap)
			_, _, view, _ = worldStep(t, b, op, view, nil, 7)
			snap = b.Save()
		}
		return snap, view
	}
	if c.Replay != nil {
		var cc c14Case
		if err := jsonUnmarshal(c.Replay, &cc); err != nil {
			c.HarnessError("replay: %v", err)
			return
		}
		snap, view := prep(cc.Pre)
		c14One(t, c, b, snap, view, &cc)
		return
	}
	var idx int64
	for _, pre := range pres {
		snap, view := prep(pre)
		for _, op := range ops {
			b.Restore(snap)
			_, tr, _, _ := worldStep(t, b, op, view, nil, 11)
			for _, f := range stepList(tr.Steps) {
				idx++
				if !c.Mine(idx) {
					continue
				}
				if c.Expired() {
					c.CapHit("budget reached")
					return
				}
				f.Crash = true
				c14One(t, c, b, snap, view, &c14Case{Pre: pre, Op: op, Crash: f})
			}
		}
	}
	// deployments in which one instance fails after its container was created (the engine refuses to start it,
	// or its record cannot be written) and is rolled back: every crash point of THAT run
	snap, view := prep(nil)
	for _, op := range []wOp{
		{Kind: "create", Strategy: "AUTO", Count: 2, Req: "bind1", Include: []string{"n1"}},
		{Kind: "create", Strategy: "AUTO", Count: 2, Req: "mem"},
	} {
		b.Restore(snap)
		_, tr0, _, _ := worldStep(t, b, op, view, nil, 11)
		var fails []faultSpec
		for _, f := range stepList(tr0.Steps) {
			if strings.HasPrefix(f.Label, "engine.start(") || strings.HasPrefix(f.Label, "etcd.txn(/deploy/") {
				fails = append(fails, f)
			}
		}
		for _, fail := range fails {
			fail := fail
			b.Restore(snap)
			_, tr, _, _ := worldStep(t, b, op, view, &fail, 11)
			if !tr.Delivered {
				continue
			}
			for _, f := range stepList(tr.Steps) {
				idx++
				if !c.Mine(idx) {
					continue
				}
				if c.Expired() {
					c.CapHit("budget reached")
					return
				}
				f.Crash = true
				c14One(t, c, b, snap, view, &c14Case{Op: op, Fail: &fail, Crash: f})
			}
		}
	}
}

func c14One(t *testing.T, c *vcore.Ctx, b *world.Backend, snap *world.Snap, pre *world.View, cc *c14Case) {
	// a panic in a goroutine of the repository's own ends the worker: the driver reports it for this case
	c.Journal("C14/process-crashed-outside-the-injected-crash", cc)
	defer c.JournalDone()
	b.Restore(snap)
	var res wResult
	var walAtCrash []world.WALEvent
	var everPut []string
	var atCrash *world.View
	rec := &recorder{counts: map[string]int{}, fault: &cc.Crash, also: cc.Fail}
	problem := runBubble(t, func() {
		resetRand(11)
		inst, err := b.NewInstance(world.InstanceOpts{})
		if err != nil {
			panic(err)
		}
		rec.inst = inst
		inst.SetInterceptor(rec.intercept)
		ctx, cancel := context.WithCancel(world.WithThread(context.Background(), "T0"))
		res = runOp(ctx, inst, cc.Op, pre)
		synctest.Wait()
		cancel()
		if !inst.Dead() {
			inst.Crash() // crash point after the last step: nothing left to lose
		}
		synctest.Wait()
		if inst.WALKV != nil {
			everPut = inst.WALKV.Puts()
		}
		inst.Close()
		// the dead process is gone: its sessions expire
		b.Etcd.RevokeAll()
		walAtCrash, _ = b.WALEvents()
		atCrash = b.View(false)
		inst2, err := b.NewInstance(world.InstanceOpts{})
		if err != nil {
			panic(fmt.Sprintf("recovery instance: %v", err))
		}
		ctx2, cancel2 := context.WithCancel(world.WithThread(context.Background(), "R"))
		inst2.Cal.DisasterRecover(ctx2)
		synctest.Wait()
		cancel2()
		synctest.Wait()
		inst2.Close()
	})
	c.Eval()
	c.Exec()
	viol := func(sig, f string, a ...any) {
		c.Violate("C14/"+faultLayer(&wCase{Fault: &cc.Crash})+"/"+sig, fmt.Sprintf(f, a...)+" | case="+vcore.JSON(cc), cc)
	}
	if !rec.hit {
		c.Outcome("crash-point-not-reached")
		return
	}
	if problem != "" {
		viol("recovery-stuck", "crash + recovery did not run to completion: %s", firstLine(problem))
		return
	}
	c.Nontrivial(vcore.JSON(cc))
	post := b.View(false)
	preC, postC, crashC := containerIDs(pre), containerIDs(post), containerIDs(atCrash)
	_ = crashC
	for n := range post.Nodes {
		if d := post.CompareUsage(n); len(d) > 0 {
			viol("usage-differs-from-recorded-workloads", "after recovery node %s: %s", n, strings.Join(d, "; "))
			break
		}
	}
	if len(post.Processing) > 0 {
		viol("processing-marker-remains", "after recovery: %v", post.Processing)
	}
	// "logged" = the container's creation was EVER written to the log by the crashed instance (not: is still in
	// the file at the crash - an entry dropped too early must not turn its container into an excused orphan)
	logged := map[string]bool{}
	for _, val := range everPut {
		for id := range crashC {
			if strings.Contains(val, id) {
				logged[id] = true
			}
		}
	}
	for _, e := range walAtCrash {
		if e.Type == "create-workload" {
			for id := range crashC {
				if strings.Contains(e.Item, id) {
					logged[id] = true
				}
			}
		}
	}
	created, orphanOK := 0, 0
	for id, w := range post.Workloads {
		if _, was := pre.Workloads[id]; was {
			continue
		}
		ct, ok := postC[id]
		if !ok || !ct.Running {
			viol("recorded-but-not-started", "after recovery workload %s on %s is recorded but its container is missing or not running", short(id), w.Node)
		} else {
			created++
		}
	}
	for id, ct := range postC {
		if _, was := preC[id]; was {
			continue
		}
		if _, rec := post.Workloads[id]; rec {
			continue
		}
		if logged[id] {
			viol("logged-container-left-behind", "after recovery container %s on %s exists without a record although its creation had been logged", short(id), ct.Node)
		} else {
			orphanOK++ // the exception the statement grants: created in the instant before the crash, not yet logged
		}
	}
	for id := range pre.Workloads {
		if _, ok := post.Workloads[id]; !ok {
			viol("earlier-workload-lost", "pre-existing workload %s disappeared", short(id))
		}
	}
	c.Outcome(fmt.Sprintf("created%d/unlogged-orphans%d", created, orphanOK))
	if c.WantSample() && created > 0 {
		c.Sample(map[string]any{"case": cc, "instances_fully_created": created, "unlogged_orphans": orphanOK, "result_before_crash": res.summary()})
	}
}
