package checks

import (
	"bufio"
	"encoding/json"
	"fmt"
	"os"
	"os/exec"
	"path/filepath"
	"runtime"
	"runtime/debug"
	"strings"
	"sync/atomic"
	"testing"
	"time"

	cpumemtypes "github.com/projecteru2/core/resource/plugins/cpumem/types"

	"verif/harness/vcore"
	"verif/harness/world"
)

// C06: CPU planning terminates and never panics. Every case runs GetNodesDeployCapacity,
// CalculateDeploy and (when core 0 carries usage) CalculateRealloc with affinity on the real
// plugin. A non-terminating call allocates without bound, so cases run in a child process
// that watches its own heap and per-case time; the liveness deadline (15 s against a normal
// latency of tens of microseconds) is a hang detector, not a timing oracle. The parent
// records the case in progress when a child dies and restarts after it.

func init() {
	register(Meta{ID: "C06", Level: "exploration", BudgetQuick: 240, BudgetThor: 1800, GoMaxProcs: 2, WorkerGraceS: 240},
		func(t *testing.T, c *vcore.Ctx) { c06Parent(c) })
}

type c06Case struct {
	Base     int     `json:"share_base"`
	MaxShare int     `json:"max_share"`
	State    *nState `json:"state"`
	Req      wReq    `json:"request"`
}

func c06States(k, base int, thorough bool) []*nState {
	capSet := []int{}
	seen := map[int]bool{}
	for _, v := range []int{base, base / 2, 2 * base, 3 * base / 10} {
		if v >= 1 && !seen[v] {
			seen[v] = true
			capSet = append(capSet, v)
		}
	}
	type core struct{ c, u int }
	var cores []core
	for _, cp := range capSet {
		us := map[int]bool{}
		for _, u := range []int{0, 3 * cp / 10, cp / 2, cp} {
			if !us[u] {
				us[u] = true
				cores = append(cores, core{cp, u})
			}
		}
	}
	var out []*nState
	cur := make([]core, k)
	var rec func(i int)
	rec = func(i int) {
		if i == k {
			caps, uses := make([]int, k), make([]int, k)
			for j, x := range cur {
				caps[j], uses[j] = x.c, x.u
			}
			for _, mu := range []int64{0, 40, 80} {
				out = append(out, &nState{Cap: caps, Use: uses, MemCap: 100, MemUse: mu})
				if k >= 2 {
					numa := make([]string, k)
					for j := range numa {
						numa[j] = "0"
						if j >= (k+1)/2 {
							numa[j] = "1"
						}
					}
					for _, nu := range [][2]int64{{0, 0}, {30, 30}} {
						if nu[0]+nu[1] > mu {
							continue
						}
						out = append(out, &nState{Cap: caps, Use: uses, MemCap: 100, MemUse: mu, NUMA: numa,
							NMemCap: map[string]int64{"0": 50, "1": 50}, NMemUse: map[string]int64{"0": nu[0], "1": nu[1]}})
					}
				}
			}
			return
		}
		for _, x := range cores {
			cur[i] = x
			rec(i + 1)
		}
	}
	rec(0)
	return out
}

func c06Cases(thorough bool) []c06Case {
	var out []c06Case
	bases := []int{100, 10, 3, 1}
	shares := []int{-1, 1, 2, 3, 8}
	maxK := 2
	if thorough {
		maxK = 3
	}
	for _, base := range bases {
		var reqs []wReq
		for _, cpu := range []float64{0.001, 0.004, 0.05, 0.3, 0.5, 1, 1.2, 2} {
			for _, mem := range []int64{0, 20, 30} {
				reqs = append(reqs, wReq{Bind: true, CPU: cpu, Mem: mem})
			}
		}
		for k := 1; k <= maxK; k++ {
			if thorough && k == 3 && (base == 3 || base == 1) {
				continue
			}
			sts := c06States(k, base, thorough)
			for _, ms := range shares {
				if thorough && k == 3 && ms == 3 {
					continue
				}
				for _, st := range sts {
					for _, rq := range reqs {
						out = append(out, c06Case{Base: base, MaxShare: ms, State: st, Req: rq})
					}
				}
			}
		}
	}
	return out
}

type c06Event struct {
	I   int    `json:"i"`
	O   string `json:"o"` // start | ok | invalid | panic
	Msg string `json:"m,omitempty"`
	Cap int    `json:"c,omitempty"`
}

func c06Parent(c *vcore.Ctx) {
	c.SetRule("every node state (k cores; per-core capacity {1,.5,2,.3} x share base; usage {0,.3,.5,1} of capacity; memory use {0,40,80}; optional NUMA split with NUMA memory use {0/0, 30/30}, so that total free memory is below, equal to or above the sum of the NUMA nodes' free memory) x bound request {.001,.004,.05,.3,.5,1,1.2,2} x memory {0,20,30} x share base {100,10,3,1} x max-share {-1,1,2,3,8}; " +
		"calls GetNodesDeployCapacity, CalculateDeploy(1) and CalculateRealloc(keep-bind, affinity); non-trivial = the plugin accepted the state and reported capacity >= 1; distinct by case")
	if os.Getenv("VERIF_C06_CHILD") != "" {
		return // unreachable: the child is dispatched in worker_test via c06Child
	}
	cases := c06Cases(c.Thorough())
	c.Bound("cases_total", len(cases))
	if c.Replay != nil {
		var cc c06Case
		if err := jsonUnmarshal(c.Replay, &cc); err != nil {
			c.HarnessError("replay: %v", err)
			return
		}
		envs := penvCache{}
		defer envs.close()
		done := make(chan c06Event, 1)
		go func() { done <- c06One(envs, &cc, 0) }()
		select {
		case ev := <-done:
			c.Eval()
			c.Outcome(ev.O)
			if ev.O == "panic" {
				c.Violate(c06Sig("panic", ev.Msg, &cc), ev.Msg+" | case="+vcore.JSON(cc), cc)
			}
		case <-time.After(15 * time.Second):
			c.Eval()
			c.Violate(c06Sig("hang", "", &cc), "call did not return within 15 s | case="+vcore.JSON(cc), cc)
		}
		return
	}
	// my slice of the case list
	var mine []int
	for i := range cases {
		if c.Mine(int64(i)) {
			mine = append(mine, i)
		}
	}
	tmp := os.Getenv("VERIF_TMP")
	if tmp == "" {
		tmp = os.TempDir()
	}
	pos := 0
	restarts := 0
	for pos < len(mine) {
		if c.Expired() {
			c.CapHit(fmt.Sprintf("budget reached after %d of %d cases in this shard", pos, len(mine)))
			return
		}
		evf := filepath.Join(tmp, fmt.Sprintf("c06-events-%d.jsonl", restarts))
		cmd := exec.Command(os.Args[0], "-test.run", "^TestWorker$", "-test.timeout", "0")
		cmd.Env = append(os.Environ(), "VERIF_C06_CHILD="+evf, fmt.Sprintf("VERIF_C06_FROM=%d", pos), "GOMAXPROCS=2")
		out, _ := cmd.CombinedOutput()
		last, started := c06Collect(c, evf, cases)
		os.Remove(evf)
		if started < 0 {
			// child finished its slice cleanly
			if last < 0 && pos < len(mine) {
				c.HarnessError("C06 child produced no events: %s", tailStr(string(out), 2000))
				return
			}
			pos = len(mine)
			break
		}
		// child died or gave up while case `started` was in progress
		kind := "hang"
		o := string(out)
		switch {
		case strings.Contains(o, "C06-WATCHDOG heap"):
			kind = "unbounded-allocation"
		case strings.Contains(o, "C06-WATCHDOG time"):
			kind = "hang"
		case strings.Contains(o, "fatal error") || strings.Contains(o, "panic:"):
			kind = "crash"
		}
		cc := cases[started]
		c.Eval()
		c.Outcome(kind)
		c.Violate(c06Sig(kind, o, &cc), fmt.Sprintf("%s while planning | case=%s | child output tail: %s", kind, vcore.JSON(cc), tailStr(o, 400)), cc)
		// continue after the offending case
		for pos < len(mine) && mine[pos] != started {
			pos++
		}
		pos++
		restarts++
		if restarts > 400 {
			c.CapHit("more than 400 child restarts in one shard")
			return
		}
	}
}

func tailStr(s string, n int) string {
	if len(s) > n {
		return s[len(s)-n:]
	}
	return s
}

// c06Sig classifies a counterexample by its cause, not by its input.
func c06Sig(kind, msg string, cc *c06Case) string {
	pieces := cc.Req.CPU * float64(cc.Base)
	cause := "other"
	switch {
	case pieces < 0.5:
		cause = "request-below-half-piece"
	case pieces < 1:
		cause = "request-below-one-piece"
	}
	if kind == "panic" || kind == "crash" {
		switch {
		case strings.Contains(msg, "slice bounds out of range"):
			cause += "/slice-bounds"
		case strings.Contains(msg, "divide by zero"):
			cause += "/divide-by-zero"
		case strings.Contains(msg, "index out of range"):
			cause += "/index-range"
		}
		for _, fn := range []string{"getCPUPlans", "getFullCPUPlansWithAffinity", "getFullCPUPlans", "getFragmentCPUPlans", "doGetCPUPlans", "GetCPUPlans"} {
			if strings.Contains(msg, fn+"(") || strings.Contains(msg, "."+fn) {
				cause += "/" + fn
				break
			}
		}
	}
	return "C06/" + kind + "/" + cause
}

// c06Collect folds a child's event file into the context. It returns the last finished
// case and the case that was started but not finished (-1 if none).
func c06Collect(c *vcore.Ctx, path string, cases []c06Case) (last int, started int) {
	last, started = -1, -1
	f, err := os.Open(path)
	if err != nil {
		return
	}
	defer f.Close()
	sc := bufio.NewScanner(f)
	sc.Buffer(make([]byte, 1<<20), 1<<20)
	for sc.Scan() {
		var ev c06Event
		if json.Unmarshal(sc.Bytes(), &ev) != nil {
			continue
		}
		if ev.O == "start" {
			started = ev.I
			continue
		}
		if ev.O == "deadline" {
			c.CapHit(fmt.Sprintf("budget reached after %d cases of this shard", ev.I))
			continue
		}
		started = -1
		last = ev.I
		c.Eval()
		if ev.O == "ok" && ev.Cap >= 1 {
			c.Outcome("ok/capacity>=1")
		} else if ev.O == "ok" {
			c.Outcome("ok/no-capacity")
		} else {
			c.Outcome(ev.O)
		}
		cc := cases[ev.I]
		if ev.O == "ok" && ev.Cap >= 1 {
			c.Nontrivial(fmt.Sprint(ev.I))
			if c.WantSample() && cc.State.hasNUMA() && ev.Cap >= 2 {
				c.Sample(map[string]any{"case": cc, "capacity": ev.Cap})
			}
		}
		if ev.O == "panic" {
			c.Violate(c06Sig("panic", ev.Msg, &cc), ev.Msg+" | case="+vcore.JSON(cc), cc)
		}
	}
	return
}

// c06One runs the three calls of one case with panic recovery.
func c06One(envs penvCache, cc *c06Case, i int) (ev c06Event) {
	ev.I = i
	info := cc.State.info()
	if err := info.DeepCopy().Validate(); err != nil {
		ev.O = "invalid"
		return
	}
	defer func() {
		if r := recover(); r != nil {
			ev.O = "panic"
			st := string(debug.Stack())
			// keep the frames of the repository
			var keep []string
			for _, l := range strings.Split(st, "\n") {
				if strings.Contains(l, "projecteru2/core/resource") && !strings.Contains(l, "\t") {
					keep = append(keep, strings.TrimSpace(l))
				}
			}
			if len(keep) > 4 {
				keep = keep[:4]
			}
			ev.Msg = fmt.Sprintf("panic: %v @ %s", r, strings.Join(keep, " < "))
		}
	}()
	env := envs.get(cc.Base, cc.MaxShare)
	env.SetNodeRaw("n", info)
	ev.O = "ok"
	if r, err := env.Plugin.GetNodesDeployCapacity(bg, []string{"n"}, cc.Req.raw()); err == nil {
		if nc, ok := r.NodeDeployCapacityMap["n"]; ok {
			ev.Cap = nc.Capacity
		}
	}
	_, _ = env.Plugin.CalculateDeploy(bg, "n", 1, cc.Req.raw())
	if cc.State.Use[0] > 0 {
		origin := &cpumemtypes.WorkloadResource{CPURequest: float64(cc.State.Use[0]) / float64(cc.Base), CPUMap: cpumemtypes.CPUMap{"0": cc.State.Use[0]}}
		rq := wReq{Keep: true, CPU: cc.Req.CPU, Mem: 0}
		_, _ = env.Plugin.CalculateRealloc(bg, "n", world.ToRaw(origin), rq.raw())
	}
	return
}

// c06Child is the body of the child process (dispatched from TestWorker).
func c06Child(evPath string) {
	thorough := os.Getenv("VERIF_TIER") == "thorough"
	cases := c06Cases(thorough)
	c := vcore.NewCtxFromEnv("C06")
	var mine []int
	for i := range cases {
		if c.Mine(int64(i)) {
			mine = append(mine, i)
		}
	}
	from := 0
	fmt.Sscan(os.Getenv("VERIF_C06_FROM"), &from)
	f, err := os.Create(evPath)
	if err != nil {
		fmt.Println("C06 child: cannot create event file:", err)
		os.Exit(9)
	}
	w := bufio.NewWriter(f)
	var caseStart atomic.Int64
	caseStart.Store(time.Now().UnixNano())
	go func() {
		var ms runtime.MemStats
		for {
			time.Sleep(200 * time.Millisecond)
			runtime.ReadMemStats(&ms)
			if ms.HeapAlloc > 3<<30 {
				fmt.Println("C06-WATCHDOG heap above 3 GiB: a planning call allocates without bound")
				os.Exit(7)
			}
			if time.Since(time.Unix(0, caseStart.Load())) > 15*time.Second {
				fmt.Println("C06-WATCHDOG time: one planning call has been running for 15 s")
				os.Exit(8)
			}
		}
	}()
	envs := penvCache{}
	deadline := c.Deadline
	for p := from; p < len(mine); p++ {
		if time.Now().After(deadline) {
			b, _ := json.Marshal(c06Event{I: p, O: "deadline"})
			w.Write(b)
			w.WriteByte('\n')
			break
		}
		i := mine[p]
		b, _ := json.Marshal(c06Event{I: i, O: "start"})
		w.Write(b)
		w.WriteByte('\n')
		w.Flush()
		caseStart.Store(time.Now().UnixNano())
		ev := c06One(envs, &cases[i], i)
		b, _ = json.Marshal(ev)
		w.Write(b)
		w.WriteByte('\n')
	}
	w.Flush()
	f.Close()
	os.Exit(0)
}
