package checks

import (
	"context"
	"errors"
	"fmt"
	"math"
	"sort"
	"testing"

	"github.com/projecteru2/core/strategy"
	"github.com/projecteru2/core/types"

	"verif/harness/vcore"
)

// C01, C02, C03: exhaustive enumeration of strategy.Deploy inputs (engine E1).
//
// One enumeration, three oracles. Alphabet (per candidate node): Capacity {0,1,2,3,MaxInt},
// Count {0,1,2,3}, (Usage,Rate) {(0,0),(0,.25),(.25,.25),(.5,.1)}; need {1..5,7};
// limit {0,1,2,3}; the five strategies; every ordered list of n distinct names.
// quick: all dimensions for n<=2, and for n=3 the dimensions the strategy reads plus one
// fixed non-default value for the others; thorough: all dimensions for n<=3, relevant
// dimensions for n=4.

func init() {
	for _, id := range []string{"C01", "C02", "C03"} {
		id := id
		register(Meta{ID: id, Level: "exploration", BudgetQuick: 150, BudgetThor: 1500, GoMaxProcs: 1},
			func(t *testing.T, c *vcore.Ctx) { strategyEnum(c, id) })
	}
}

type sCase struct {
	Strategy string          `json:"strategy"`
	Infos    []strategy.Info `json:"infos"`
	Need     int             `json:"need"`
	Limit    int             `json:"limit"`
}

var (
	sCaps   = []int{0, 1, 2, 3, math.MaxInt}
	sCounts = []int{0, 1, 2, 3}
	sUR     = [][2]float64{{0, 0}, {0, .25}, {.25, .25}, {.5, .1}}
	sNeeds  = []int{1, 2, 3, 4, 5, 7}
	sLimits = []int{0, 1, 2, 3}
	sStrats = []string{strategy.Auto, strategy.Fill, strategy.Each, strategy.Global, strategy.Drained}
	sNames  = []string{"a", "b", "c", "d"}
)

func satSum(infos []strategy.Info) int {
	total := 0
	for _, in := range infos {
		if in.Capacity == math.MaxInt || total == math.MaxInt || total+in.Capacity < total {
			total = math.MaxInt
		} else {
			total += in.Capacity
		}
	}
	return total
}

func strategyEnum(c *vcore.Ctx, prop string) {
	c.SetRule("every ordered candidate list of n distinct nodes over the per-node alphabet x need x limit x strategy, " +
		"called through strategy.Deploy on a fresh slice with total = saturating sum of capacities; " +
		"non-trivial = a plan was produced and at least two candidates compete (C01/C03), or the feasibility oracle had to separate feasible from infeasible (C02); distinct by full input")
	if c.Replay != nil {
		var sc sCase
		if err := jsonUnmarshal(c.Replay, &sc); err != nil {
			c.HarnessError("replay: %v", err)
			return
		}
		strategyOne(c, prop, &sc)
		return
	}
	maxFull, maxRel := 2, 3
	if c.Thorough() {
		maxFull, maxRel = 3, 4
	}
	c.Bound("nodes_full_alphabet", maxFull)
	c.Bound("nodes_relevant_alphabet", maxRel)
	var idx int64
	// misuse cases: unknown strategy, need<=0 must be refused
	if c.Shard == 0 {
		infos := []strategy.Info{{Nodename: "a", Capacity: 3}}
		for _, sc := range []sCase{{"NOPE", infos, 1, 0}, {strategy.Auto, infos, 0, 0}, {strategy.Fill, infos, -1, 0}, {strategy.Dummy, infos, 1, 0}} {
			c.Eval()
			plan, err := strategy.Deploy(context.Background(), sc.Strategy, sc.Need, sc.Limit, append([]strategy.Info{}, sc.Infos...), 3)
			if err == nil || plan != nil {
				if prop == "C01" {
					c.Violate("C01/misuse-accepted", fmt.Sprintf("Deploy accepted %s: plan=%v", vcore.JSON(sc), plan), sc)
				}
			}
		}
	}
	for n := 1; n <= maxRel; n++ {
		for _, st := range sStrats {
			full := n <= maxFull
			dims := make([][]strategy.Info, 0, 64)
			_ = dims
			perNode := nodeAlphabet(st, full)
			cur := make([]strategy.Info, n)
			var rec func(i int)
			rec = func(i int) {
				if i == n {
					for _, need := range sNeeds {
						for _, limit := range sLimits {
							idx++
							if !c.Mine(idx) {
								continue
							}
							sc := sCase{Strategy: st, Infos: cur, Need: need, Limit: limit}
							strategyOne(c, prop, &sc)
						}
					}
					return
				}
				for _, in := range perNode {
					in.Nodename = sNames[i]
					cur[i] = in
					rec(i + 1)
				}
			}
			rec(0)
			if c.Expired() {
				c.CapHit(fmt.Sprintf("budget reached at n=%d strategy=%s", n, st))
				return
			}
		}
	}
}

func nodeAlphabet(st string, full bool) []strategy.Info {
	var out []strategy.Info
	for _, cp := range sCaps {
		counts, urs := sCounts, sUR
		if !full {
			switch st {
			case strategy.Auto, strategy.Fill:
				urs = [][2]float64{{.25, .25}}
			case strategy.Each:
				counts, urs = []int{1}, [][2]float64{{.25, .25}}
			case strategy.Global, strategy.Drained:
				counts = []int{1}
			}
		}
		for _, ct := range counts {
			for _, ur := range urs {
				out = append(out, strategy.Info{Capacity: cp, Count: ct, Usage: ur[0], Rate: ur[1]})
			}
		}
	}
	return out
}

func isInsufficient(err error) bool {
	return errors.Is(err, types.ErrInsufficientResource) || errors.Is(err, types.ErrInsufficientCapacity)
}

// feasible is the independent reference for C02.
func feasible(sc *sCase) bool {
	n := len(sc.Infos)
	switch sc.Strategy {
	case strategy.Auto:
		sum := 0
		for _, in := range sc.Infos {
			room := in.Capacity
			if sc.Limit > 0 {
				r := sc.Limit - in.Count
				if r < 0 {
					r = 0
				}
				if r < room {
					room = r
				}
			}
			if room >= sc.Need || sum+room >= sc.Need {
				return true
			}
			sum += room
		}
		return sum >= sc.Need
	case strategy.Global, strategy.Drained:
		return satSum(sc.Infos) >= sc.Need
	case strategy.Each, strategy.Fill:
		L := sc.Limit
		if L == 0 {
			L = n
		}
		if L < 1 || n < L {
			return false
		}
		ok := 0
		for _, in := range sc.Infos {
			if sc.Strategy == strategy.Each && in.Capacity >= sc.Need {
				ok++
			}
			if sc.Strategy == strategy.Fill && (in.Capacity == math.MaxInt || in.Count+in.Capacity >= sc.Need) {
				ok++
			}
		}
		return ok >= L
	}
	return false
}

func strategyOne(c *vcore.Ctx, prop string, sc *sCase) {
	c.Eval()
	infos := append([]strategy.Info{}, sc.Infos...)
	byName := map[string]strategy.Info{}
	for _, in := range sc.Infos {
		byName[in.Nodename] = in
	}
	total := satSum(sc.Infos)
	plan, err := strategy.Deploy(context.Background(), sc.Strategy, sc.Need, sc.Limit, infos, total)
	// FILL's "already filled" answer (map + ErrAlreadyFilled) is a refusal that is not an
	// insufficient-resource refusal.
	alreadyFilled := errors.Is(err, types.ErrAlreadyFilled)
	produced := err == nil && plan != nil
	viol := func(sig, f string, a ...any) {
		cp := *sc
		cp.Infos = append([]strategy.Info{}, sc.Infos...)
		c.Violate(prop+"/"+sc.Strategy+"/"+sig, fmt.Sprintf(f, a...)+fmt.Sprintf(" | input=%s plan=%v err=%v", vcore.JSON(cp), plan, err), cp)
	}
	if c.WantSample() && produced && len(sc.Infos) >= 2 {
		cp := *sc
		cp.Infos = append([]strategy.Info{}, sc.Infos...)
		c.Sample(map[string]any{"input": cp, "plan": plan})
	}
	switch {
	case produced:
		c.Outcome(sc.Strategy + ":plan")
	case alreadyFilled:
		c.Outcome(sc.Strategy + ":already-filled")
	case isInsufficient(err):
		c.Outcome(sc.Strategy + ":insufficient")
	default:
		c.Outcome(sc.Strategy + ":other-error")
	}

	n := len(sc.Infos)
	L := sc.Limit
	if L == 0 {
		L = n
	}

	switch prop {
	case "C02":
		f := feasible(sc)
		c.Nontrivial(vcore.JSON(sc))
		if f && isInsufficient(err) {
			viol("refused-though-feasible", "feasible under the strategy's rule but refused")
		}
		if f && err == nil && plan == nil {
			viol("no-plan-no-error", "feasible but neither plan nor error")
		}
		if !f && (err == nil) {
			viol("planned-though-infeasible", "infeasible under the strategy's rule but a plan was returned")
		}
		if !f && err != nil && len(plan) > 0 && !alreadyFilled {
			viol("plan-with-refusal", "refusal came with a non-empty plan")
		}
		return
	}
	if !produced {
		return
	}
	if n >= 2 {
		c.Nontrivial(vcore.JSON(sc))
	}
	sum := 0
	for name, v := range plan {
		in, ok := byName[name]
		if !ok {
			if prop == "C01" {
				viol("non-candidate", "plan names %q which is not a candidate", name)
			}
			return
		}
		if prop == "C01" && (v < 0 || v > in.Capacity) {
			viol("over-capacity", "node %s gets %d, capacity %d", name, v, in.Capacity)
		}
		sum += v
	}
	if prop == "C01" {
		switch sc.Strategy {
		case strategy.Auto, strategy.Global, strategy.Drained:
			if sum != sc.Need {
				viol("wrong-total", "placed %d, requested %d", sum, sc.Need)
			}
			if sc.Strategy == strategy.Auto && sc.Limit > 0 {
				for name, v := range plan {
					if v > 0 && byName[name].Count+v > sc.Limit {
						viol("node-limit-exceeded", "node %s ends with %d > limit %d", name, byName[name].Count+v, sc.Limit)
					}
				}
			}
		case strategy.Each:
			if len(plan) != L {
				viol("wrong-node-count", "EACH selected %d nodes, want %d", len(plan), L)
			}
			for name, v := range plan {
				if v != sc.Need {
					viol("wrong-per-node", "EACH gives %s %d, want %d", name, v, sc.Need)
				}
			}
		case strategy.Fill:
			if len(plan) != L {
				viol("wrong-node-count", "FILL selected %d nodes, want %d", len(plan), L)
			}
			for name, v := range plan {
				want := sc.Need - byName[name].Count
				if want < 0 {
					want = 0
				}
				if v != want {
					viol("wrong-top-up", "FILL gives %s %d, want %d", name, v, want)
				}
			}
		}
		return
	}
	// C03 balancing rules
	const eps = 1e-9
	names := make([]string, 0, n)
	for _, in := range sc.Infos {
		names = append(names, in.Nodename)
	}
	sort.Strings(names)
	switch sc.Strategy {
	case strategy.Auto:
		for _, a := range names {
			va := plan[a]
			if va <= 0 {
				continue
			}
			fa := byName[a].Count + va
			for _, b := range names {
				if a == b {
					continue
				}
				vb, ib := plan[b], byName[b]
				fb := ib.Count + vb
				could := vb < ib.Capacity && (sc.Limit == 0 || fb < sc.Limit)
				if could && fa > fb+1 {
					viol("uneven", "AUTO: %s ends at %d while %s (could take more) ends at %d", a, fa, b, fb)
					return
				}
			}
		}
	case strategy.Global:
		for _, a := range names {
			va := plan[a]
			if va <= 0 {
				continue
			}
			ua := byName[a].Usage + float64(va)*byName[a].Rate
			for _, b := range names {
				if a == b {
					continue
				}
				vb, ib := plan[b], byName[b]
				if vb < ib.Capacity {
					ub := ib.Usage + float64(vb)*ib.Rate
					if ua > ub+ib.Rate+eps {
						viol("unbalanced", "GLOBAL: %s ends at usage %.3f above %s at %.3f by more than its rate %.3f", a, ua, b, ub, ib.Rate)
						return
					}
				}
			}
		}
	case strategy.Drained:
		for _, a := range names {
			for _, b := range names {
				if byName[a].Capacity < byName[b].Capacity && plan[b] > 0 && plan[a] != byName[a].Capacity {
					viol("larger-before-smaller-full", "DRAINED: %s (cap %d) got %d while smaller %s (cap %d) only has %d", b, byName[b].Capacity, plan[b], a, byName[a].Capacity, plan[a])
					return
				}
			}
		}
	case strategy.Each:
		minSel, maxUnsel := math.MaxInt, -1
		for _, nm := range names {
			if _, ok := plan[nm]; ok {
				if byName[nm].Capacity < minSel {
					minSel = byName[nm].Capacity
				}
			} else if byName[nm].Capacity > maxUnsel {
				maxUnsel = byName[nm].Capacity
			}
		}
		if maxUnsel > minSel {
			viol("not-most-capacity", "EACH selected a node of capacity %d but skipped one of capacity %d", minSel, maxUnsel)
		}
	case strategy.Fill:
		minSel, maxUnsel := math.MaxInt, -1
		for _, nm := range names {
			in := byName[nm]
			eligible := in.Capacity == math.MaxInt || in.Count+in.Capacity >= sc.Need
			if !eligible {
				continue
			}
			if _, ok := plan[nm]; ok {
				if in.Count < minSel {
					minSel = in.Count
				}
			} else if in.Count > maxUnsel {
				maxUnsel = in.Count
			}
		}
		if maxUnsel > minSel {
			viol("not-most-instances", "FILL selected an eligible node with %d instances but skipped one with %d", minSel, maxUnsel)
		}
	}
}
