package checks

import (
	"fmt"
	"testing"

	cpumemtypes "github.com/projecteru2/core/resource/plugins/cpumem/types"
	plugintypes "github.com/projecteru2/core/resource/plugins/types"

	"verif/harness/vcore"
	"verif/harness/world"
)

// C33: re-allocating a CPU-bound workload with keep-cpu-bind and no CPU change leaves it on
// exactly the cores and NUMA node it had, on nodes whose cores have whole-core shares.
// Placements are produced by the real plugin (CalculateDeploy + SetNodeResourceUsage), the
// realloc is Plugin.CalculateRealloc. NUMA cases are repeated 32 times: the plan order inside
// the plugin follows Go's map iteration over NUMA nodes, and EVERY repetition must keep the cores.

func init() {
	register(Meta{ID: "C33", Level: "exploration", BudgetQuick: 150, BudgetThor: 1200, GoMaxProcs: 2},
		func(t *testing.T, c *vcore.Ctx) { keepBindEnum(c) })
}

const c33Reps = 32

type c33Case struct {
	Base     int                          `json:"share_base"`
	Cap      []int                        `json:"cap"` // pieces per core (whole-core shares)
	NUMA     bool                         `json:"numa"`
	Other    plugintypes.WorkloadResource `json:"other,omitempty"` // the other bound workload on the node, as allocated by the plugin
	OtherCPU float64                      `json:"other_cpu,omitempty"`
	Origin   plugintypes.WorkloadResource `json:"origin"` // the workload being re-allocated, as allocated by the plugin
	MemDelta int64                        `json:"memory_delta"`
	Order    string                       `json:"alloc_order,omitempty"`
	Probe    bool                         `json:"probe,omitempty"` // outside the property's proviso (fractional neighbour): recorded, never a violation
}

func c33Base(capP []int, numa bool) *nState {
	k := len(capP)
	st := &nState{Cap: capP, Use: make([]int, k), MemCap: 1000}
	if numa {
		st.NUMA = make([]string, k)
		for j := range st.NUMA {
			if j < (k+1)/2 {
				st.NUMA[j] = "0"
			} else {
				st.NUMA[j] = "1"
			}
		}
		st.NMemCap = map[string]int64{"0": 500, "1": 500}
		st.NMemUse = map[string]int64{"0": 0, "1": 0}
	}
	return st
}

// c33Placements returns every distinct placement the plugin offers for the request on the
// node's current state: the largest accepted instance count is asked for, so that every plan
// (each NUMA node's and the cross-NUMA ones) is seen whatever the plugin's internal order.
func c33Placements(env *world.PluginEnv, node string, rq wReq) []plugintypes.WorkloadResource {
	for n := 16; n >= 1; n-- {
		resp, err := env.Plugin.CalculateDeploy(bg, node, n, rq.raw())
		if err != nil {
			continue
		}
		seen := map[string]bool{}
		var out []plugintypes.WorkloadResource
		for _, raw := range resp.WorkloadsResource {
			w, err := parseWR(raw)
			if err != nil {
				continue
			}
			k := fmt.Sprintf("%v|%s", sortedPieces(w.CPUMap), w.NUMANode)
			if !seen[k] {
				seen[k] = true
				out = append(out, raw)
			}
		}
		return out
	}
	return nil
}

func sortedPieces(m cpumemtypes.CPUMap) []string {
	var out []string
	for _, k := range sortedCores(m) {
		if m[k] != 0 {
			out = append(out, fmt.Sprintf("%s:%d", k, m[k]))
		}
	}
	return out
}

func c33Commit(env *world.PluginEnv, node string, st *nState, ws ...plugintypes.WorkloadResource) bool {
	env.SetNodeRaw(node, st.info())
	var wrs []plugintypes.WorkloadResource
	for _, w := range ws {
		if w != nil {
			wrs = append(wrs, w)
		}
	}
	if len(wrs) == 0 {
		return true
	}
	_, err := env.Plugin.SetNodeResourceUsage(bg, node, nil, nil, wrs, true, true)
	return err == nil
}

func keepBindEnum(c *vcore.Ctx) {
	c.SetRule("every node of k <= 4 cores with per-core capacity {1,2} whole cores (share base 100; thorough also 10), without NUMA and with a 2-NUMA split (first half / second half, NUMA memory 500+500 of 1000) x other usage {none, one other bound workload of 1 or 2 full cores} x allocation order {other first, origin first} x every distinct placement the real plugin offers (CalculateDeploy at the largest accepted count, committed with SetNodeResourceUsage) for the other workload and for an origin of 1 or 2 full cores (incl. 1.0 on a 2-share core), memory 20 or 300 (more than half of its NUMA node) x CalculateRealloc{keep-cpu-bind, cpu-request 0, memory-request delta {0,+10,-10}}; " +
		fmt.Sprintf("each case on a NUMA node is repeated %d times (2 times without NUMA) because the plugin's plan order follows Go map iteration over NUMA nodes, and every repetition must satisfy the oracle; ", c33Reps) +
		"oracle: workload_resource.cpu_map and numa_node equal the origin's; a neighbour of .5 core is evaluated as a probe outside the property's proviso (outcome only); non-trivial = an accepted realloc compared with its origin, distinct by (config,node,other,origin,delta)")
	envs := penvCache{}
	defer envs.close()
	if c.Replay != nil {
		var kc c33Case
		if err := jsonUnmarshal(c.Replay, &kc); err != nil {
			c.HarnessError("replay: %v", err)
			return
		}
		c33One(c, envs.get(kc.Base, -1), &kc)
		return
	}
	bases := []int{100}
	if c.Thorough() {
		bases = []int{100, 10}
	}
	c.Bound("share_bases", bases)
	c.Bound("max_cores", 4)
	c.Bound("repetitions_numa", c33Reps)
	const node = "n"
	var idx int64
	done := map[string]bool{}
	for _, base := range bases {
		env := envs.get(base, -1)
		for k := 1; k <= 4; k++ {
			for mask := 0; mask < 1<<k; mask++ {
				capP := make([]int, k)
				for j := range capP {
					capP[j] = base
					if mask>>j&1 == 1 {
						capP[j] = 2 * base
					}
				}
				for _, numa := range []bool{false, true} {
					if numa && k < 2 {
						continue
					}
					st := c33Base(capP, numa)
					for _, otherCPU := range []float64{0, 1, 2, 0.5} {
						for _, order := range []string{"other-first", "origin-first"} {
							if otherCPU == 0 && order == "origin-first" {
								continue
							}
							idx++
							if !c.Mine(idx) {
								continue
							}
							for _, oc := range [][2]float64{{1, 20}, {2, 20}, {1, 300}, {2, 300}} {
								// origin memory 300 of a 500 NUMA node: what is free WITHOUT the workload's own share is less than its new total
								originCPU := oc[0]
								oreq := wReq{Bind: true, CPU: originCPU, CPULimit: originCPU, Mem: int64(oc[1])}
								xreq := wReq{Bind: true, CPU: otherCPU, CPULimit: otherCPU, Mem: 20}
								var pairs [][2]plugintypes.WorkloadResource // (other, origin)
								switch {
								case otherCPU == 0:
									c33Commit(env, node, st)
									for _, o := range c33Placements(env, node, oreq) {
										pairs = append(pairs, [2]plugintypes.WorkloadResource{nil, o})
									}
								case order == "other-first":
									c33Commit(env, node, st)
									for _, x := range c33Placements(env, node, xreq) {
										if !c33Commit(env, node, st, x) {
											continue
										}
										for _, o := range c33Placements(env, node, oreq) {
											pairs = append(pairs, [2]plugintypes.WorkloadResource{x, o})
										}
									}
								default:
									c33Commit(env, node, st)
									for _, o := range c33Placements(env, node, oreq) {
										if !c33Commit(env, node, st, o) {
											continue
										}
										for _, x := range c33Placements(env, node, xreq) {
											pairs = append(pairs, [2]plugintypes.WorkloadResource{x, o})
										}
									}
								}
								if len(pairs) == 0 {
									c.Outcome("no-placement")
								}
								for _, p := range pairs {
									for _, d := range []int64{0, 10, -10} {
										kc := &c33Case{Base: base, Cap: capP, NUMA: numa, Other: p[0], OtherCPU: otherCPU, Origin: p[1], MemDelta: d, Order: order, Probe: otherCPU == 0.5}
										key := c33Key(kc)
										if done[key] {
											continue
										}
										done[key] = true
										c33One(c, env, kc)
									}
								}
							}
							if c.Expired() {
								c.CapHit(fmt.Sprintf("budget reached at base=%d k=%d", base, k))
								return
							}
						}
					}
				}
			}
		}
	}
}

func c33Key(kc *c33Case) string {
	o, _ := parseWR(kc.Origin)
	s := fmt.Sprintf("%d/%v/%v/origin=%v@%s/m=%d/d=%d", kc.Base, kc.Cap, kc.NUMA, sortedPieces(o.CPUMap), o.NUMANode, o.MemoryRequest, kc.MemDelta)
	if kc.Other != nil {
		x, _ := parseWR(kc.Other)
		s += fmt.Sprintf("/other=%v@%s", sortedPieces(x.CPUMap), x.NUMANode)
	}
	return s
}

func c33One(c *vcore.Ctx, env *world.PluginEnv, kc *c33Case) {
	const node = "n"
	st := c33Base(kc.Cap, kc.NUMA)
	if !c33Commit(env, node, st, kc.Other, kc.Origin) {
		c.Outcome("commit-refused")
		return
	}
	origin, err := parseWR(kc.Origin)
	if err != nil || len(origin.CPUMap) == 0 {
		c.HarnessError("origin is not a bound workload: %v %v", kc.Origin, err)
		return
	}
	delta := plugintypes.WorkloadResourceRequest{"keep-cpu-bind": true, "cpu-request": 0.0, "cpu-limit": 0.0, "memory-request": kc.MemDelta, "memory-limit": int64(0)}
	reps := 2
	if kc.NUMA {
		reps = c33Reps
	}
	cause := ""
	if kc.NUMA {
		cause = "/numa-local-origin"
		if origin.NUMANode == "" {
			cause = "/cross-numa-origin"
		}
	}
	want := sortedPieces(origin.CPUMap)
	moved, movedNUMA := 0, 0
	var example string
	for rep := 0; rep < reps; rep++ {
		resp, err := env.Plugin.CalculateRealloc(bg, node, kc.Origin, delta)
		c.Eval()
		if err != nil {
			if kc.Probe {
				c.Outcome("probe/fractional-neighbour/refused")
			} else {
				c.Outcome("realloc-refused")
				if c.WantSample() {
					c.Sample(map[string]any{"case": kc, "realloc_refused": err.Error()})
				}
			}
			continue
		}
		got, err := parseWR(resp.WorkloadResource)
		if err != nil {
			c.HarnessError("parse: %v", err)
			return
		}
		if !kc.Probe {
			c.Nontrivial(c33Key(kc))
		}
		if !sameSet(sortedPieces(got.CPUMap), want) {
			moved++
			if example == "" {
				example = fmt.Sprintf("repetition %d: cpu_map %v numa_node %q", rep, sortedPieces(got.CPUMap), got.NUMANode)
			}
		}
		if got.NUMANode != origin.NUMANode {
			movedNUMA++
			if example == "" {
				example = fmt.Sprintf("repetition %d: cpu_map %v numa_node %q", rep, sortedPieces(got.CPUMap), got.NUMANode)
			}
		}
	}
	if kc.Probe {
		if moved > 0 || movedNUMA > 0 {
			c.Outcome("probe/fractional-neighbour/moved")
		} else {
			c.Outcome("probe/fractional-neighbour/kept")
		}
		return
	}
	switch {
	case moved == 0 && movedNUMA == 0:
		c.Outcome("kept")
	case moved == reps || movedNUMA == reps:
		c.Outcome("moved-in-every-repetition")
	default:
		c.Outcome("moved-in-some-repetitions")
	}
	detail := func() string {
		return fmt.Sprintf("origin cpu_map %v numa_node %q; %s; moved in %d and changed NUMA node in %d of %d repetitions | case=%s", want, origin.NUMANode, example, moved, movedNUMA, reps, vcore.JSON(kc))
	}
	if moved > 0 {
		c.Violate("C33/cores-changed"+cause, "keep-bind realloc without CPU change moved the workload: "+detail(), kc)
	}
	if movedNUMA > 0 {
		c.Violate("C33/numa-node-changed"+cause, "keep-bind realloc without CPU change changed the NUMA node: "+detail(), kc)
	}
	if c.WantSample() && kc.NUMA && kc.Other != nil && len(kc.Cap) >= 3 && kc.MemDelta != 0 {
		c.Sample(map[string]any{"case": kc, "repetitions": reps, "moved": moved, "numa_changed": movedNUMA})
	}
}
