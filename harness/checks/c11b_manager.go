package checks

import (
	"context"
	"errors"
	"fmt"
	"sort"
	"sync"

	enginetypes "github.com/projecteru2/core/engine/types"
	"github.com/projecteru2/core/resource/cobalt"
	"github.com/projecteru2/core/resource/plugins"
	plugintypes "github.com/projecteru2/core/resource/plugins/types"
	resourcetypes "github.com/projecteru2/core/resource/types"
	coretypes "github.com/projecteru2/core/types"

	"verif/harness/vcore"
)

// C11, manager part: "plugin add/remove with compensations" (resource/cobalt/node.go). The
// cluster-level search runs with the one built-in plugin, so a compensation that forgets a
// plugin cannot show there. Here the REAL cobalt manager holds three small stateful plugins;
// every node-level manager operation is run with each plugin in turn failing its forward
// call (compensating calls succeed), in every registration order; after a call that reports
// failure every plugin's state must be what it was before.

type c11mNode struct{ Cap, Use int }

type c11mPlugin struct {
	c9Plugin
	mu     sync.Mutex
	nodes  map[string]c11mNode
	failOn string // the forward call of this kind fails once
}

var errC11m = errors.New("c11m: injected plugin failure")

func (p *c11mPlugin) hit(kind string) bool {
	if p.failOn == kind {
		p.failOn = ""
		return true
	}
	return false
}

func c11mV(r map[string]any) (int, bool) {
	if r == nil {
		return 0, false
	}
	switch v := r["v"].(type) {
	case int:
		return v, true
	case int64:
		return int(v), true
	case float64:
		return int(v), true
	}
	return 0, false
}

func c11mRaw(v int) map[string]any { return map[string]any{"v": v} }

func (p *c11mPlugin) AddNode(_ context.Context, node string, req plugintypes.NodeResourceRequest, _ *enginetypes.Info) (*plugintypes.AddNodeResponse, error) {
	p.mu.Lock()
	defer p.mu.Unlock()
	if p.hit("AddNode") {
		return nil, errC11m
	}
	if _, ok := p.nodes[node]; ok {
		return nil, coretypes.ErrNodeExists
	}
	c, ok := c11mV(req)
	if !ok {
		c = 10
	}
	p.nodes[node] = c11mNode{Cap: c}
	return &plugintypes.AddNodeResponse{Capacity: c11mRaw(c), Usage: c11mRaw(0)}, nil
}

func (p *c11mPlugin) RemoveNode(_ context.Context, node string) (*plugintypes.RemoveNodeResponse, error) {
	p.mu.Lock()
	defer p.mu.Unlock()
	if p.hit("RemoveNode") {
		return nil, errC11m
	}
	delete(p.nodes, node)
	return &plugintypes.RemoveNodeResponse{}, nil
}

func (p *c11mPlugin) GetNodeResourceInfo(_ context.Context, node string, _ []plugintypes.WorkloadResource) (*plugintypes.GetNodeResourceInfoResponse, error) {
	p.mu.Lock()
	defer p.mu.Unlock()
	n, ok := p.nodes[node]
	if !ok {
		return nil, coretypes.ErrInvaildCount
	}
	return &plugintypes.GetNodeResourceInfoResponse{Capacity: c11mRaw(n.Cap), Usage: c11mRaw(n.Use)}, nil
}

func (p *c11mPlugin) SetNodeResourceInfo(_ context.Context, node string, capacity plugintypes.NodeResource, usage plugintypes.NodeResource) (*plugintypes.SetNodeResourceInfoResponse, error) {
	p.mu.Lock()
	defer p.mu.Unlock()
	c, _ := c11mV(capacity)
	u, _ := c11mV(usage)
	p.nodes[node] = c11mNode{Cap: c, Use: u}
	return &plugintypes.SetNodeResourceInfoResponse{}, nil
}

func (p *c11mPlugin) set(node string, resource, request map[string]any, delta, incr bool, usage bool, kind string) (before, after map[string]any, err error) {
	p.mu.Lock()
	defer p.mu.Unlock()
	n, ok := p.nodes[node]
	if !ok {
		return nil, nil, coretypes.ErrInvaildCount
	}
	v, has := c11mV(resource)
	if !has {
		v, has = c11mV(request)
	}
	if delta && p.hit(kind) { // only the forward (delta) call is made to fail; the compensating call is absolute
		return nil, nil, errC11m
	}
	cur := &n.Cap
	if usage {
		cur = &n.Use
	}
	old := *cur
	if has {
		switch {
		case !delta:
			*cur = v
		case incr:
			*cur += v
		default:
			*cur -= v
		}
	}
	p.nodes[node] = n
	return c11mRaw(old), c11mRaw(*cur), nil
}

func (p *c11mPlugin) SetNodeResourceCapacity(_ context.Context, node string, resource plugintypes.NodeResource, request plugintypes.NodeResourceRequest, delta bool, incr bool) (*plugintypes.SetNodeResourceCapacityResponse, error) {
	b, a, err := p.set(node, resource, request, delta, incr, false, "SetNodeResourceCapacity")
	if err != nil {
		return nil, err
	}
	return &plugintypes.SetNodeResourceCapacityResponse{Before: b, After: a}, nil
}

func (p *c11mPlugin) SetNodeResourceUsage(_ context.Context, node string, resource plugintypes.NodeResource, request plugintypes.NodeResourceRequest, _ []plugintypes.WorkloadResource, delta bool, incr bool) (*plugintypes.SetNodeResourceUsageResponse, error) {
	b, a, err := p.set(node, resource, request, delta, incr, true, "SetNodeResourceUsage")
	if err != nil {
		return nil, err
	}
	return &plugintypes.SetNodeResourceUsageResponse{Before: b, After: a}, nil
}

type c11mCase struct {
	Order []int  `json:"registration_order"`
	Op    string `json:"manager_call"`
	Fail  int    `json:"failing_plugin"` // -1 = none
}

func c11Manager(c *vcore.Ctx, replay *c11mCase) {
	ops := []string{"AddNode", "RemoveNode", "SetNodeResourceCapacity", "SetNodeResourceUsage"}
	perms := [][]int{{0, 1, 2}, {0, 2, 1}, {1, 0, 2}, {1, 2, 0}, {2, 0, 1}, {2, 1, 0}}
	c.Bound("manager_part_plugins", 3)
	if replay != nil {
		c11mOne(c, replay)
		return
	}
	for _, perm := range perms {
		for _, op := range ops {
			for fail := -1; fail < 3; fail++ {
				c11mOne(c, &c11mCase{Order: perm, Op: op, Fail: fail})
			}
		}
	}
}

func c11mOne(c *vcore.Ctx, cc *c11mCase) {
	c.Eval()
	c.Exec()
	names := []string{"pa", "pb", "pc"}
	ps := make([]*c11mPlugin, 3)
	for i := range ps {
		ps[i] = &c11mPlugin{c9Plugin: c9Plugin{name: names[i]}, nodes: map[string]c11mNode{"n1": {Cap: 10, Use: 2}}}
	}
	if cc.Fail >= 0 {
		ps[cc.Fail].failOn = cc.Op
	}
	mgr, err := cobalt.New(coretypes.Config{})
	if err != nil {
		c.HarnessError("cobalt.New: %v", err)
		return
	}
	reg := make([]plugins.Plugin, 3)
	for i, pi := range cc.Order {
		reg[i] = ps[pi]
	}
	mgr.AddPlugins(reg...)
	snapshot := func() string {
		var parts []string
		for _, p := range ps {
			p.mu.Lock()
			var ns []string
			for n, v := range p.nodes {
				ns = append(ns, fmt.Sprintf("%s=%d/%d", n, v.Use, v.Cap))
			}
			p.mu.Unlock()
			sort.Strings(ns)
			parts = append(parts, p.name+"{"+fmt.Sprint(ns)+"}")
		}
		return fmt.Sprint(parts)
	}
	pre := snapshot()
	all := func(v int) resourcetypes.Resources {
		r := resourcetypes.Resources{}
		for _, n := range names {
			r[n] = resourcetypes.RawParams{"v": v}
		}
		return r
	}
	var callErr error
	switch cc.Op {
	case "AddNode":
		_, callErr = mgr.AddNode(bg, "n2", all(7), &enginetypes.Info{})
	case "RemoveNode":
		callErr = mgr.RemoveNode(bg, "n1")
	case "SetNodeResourceCapacity":
		_, _, callErr = mgr.SetNodeResourceCapacity(bg, "n1", all(5), nil, true, true)
	case "SetNodeResourceUsage":
		_, _, callErr = mgr.SetNodeResourceUsage(bg, "n1", all(3), nil, nil, true, true)
	}
	post := snapshot()
	wc := &wCase{Mgr: cc}
	c.Outcome(fmt.Sprintf("manager %s fail=%v err=%v changed=%v", cc.Op, cc.Fail >= 0, callErr != nil, pre != post))
	switch {
	case cc.Fail >= 0 && callErr == nil:
		c.Violate("C11/manager/"+cc.Op+"/plugin-failure-not-reported", fmt.Sprintf("plugin %s failed its %s but the manager reported success | case=%s", names[cc.Fail], cc.Op, vcore.JSON(cc)), wc)
	case callErr != nil && pre != post:
		c.Violate("C11/manager/"+cc.Op+"/state-changed", fmt.Sprintf("the manager's %s reported failure (%v) but the plugins' state changed: before %s, after %s | case=%s", cc.Op, callErr, pre, post, vcore.JSON(cc)), wc)
	case cc.Fail < 0 && callErr != nil:
		c.HarnessError("manager part: fault-free %s failed: %v", cc.Op, callErr)
	}
	if cc.Fail >= 0 {
		c.Nontrivial("M|" + vcore.JSON(cc))
	}
}
