package checks

import (
	"context"
	"fmt"
	"os"
	"sort"
	"strconv"
	"strings"
	"testing"

	"github.com/projecteru2/core/store"

	"verif/harness/vcore"
	"verif/harness/world"
)

// C13: deploy status counts are exact and in-progress markers are cleaned up (both store
// backends). Before every intercepted step of a running deployment - with all other steps
// of the instance held back, so the observation is atomic - the per-node
// deployed-plus-in-progress count of the application entrypoint is read from the backend;
// every deployment is run fault-free and once per step with that step failing.

func init() {
	register(Meta{ID: "C13", Level: "fault_enumeration", BudgetQuick: 240, BudgetThor: 1800, GoMaxProcs: 2},
		func(t *testing.T, c *vcore.Ctx) { c13Explore(t, c) })
}

type c13Case struct {
	Backend string     `json:"backend"`
	Pre     []wOp      `json:"pre_history"`
	Op      wOp        `json:"deployment"`
	Fault   *faultSpec `json:"fault,omitempty"`
}

// deployStatus computes, hook-free, what Store.GetDeployStatus(app, web) is defined to
// return: recorded workloads per node plus the values of the processing markers per node.
func deployStatus(b *world.Backend, redis bool) (status map[string]int, recorded map[string]int, markers map[string]int) {
	status, recorded, markers = map[string]int{}, map[string]int{}, map[string]int{}
	add := func(key, val string) {
		switch {
		case strings.HasPrefix(key, "/deploy/app/web/"):
			parts := strings.Split(key, "/")
			n := parts[len(parts)-2]
			status[n]++
			recorded[n]++
		case strings.HasPrefix(key, "/processing/app/web/"):
			parts := strings.Split(key, "/")
			n := parts[len(parts)-2]
			v, _ := strconv.Atoi(val)
			status[n] += v
			markers[n]++
		}
	}
	if redis {
		for _, k := range b.Redis.Keys() {
			v, _ := b.Redis.Get(k)
			add(k, v)
		}
	} else {
		for _, e := range b.Etcd.Dump("") {
			add(e.Key, e.Value)
		}
	}
	return
}

func c13Explore(t *testing.T, c *vcore.Ctx) {
	dir := os.Getenv("VERIF_TMP")
	if dir == "" {
		dir = t.TempDir()
	}
	c.SetRule("deployments {1 node x 1, 1 node x 2, AUTO x 2 and x 3 over two nodes, EACH x 1} of bound and memory-only instances from pre-states {empty, one instance of the same entrypoint present}, on the etcd and the redis store; the status is observed before every intercepted step; each deployment runs fault-free and once per step with that step failing; non-trivial = distinct (backend, pre-state, deployment, failing step) runs in which at least one in-progress marker was observed")
	c.Assume("observations are taken with every other backend request of the instance held back (atomic); a concurrent reader using the two-read GetDeployStatus is not modelled here")
	ops := []wOp{
		{Kind: "create", Strategy: "AUTO", Count: 1, Req: "mem", Include: []string{"n1"}},
		{Kind: "create", Strategy: "AUTO", Count: 2, Req: "bind1", Include: []string{"n1"}},
		{Kind: "create", Strategy: "AUTO", Count: 2, Req: "mem"},
		{Kind: "create", Strategy: "EACH", Count: 1, Req: "bind1"},
	}
	if c.Thorough() {
		ops = append(ops, wOp{Kind: "create", Strategy: "AUTO", Count: 3, Req: "mem"}, wOp{Kind: "create", Strategy: "FILL", Count: 2, Req: "mem"}, wOp{Kind: "create", Strategy: "AUTO", Count: 3, Req: "bind1"})
	}
	pres := [][]wOp{{}, {{Kind: "create", Strategy: "AUTO", Count: 1, Req: "mem", Include: []string{"n1"}}},
		// instances of sibling entrypoints whose names share a prefix with "web" must not be counted
		{{Kind: "create", Strategy: "AUTO", Count: 2, Req: "mem", Include: []string{"n1"}, Entry: "web2"}, {Kind: "create", Strategy: "AUTO", Count: 1, Req: "mem", Include: []string{"n2"}, Entry: "we"}}}
	var idx int64
	for _, be := range []string{"etcd", "redis"} {
		redis := be == "redis"
		b := world.NewBackend(dir, redis)
		opts := world.InstanceOpts{Redis: redis}
		snap0, err := c13Cluster(t, b, opts)
		if err != nil {
			c.HarnessError("cluster on %s: %v", be, err)
			b.Close()
			return
		}
		prep := func(pre []wOp) *world.Snap {
			b.Restore(snap0)
			snap := snap0
			for _, op := range pre {
				b.Restore(snap)
				wexec(t, b, opts, nil, 7, func(ctx context.Context, inst *world.Instance) { runOp(ctx, inst, op, b.View(redis)) }, nil)
				snap = b.Save()
			}
			return snap
		}
		if c.Replay != nil {
			var cc c13Case
			if err := jsonUnmarshal(c.Replay, &cc); err != nil {
				c.HarnessError("replay: %v", err)
				return
			}
			if cc.Backend == be {
				c13One(t, c, b, opts, prep(cc.Pre), &cc)
			}
			b.Close()
			continue
		}
		for _, pre := range pres {
			snap := prep(pre)
			for _, op := range ops {
				idx++
				if !c.Mine(idx) {
					continue
				}
				if c.Expired() {
					c.CapHit("budget reached")
					b.Close()
					return
				}
				steps := c13One(t, c, b, opts, snap, &c13Case{Backend: be, Pre: pre, Op: op})
				for _, f := range stepList(steps) {
					f := f
					if c.Expired() {
						c.CapHit("budget reached during fault enumeration")
						b.Close()
						return
					}
					c13One(t, c, b, opts, snap, &c13Case{Backend: be, Pre: pre, Op: op, Fault: &f})
				}
			}
		}
		b.Close()
	}
}

func c13Cluster(t *testing.T, b *world.Backend, opts world.InstanceOpts) (*world.Snap, error) {
	var err error
	tr := wexec(t, b, opts, nil, 1, func(ctx context.Context, inst *world.Instance) {
		if _, e := inst.Cal.AddPod(ctx, "p", ""); e != nil {
			err = e
			return
		}
		for _, n := range []world.NodeSpec{{Name: "n1", Pod: "p", CPU: 4, Memory: 400, Test: true}, {Name: "n2", Pod: "p", CPU: 4, Memory: 400, Test: true}} {
			if _, e := inst.Cal.AddNode(ctx, n.Options()); e != nil {
				err = e
				return
			}
		}
	}, nil)
	if tr.Deadlock != "" {
		return nil, fmt.Errorf("%s", tr.Deadlock)
	}
	return b.Save(), err
}

func c13One(t *testing.T, c *vcore.Ctx, b *world.Backend, opts world.InstanceOpts, snap *world.Snap, cc *c13Case) []string {
	b.Restore(snap)
	redis := cc.Backend == "redis"
	prior, _, _ := deployStatus(b, redis)
	planned := map[string]int{}
	var problems []string
	sawMarker := false
	nObs := 0
	maxStatus := map[string]int{} // highest count observed per node while the deployment ran
	var obsStore store.Store
	var obsClose func()
	observe := func(where string) {
		status, recorded, markers := deployStatus(b, redis)
		// the count itself comes from the real Store.GetDeployStatus of an un-intercepted store;
		// recorded workloads and markers come from the hook-free dump
		if obsStore == nil {
			obsStore, obsClose = b.NewObserverStore(redis)
		}
		// a request of another goroutine that passed its hook earlier may still be in flight, so
		// the real call is only judged when the stored keys were the same before and after it
		for try := 0; try < 4; try++ {
			real, err := obsStore.GetDeployStatus(context.Background(), "app", "web")
			status2, recorded2, markers2 := deployStatus(b, redis)
			stable := vcore.JSON(status) == vcore.JSON(status2) && vcore.JSON(recorded) == vcore.JSON(recorded2)
			if err == nil && stable {
				if vcore.JSON(real) != vcore.JSON(status) && len(problems) < 3 {
					problems = append(problems, fmt.Sprintf("reported-count-differs-from-stored-keys|%s: GetDeployStatus reports %v, recorded workloads + markers of this entrypoint give %v", where, real, status))
				}
				status = real
				break
			}
			status, recorded, markers = status2, recorded2, markers2
		}
		nObs++
		nodes := map[string]bool{}
		for n := range status {
			nodes[n] = true
			if status[n] > maxStatus[n] {
				maxStatus[n] = status[n]
			}
		}
		for n := range prior {
			nodes[n] = true
		}
		for n := range nodes {
			if markers[n] > 0 {
				sawMarker = true
				if _, ok := planned[n]; !ok {
					// the marker has just been created: its value is the number planned for the node
					planned[n] = status[n] - recorded[n]
				}
			}
			if status[n] > prior[n]+planned[n] && len(problems) < 3 {
				problems = append(problems, fmt.Sprintf("count-above-prior-plus-planned|%s: node %s count %d > prior %d + planned %d", where, n, status[n], prior[n], planned[n]))
			}
			if status[n] < recorded[n] && len(problems) < 3 {
				problems = append(problems, fmt.Sprintf("count-below-recorded|%s: node %s count %d < recorded workloads %d", where, n, status[n], recorded[n]))
			}
			if status[n] < prior[n] && len(problems) < 3 {
				problems = append(problems, fmt.Sprintf("count-below-prior|%s: node %s count %d < prior count %d", where, n, status[n], prior[n]))
			}
		}
	}
	var res wResult
	pre := b.View(redis)
	tr := wexec(t, b, opts, cc.Fault, 11,
		func(ctx context.Context, inst *world.Instance) { res = runOp(ctx, inst, cc.Op, pre) },
		func(ctx context.Context, inst *world.Instance) {
			observe("after return")
			if obsClose != nil {
				obsClose()
				obsStore, obsClose = nil, nil
			}
		},
		func(label string, occ int, s world.Step) { observe("before " + label) })
	if obsClose != nil { // the run ended without reaching the final observation (stuck call)
		obsClose()
	}
	c.Eval()
	c.Exec()
	if cc.Fault != nil && !tr.Delivered {
		c.Outcome("fault-not-delivered")
		return tr.Steps
	}
	viol := func(sig, detail string) {
		cls := "no-fault"
		if cc.Fault != nil {
			cls = faultLayer(&wCase{Fault: cc.Fault})
		}
		c.Violate("C13/"+cc.Backend+"/"+cls+"/"+sig, detail+" | case="+vcore.JSON(cc)+" result="+res.summary(), cc)
	}
	if tr.Deadlock != "" {
		viol("deployment-stuck", firstLine(tr.Deadlock))
		return tr.Steps
	}
	for _, p := range problems {
		i := strings.Index(p, "|")
		viol(p[:i], p[i+1:])
	}
	// the number planned per node, taken from the result stream (one message per planned instance, each naming
	// its node) instead of from the marker itself: a marker created too large must not justify itself
	if res.Err == "" && len(res.Items) > 0 {
		plannedMsgs, complete := map[string]int{}, true
		for _, it := range res.Items {
			if it.Node == "" {
				complete = false
				break
			}
			plannedMsgs[it.Node]++
		}
		if complete {
			var ns []string
			for n := range maxStatus {
				ns = append(ns, n)
			}
			sort.Strings(ns)
			for _, n := range ns {
				if maxStatus[n] > prior[n]+plannedMsgs[n] {
					viol("count-above-prior-plus-planned", fmt.Sprintf("node %s: the count reached %d while the deployment ran; prior %d + %d instance(s) reported for that node", n, maxStatus[n], prior[n], plannedMsgs[n]))
				}
			}
		}
	}
	// after return: count = recorded workloads, no marker of this deployment left
	status, recorded, markers := deployStatus(b, redis)
	var ns []string
	for n := range status {
		ns = append(ns, n)
	}
	sort.Strings(ns)
	for _, n := range ns {
		if status[n] != recorded[n] {
			viol("final-count-differs-from-recorded", fmt.Sprintf("after return node %s count %d, recorded workloads %d", n, status[n], recorded[n]))
		}
		if markers[n] > 0 {
			viol("marker-left-behind", fmt.Sprintf("after return node %s still has %d in-progress marker(s)", n, markers[n]))
		}
	}
	c.Outcome(cc.Backend + ":" + res.summary())
	if sawMarker {
		c.Nontrivial(vcore.JSON(cc))
		if c.WantSample() && cc.Fault != nil {
			c.Sample(map[string]any{"case": cc, "observations": nObs, "prior": prior, "planned": planned, "final": status})
		}
	}
	return tr.Steps
}
