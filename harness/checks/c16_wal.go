package checks

import (
	"context"
	"encoding/json"
	"errors"
	"fmt"
	"os"
	"path/filepath"
	"sort"
	"strconv"
	"strings"
	"testing"
	"time"

	"github.com/projecteru2/core/wal"
	walkv "github.com/projecteru2/core/wal/kv"
	"go.etcd.io/bbolt"

	"verif/harness/vcore"
)

// C16: the recovery log replays exactly the uncommitted events.
//
// Part "seq": explicit-state breadth-first search over histories of Log / Commit / Reopen /
// Recover(script) on the REAL wal.Hydro over the REAL kv.Lithium (bbolt file). A live bbolt
// handle (and the commit closures bound to it) cannot be cloned, so every successor is built by
// replaying the shortest history that reaches its parent on a fresh file and then applying ONE
// more real operation; the file is observed (copied and opened read-only with bbolt itself)
// right after that operation and compared with the parent's observation (a replay of a single
// counterexample observes it before the operation as well). The reference model below is written from the
// property text only; it never calls into the wal package.
//
// Part "conc": two loggers (Log; optional Commit) and one Recover, serialised by an explicit
// scheduler at kv.KV granularity (wal.NewHydroWithKV over a wrapper of the real Lithium whose
// NextSequence/Put/Delete/Scan park until the scheduler releases them); all interleavings of the
// parked operations are enumerated (stateless DFS over choice sequences, fresh file each).

func init() {
	register(Meta{ID: "C16", Level: "model_checking", BudgetQuick: 200, BudgetThor: 1500, GoMaxProcs: 2},
		func(t *testing.T, c *vcore.Ctx) { c16Check(c) })
}

// ---------------------------------------------------------------- alphabet

type c16Out struct {
	Serial  int    `json:"serial"`
	Outcome string `json:"outcome"`
}

// c16Op is one operation of a history. Events are named by their serial: the n-th successful
// Log of the history carries the item "<x|y>#n", which is how the scripted handlers and the
// oracle recognise an event independently of the id the log gave it.
type c16Op struct {
	Op     string   `json:"op"` // log | commit | reopen | recover
	Type   string   `json:"type,omitempty"`
	Item   string   `json:"item,omitempty"`
	Serial int      `json:"serial,omitempty"`   // commit: whose handle
	Regs   string   `json:"handlers,omitempty"` // reopen: "AB" | "A"
	Script []c16Out `json:"script,omitempty"`   // recover: outcome per pending event, in id order
}

type c16Case struct {
	Part    string    `json:"part"` // seq | conc
	History []c16Op   `json:"history,omitempty"`
	Commit  [2]bool   `json:"loggers_commit,omitempty"`
	Outs    [2]string `json:"handler_outcomes,omitempty"`
	Choices []int     `json:"choices,omitempty"`
	Trace   []string  `json:"schedule,omitempty"`
}

var c16Outcomes = []string{"ok", "handler-error", "not-needed", "check-error", "decode-error"}

// ---------------------------------------------------------------- reference model

type c16Entry struct {
	ID     uint64 `json:"id"`
	Type   string `json:"type"`
	Item   string `json:"item"`
	Serial int    `json:"serial"`
}

type c16Handle struct {
	Serial  int  `json:"serial"`
	Stale   bool `json:"stale,omitempty"`   // obtained before the last reopen
	Commits int  `json:"commits,omitempty"` // how often it has been invoked
}

type c16Model struct {
	MaxID     uint64      `json:"max_id"`  // highest id ever issued (next id must be above it)
	Serials   int         `json:"logged"`  // successful Log operations so far
	Pending   []c16Entry  `json:"pending"` // logged, not committed, not removed by a recovery; id order
	Handles   []c16Handle `json:"handles"`
	Regs      string      `json:"handlers"`
	committed map[int]bool
	removed   map[int]bool
}

func (m *c16Model) key() string {
	return vcore.JSON(struct {
		A uint64
		B int
		C []c16Entry
		D []c16Handle
		E string
	}{m.MaxID, m.Serials, m.Pending, m.Handles, m.Regs})
}

func (m *c16Model) clone() *c16Model {
	n := &c16Model{MaxID: m.MaxID, Serials: m.Serials, Regs: m.Regs, committed: map[int]bool{}, removed: map[int]bool{}}
	n.Pending = append([]c16Entry{}, m.Pending...)
	n.Handles = append([]c16Handle{}, m.Handles...)
	for k := range m.committed {
		n.committed[k] = true
	}
	for k := range m.removed {
		n.removed[k] = true
	}
	return n
}

func c16Root() *c16Model {
	return &c16Model{Regs: "AB", Pending: []c16Entry{}, Handles: []c16Handle{}, committed: map[int]bool{}, removed: map[int]bool{}}
}

func (m *c16Model) pendingBySerial(s int) (c16Entry, bool) {
	for _, e := range m.Pending {
		if e.Serial == s {
			return e, true
		}
	}
	return c16Entry{}, false
}

func (m *c16Model) without(serials map[int]bool) []c16Entry {
	out := []c16Entry{}
	for _, e := range m.Pending {
		if !serials[e.Serial] {
			out = append(out, e)
		}
	}
	return out
}

// successors lists the operations enabled in a model state, simplest first.
func (m *c16Model) successors() []c16Op {
	var ops []c16Op
	for _, t := range []string{"A", "B"} {
		for _, it := range []string{"x", "y"} {
			ops = append(ops, c16Op{Op: "log", Type: t, Item: it})
		}
	}
	for _, h := range m.Handles {
		if h.Commits < 2 {
			ops = append(ops, c16Op{Op: "commit", Serial: h.Serial})
		}
	}
	ops = append(ops, c16Op{Op: "reopen", Regs: "AB"}, c16Op{Op: "reopen", Regs: "A"})
	// recover scripts: only events of a registered type consult a handler
	var idx []int
	base := make([]c16Out, len(m.Pending))
	for i, e := range m.Pending {
		base[i] = c16Out{Serial: e.Serial, Outcome: "ok"}
		if strings.Contains(m.Regs, e.Type) {
			idx = append(idx, i)
		} else {
			base[i].Outcome = "unknown-type"
		}
	}
	emit := func(assign map[int]string) {
		s := append([]c16Out{}, base...)
		for i, o := range assign {
			s[i].Outcome = o
		}
		ops = append(ops, c16Op{Op: "recover", Script: s})
	}
	if len(idx) <= 2 {
		var rec func(k int, cur map[int]string)
		rec = func(k int, cur map[int]string) {
			if k == len(idx) {
				cp := map[int]string{}
				for a, b := range cur {
					cp[a] = b
				}
				emit(cp)
				return
			}
			for _, o := range c16Outcomes {
				cur[idx[k]] = o
				rec(k+1, cur)
			}
		}
		rec(0, map[int]string{})
	} else {
		emit(nil)
		for a := 0; a < len(idx); a++ {
			for _, o := range c16Outcomes[1:] {
				emit(map[int]string{idx[a]: o})
			}
		}
		for a := 0; a < len(idx); a++ {
			for b := a + 1; b < len(idx); b++ {
				for _, oa := range c16Outcomes[1:] {
					for _, ob := range c16Outcomes[1:] {
						emit(map[int]string{idx[a]: oa, idx[b]: ob})
					}
				}
			}
		}
	}
	return ops
}

// ---------------------------------------------------------------- real execution

type c16Call struct {
	Call    string `json:"call"` // decode | check | handle
	Serial  int    `json:"serial"`
	Handler string `json:"handler"`
}

type c16Scripted struct {
	script map[int]string
	calls  []c16Call
}

type c16Handler struct {
	typ string
	s   *c16Scripted
}

func c16SerialOf(item string) int {
	if i := strings.IndexByte(item, '#'); i >= 0 {
		n, _ := strconv.Atoi(item[i+1:])
		return n
	}
	return -1
}

func (h c16Handler) Typ() string { return h.typ }
func (h c16Handler) Encode(item any) ([]byte, error) {
	s, ok := item.(string)
	if !ok {
		return nil, errors.New("not a string")
	}
	return []byte(s), nil
}
func (h c16Handler) Decode(b []byte) (any, error) {
	n := c16SerialOf(string(b))
	h.s.calls = append(h.s.calls, c16Call{"decode", n, h.typ})
	if h.s.script[n] == "decode-error" {
		return nil, errors.New("scripted decode error")
	}
	return string(b), nil
}
func (h c16Handler) Check(_ context.Context, raw any) (bool, error) {
	n := c16SerialOf(raw.(string))
	h.s.calls = append(h.s.calls, c16Call{"check", n, h.typ})
	switch h.s.script[n] {
	case "check-error":
		return false, errors.New("scripted check error")
	case "not-needed":
		return false, nil
	}
	return true, nil
}
func (h c16Handler) Handle(_ context.Context, raw any) error {
	n := c16SerialOf(raw.(string))
	h.s.calls = append(h.s.calls, c16Call{"handle", n, h.typ})
	if h.s.script[n] == "handler-error" {
		return errors.New("scripted handler error")
	}
	return nil
}

// c16Dir is the per-worker scratch directory (the orchestrator puts VERIF_TMP on tmpfs when it
// can: every bbolt transaction ends with fdatasync, which on a disk dominates the search).
func c16Dir() string {
	if d := os.Getenv("VERIF_TMP"); d != "" {
		return d
	}
	return os.TempDir()
}

// c16ReadFile observes a log file without disturbing the handle that has it open: the bytes are
// copied (every bbolt transaction is complete and synced when the call that made it returns) and
// the copy is opened read-only with bbolt. Keys and values are decoded here, independently of
// the wal package.
func c16ReadFile(path string) ([]c16Entry, error) {
	data, err := os.ReadFile(path)
	if err != nil {
		return nil, err
	}
	obs := path + ".obs"
	if err := os.WriteFile(obs, data, 0o600); err != nil {
		return nil, err
	}
	defer os.Remove(obs)
	db, err := bbolt.Open(obs, 0o600, &bbolt.Options{ReadOnly: true, Timeout: 2 * time.Second})
	if err != nil {
		return nil, err
	}
	defer db.Close()
	out := []c16Entry{}
	err = db.View(func(tx *bbolt.Tx) error {
		b := tx.Bucket([]byte("root"))
		if b == nil {
			return errors.New("no root bucket")
		}
		return b.ForEach(func(k, v []byte) error {
			e, err := c16DecodeKV(k, v)
			if err != nil {
				return err
			}
			out = append(out, e)
			return nil
		})
	})
	sort.Slice(out, func(i, j int) bool { return out[i].ID < out[j].ID })
	return out, err
}

func c16DecodeKV(k, v []byte) (c16Entry, error) {
	const prefix = "/events/"
	ks := string(k)
	if !strings.HasPrefix(ks, prefix) {
		return c16Entry{}, fmt.Errorf("foreign key %q", ks)
	}
	id, err := strconv.ParseUint(ks[len(prefix):], 16, 64)
	if err != nil {
		return c16Entry{}, fmt.Errorf("key %q: %v", ks, err)
	}
	var val struct {
		ID   uint64 `json:"ID"`
		Type string `json:"type"`
		Item []byte `json:"item"`
	}
	if err := json.Unmarshal(v, &val); err != nil {
		return c16Entry{}, fmt.Errorf("value of %q: %v", ks, err)
	}
	if val.ID != id {
		return c16Entry{}, fmt.Errorf("key %q holds an event with id %d", ks, val.ID)
	}
	item := string(val.Item)
	e := c16Entry{ID: id, Type: val.Type, Serial: c16SerialOf(item)}
	if i := strings.IndexByte(item, '#'); i >= 0 {
		e.Item = item[:i]
	} else {
		e.Item = item
	}
	return e, nil
}

type c16Result struct {
	Before []c16Entry
	After  []c16Entry
	Err    string
	Calls  []c16Call
	Fatal  string
}

// c16Run replays a history on a fresh file through the real Hydro and observes the file
// after the last operation (and right before it when before is set; the search passes the
// parent's own observation instead, which is the same file contents by determinism of the replay).
func c16Run(hist []c16Op, tag string, before bool) (res c16Result) {
	path := filepath.Join(c16Dir(), "c16-"+tag+".wal")
	os.Remove(path)
	defer os.Remove(path)
	sc := &c16Scripted{}
	register := func(h *wal.Hydro, regs string) {
		for _, t := range regs {
			h.Register(c16Handler{typ: string(t), s: sc})
		}
	}
	h, err := wal.NewHydro(path, 2*time.Second)
	if err != nil {
		res.Fatal = "open: " + err.Error()
		return
	}
	defer func() { h.Close() }()
	register(h, "AB")
	serial := 0
	commits := map[int]wal.Commit{}
	for i, op := range hist {
		last := i == len(hist)-1
		if last && before {
			if res.Before, err = c16ReadFile(path); err != nil {
				res.Fatal = "observe before: " + err.Error()
				return
			}
		}
		var opErr error
		switch op.Op {
		case "log":
			var cm wal.Commit
			cm, opErr = h.Log(op.Type, fmt.Sprintf("%s#%d", op.Item, serial+1))
			if opErr == nil {
				serial++
				commits[serial] = cm
			}
		case "commit":
			cm, ok := commits[op.Serial]
			if !ok {
				res.Fatal = fmt.Sprintf("history commits handle %d that was never obtained", op.Serial)
				return
			}
			opErr = cm()
		case "reopen":
			if err := h.Close(); err != nil {
				res.Fatal = "close: " + err.Error()
				return
			}
			if h, err = wal.NewHydro(path, 2*time.Second); err != nil {
				res.Fatal = "reopen: " + err.Error()
				return
			}
			register(h, op.Regs)
		case "recover":
			sc.script = map[int]string{}
			for _, o := range op.Script {
				sc.script[o.Serial] = o.Outcome
			}
			sc.calls = nil
			h.Recover(context.Background())
			if last {
				res.Calls = sc.calls
			}
		default:
			res.Fatal = "unknown op " + op.Op
			return
		}
		if last {
			if opErr != nil {
				res.Err = opErr.Error()
			}
			if res.After, err = c16ReadFile(path); err != nil {
				res.Fatal = "observe after: " + err.Error()
				return
			}
		}
	}
	return
}

// ---------------------------------------------------------------- oracle (one transition)

type c16Viol struct{ sig, detail string }

func c16Diff(want, got []c16Entry) (missing, extra []c16Entry) {
	w := map[c16Entry]bool{}
	for _, e := range want {
		w[e] = true
	}
	g := map[c16Entry]bool{}
	for _, e := range got {
		g[e] = true
		if !w[e] {
			extra = append(extra, e)
		}
	}
	for _, e := range want {
		if !g[e] {
			missing = append(missing, e)
		}
	}
	return
}

// c16Step checks one real transition against the property and returns the model state after it.
// label is the observable result class of the transition.
func c16Step(m *c16Model, op c16Op, r *c16Result) (child *c16Model, label string, viols []c16Viol) {
	v := func(sig, f string, a ...any) { viols = append(viols, c16Viol{"C16/" + sig, fmt.Sprintf(f, a...)}) }
	child = m.clone()
	expectFile := func(want []c16Entry, lostSig, extraSig string) {
		missing, extra := c16Diff(want, r.After)
		for _, e := range missing {
			v(lostSig, "after %s the log no longer holds event %+v", op.Op, e)
		}
		for _, e := range extra {
			v(extraSig, "after %s the log holds %+v which it should not", op.Op, e)
		}
	}
	switch op.Op {
	case "log":
		if r.Err != "" {
			label = "log-refused"
			if !strings.Contains(m.Regs, op.Type) {
				label = "log-refused-unknown-type"
			}
			expectFile(m.Pending, "event-lost", "refused-log-left-event")
			return
		}
		label = "logged"
		serial := m.Serials + 1
		var fresh []c16Entry
		old := map[uint64]bool{}
		for _, e := range m.Pending {
			old[e.ID] = true
		}
		for _, e := range r.After {
			if e.Serial == serial {
				fresh = append(fresh, e)
			}
		}
		if len(fresh) != 1 || fresh[0].Type != op.Type || fresh[0].Item != op.Item {
			v("log-not-recorded", "Log(%s,%s) returned success but the log holds %+v for it", op.Type, op.Item, fresh)
			return
		}
		ne := fresh[0]
		if ne.ID <= m.MaxID || old[ne.ID] {
			v("id-reused", "Log got id %d although ids up to %d were already issued in this history", ne.ID, m.MaxID)
		}
		if ne.ID != m.MaxID+1 {
			label = "logged-with-id-gap"
		}
		expectFile(append(append([]c16Entry{}, m.Pending...), ne), "event-lost", "log-corrupted")
		child.Pending = append(child.Pending, ne)
		sort.Slice(child.Pending, func(i, j int) bool { return child.Pending[i].ID < child.Pending[j].ID })
		if ne.ID > child.MaxID {
			child.MaxID = ne.ID
		}
		child.Serials = serial
		child.Handles = append(child.Handles, c16Handle{Serial: serial})
	case "commit":
		hi := -1
		for i, h := range child.Handles {
			if h.Serial == op.Serial {
				hi = i
			}
		}
		_, pending := m.pendingBySerial(op.Serial)
		kind := "live"
		if child.Handles[hi].Stale {
			kind = "stale"
		}
		if child.Handles[hi].Commits > 0 {
			kind += "-again"
		}
		child.Handles[hi].Commits++
		if r.Err != "" {
			label = "commit-error/" + kind
			expectFile(m.Pending, "event-lost", "log-corrupted")
			return
		}
		label = "commit-ok/" + kind
		if !pending {
			label += "/event-already-gone"
		}
		want := m.without(map[int]bool{op.Serial: true})
		missing, extra := c16Diff(want, r.After)
		for _, e := range missing {
			v("event-lost", "committing event #%d removed event %+v", op.Serial, e)
		}
		for _, e := range extra {
			if e.Serial == op.Serial {
				v("committed-event-still-logged", "commit of event #%d returned success but the log still holds %+v", op.Serial, e)
			} else {
				v("log-corrupted", "after commit the log holds %+v", e)
			}
		}
		child.Pending = want
		child.committed[op.Serial] = true
	case "reopen":
		label = "reopened/" + op.Regs
		expectFile(m.Pending, "event-lost", "log-corrupted")
		for i := range child.Handles {
			child.Handles[i].Stale = true
		}
		child.Regs = op.Regs
	case "recover":
		script := map[int]string{}
		for _, o := range op.Script {
			script[o.Serial] = o.Outcome
		}
		var wantHandled []int
		gone := map[int]bool{}
		for _, e := range m.Pending {
			if !strings.Contains(m.Regs, e.Type) {
				continue
			}
			switch script[e.Serial] {
			case "ok":
				wantHandled = append(wantHandled, e.Serial)
				gone[e.Serial] = true
			case "handler-error":
				wantHandled = append(wantHandled, e.Serial)
			case "not-needed":
				gone[e.Serial] = true
			}
		}
		seen := map[int]int{}
		var lastID uint64
		nHandled := 0
		for _, cl := range r.Calls {
			e, pending := m.pendingBySerial(cl.Serial)
			if !pending {
				switch {
				case m.committed[cl.Serial] && cl.Call == "handle":
					v("handled-committed-event", "recovery handled event #%d which had been committed", cl.Serial)
				case m.committed[cl.Serial]:
					v("handler-consulted-for-committed-event", "recovery called %s for committed event #%d", cl.Call, cl.Serial)
				case cl.Call == "handle":
					v("handled-removed-event", "recovery handled event #%d which is not an uncommitted logged event", cl.Serial)
				default:
					v("handler-consulted-for-removed-event", "recovery called %s for event #%d which is not an uncommitted logged event", cl.Call, cl.Serial)
				}
				continue
			}
			if cl.Handler != e.Type {
				v("wrong-handler", "event #%d of type %s was given to the handler of %s", cl.Serial, e.Type, cl.Handler)
			}
			if cl.Call != "handle" {
				continue
			}
			nHandled++
			seen[cl.Serial]++
			if seen[cl.Serial] == 2 {
				v("handled-twice", "recovery handled event #%d (id %d) more than once", cl.Serial, e.ID)
				continue
			}
			if e.ID < lastID {
				v("handler-order", "recovery handled event id %d after id %d", e.ID, lastID)
			}
			if e.ID > lastID {
				lastID = e.ID
			}
			switch script[cl.Serial] {
			case "ok", "handler-error":
			default:
				v("handled-though-not-needed", "recovery handled event #%d although its outcome was %q", cl.Serial, script[cl.Serial])
			}
		}
		for _, s := range wantHandled {
			if seen[s] == 0 {
				v("event-not-replayed", "recovery did not handle uncommitted event #%d (outcome %s)", s, script[s])
			}
		}
		want := m.without(gone)
		missing, extra := c16Diff(want, r.After)
		for _, e := range missing {
			v("event-lost", "recovery removed event %+v whose outcome was %q", e, script[e.Serial])
		}
		for _, e := range extra {
			if _, was := m.pendingBySerial(e.Serial); was {
				v("event-not-removed", "recovery left event %+v in the log although its outcome was %q", e, script[e.Serial])
			} else {
				v("log-corrupted", "after recovery the log holds %+v", e)
			}
		}
		child.Pending = want
		for s := range gone {
			child.removed[s] = true
		}
		label = fmt.Sprintf("recovered/pending=%d/handled=%d/removed=%d", len(m.Pending), nHandled, len(m.Pending)-len(r.After))
	}
	return
}

// ---------------------------------------------------------------- search

type c16Node struct {
	hist  []c16Op
	model *c16Model
}

func c16Check(c *vcore.Ctx) {
	c.SetRule("seq: breadth-first search over histories of Log(type A|B, item x|y), Commit(any handle invoked fewer than twice, also stale ones), Reopen(handlers AB | A only), Recover(script giving every pending event of a registered type an outcome in {ok, handler error, not needed, check error, decode error}) on the real Hydro+Lithium; each transition = replay of the shortest history on a fresh bbolt file + one real operation, file contents observed after it and compared with the parent's observed contents; de-duplicated per worker on (file contents as (id,type,item,serial), highest id issued, handles (serial, stale, invocations), registered handlers); " +
		"conc: all interleavings at kv.KV granularity of 2 loggers (Log; Commit or not) and 1 Recover with handler outcomes {ok, handler error}^2; " +
		"non-trivial = a reached state whose log holds an event or that has an outstanding handle (distinct by canonical state), resp. an interleaving in which the recovery scan saw an event (distinct by configuration and schedule)")
	c.Assume("the log file is observed by copying it and opening the copy with bbolt read-only; bbolt itself is trusted to show committed transactions")
	c.Assume("conc: a kv.Scan is one scheduling step (the real Lithium scan runs inside one bbolt write transaction, so other operations cannot interleave with it)")
	if c.Replay != nil {
		var cs c16Case
		if err := jsonUnmarshal(c.Replay, &cs); err != nil {
			c.HarnessError("replay: %v", err)
			return
		}
		if cs.Part == "long" {
			var lc c16LongCase
			if err := jsonUnmarshal(c.Replay, &lc); err != nil {
				c.HarnessError("replay: %v", err)
				return
			}
			dir := os.Getenv("VERIF_TMP")
			if dir == "" {
				dir = os.TempDir()
			}
			c16LongOne(c, &lc, dir)
			return
		}
		if cs.Part == "conc" {
			if _, _, valid := c16ConcOne(c, &cs, cs.Choices, true); !valid {
				c.HarnessError("replay: schedule %v asks for a choice that does not exist", cs.Choices)
			}
			return
		}
		m := c16Root()
		for i := range cs.History {
			hist := cs.History[:i+1]
			c.State()
			m = c16Transition(c, m, hist, "replay", true)
			if m == nil {
				return
			}
		}
		return
	}
	depth := 4
	if c.Thorough() {
		depth = 6
	}
	c.Bound("seq_depth", depth)
	c.Bound("seq_recover_scripts", "all 5^k outcome vectors for k<=2 pending events of a registered type; for k>=3 every vector with at most 2 events deviating from ok")
	c.Bound("seq_commit", "a handle is invoked at most twice")
	c.Bound("conc", "2 loggers x (Log, Commit|none) + 1 Recover; handler outcomes {ok, handler-error} per event; all schedules")
	c16Seq(c, depth)
	if !c.Expired() {
		c16Conc(c)
	}
	if !c.Expired() {
		c16Long(c)
	}
}

// c16Transition runs hist on the real implementation, checks its last operation against the
// model state m (the state after hist[:len-1]) and returns the state after it (nil when the
// transition could not be evaluated or violated the property).
func c16Transition(c *vcore.Ctx, m *c16Model, hist []c16Op, tag string, report bool) *c16Model {
	op := hist[len(hist)-1]
	r := c16Run(hist, fmt.Sprintf("%s-%d", tag, c.Shard), tag == "replay")
	if tag != "replay" {
		r.Before = m.Pending
	}
	if report {
		c.Eval()
		c.Exec()
		c.Transition()
	}
	if r.Fatal != "" {
		c.HarnessError("C16 replay of %s failed: %s", vcore.JSON(hist), r.Fatal)
		return nil
	}
	if missing, extra := c16Diff(m.Pending, r.Before); len(missing)+len(extra) > 0 {
		c.HarnessError("C16 replay diverged from the recorded parent state: history %s, parent %s, file %s", vcore.JSON(hist), vcore.JSON(m.Pending), vcore.JSON(r.Before))
		return nil
	}
	child, label, viols := c16Step(m, op, &r)
	if !report {
		if len(viols) > 0 {
			return nil
		}
		return child
	}
	c.Outcome(op.Op + ":" + label)
	if len(viols) > 0 {
		for _, vi := range viols {
			c.Violate(vi.sig, fmt.Sprintf("%s | history=%s | file before=%s after=%s | handler calls=%s", vi.detail, vcore.JSON(hist), vcore.JSON(r.Before), vcore.JSON(r.After), vcore.JSON(r.Calls)),
				c16Case{Part: "seq", History: hist})
		}
		return nil
	}
	c.Validated(1)
	if c.WantSample() && op.Op == "recover" && len(hist) >= 4 && len(r.Calls) >= 4 && len(r.After) > 0 && len(r.After) < len(r.Before) {
		c.Sample(map[string]any{"part": "seq", "history": hist, "file_before_last_op": r.Before, "file_after": r.After, "handler_calls_of_last_recover": r.Calls, "state": child})
	}
	return child
}

func c16Seq(c *vcore.Ctx, depth int) {
	// levels below split are expanded identically by every worker (each transition and state is
	// counted and reported by one of them); the frontier at depth split is partitioned
	split := 2
	if c.Thorough() {
		split = 3
	}
	root := c16Root()
	seen := map[string]bool{root.key(): true}
	frontier := []*c16Node{{nil, root}}
	if c.Mine(0) {
		c.State()
	}
	var tIdx, sIdx int64
	for d := 0; d < depth; d++ {
		var next []*c16Node
		for _, n := range frontier {
			for _, op := range n.model.successors() {
				if c.Expired() {
					c.CapHit(fmt.Sprintf("seq: budget reached at depth %d", d))
					return
				}
				tIdx++
				owned := d >= split || c.Mine(tIdx)
				hist := append(append(make([]c16Op, 0, len(n.hist)+1), n.hist...), op)
				child := c16Transition(c, n.model, hist, "seq", owned)
				if child == nil {
					continue
				}
				k := child.key()
				if seen[k] {
					continue
				}
				seen[k] = true
				sIdx++
				if d+1 == split && !c.Mine(sIdx) {
					continue // another worker explores below this state
				}
				if d+1 < split && !c.Mine(sIdx) {
					next = append(next, &c16Node{hist, child}) // expanded by everyone, counted by its owner
					continue
				}
				c.State()
				if len(child.Pending) > 0 || len(child.Handles) > 0 {
					c.Nontrivial("seq/" + k)
				}
				next = append(next, &c16Node{hist, child})
			}
		}
		frontier = next
	}
}

// ---------------------------------------------------------------- concurrent loggers

type c16Ev struct {
	fin bool
	op  string
}

type c16Sched struct {
	events chan c16Ev
	resume [3]chan struct{}
	cur    int
	parked [3]string
	done   [3]bool
	real   walkv.KV
	step   int
	trace  []string
	hung   bool

	seqs     []uint64
	putStep  map[string]int // event key -> step at which its Put completed
	delStep  map[string]int // event key -> step at which the first Delete of it completed
	delBy    map[string][]int
	owner    map[string]int // event key -> goroutine that put it
	scanStep int
	scanKeys []string
}

var c16Names = [3]string{"L1", "L2", "R"}

func (s *c16Sched) park(op string) {
	g := s.cur
	s.events <- c16Ev{op: op}
	<-s.resume[g]
}

func (s *c16Sched) wait() bool {
	select {
	case ev := <-s.events:
		if ev.fin {
			s.done[s.cur] = true
		} else {
			s.parked[s.cur] = ev.op
		}
		return true
	case <-time.After(60 * time.Second): // liveness guard for the harness, never an oracle
		s.hung = true
		return false
	}
}

type c16KV struct{ s *c16Sched }

func (k c16KV) Open(string, os.FileMode, time.Duration) error { return nil }
func (k c16KV) Close() error                                  { return nil }
func (k c16KV) Get(key []byte) ([]byte, error)                { return k.s.real.Get(key) }
func (k c16KV) NextSequence() (uint64, error) {
	k.s.park("NextSequence")
	id, err := k.s.real.NextSequence()
	if err == nil {
		k.s.seqs = append(k.s.seqs, id)
	}
	return id, err
}
func (k c16KV) Put(key, val []byte) error {
	k.s.park("Put " + string(key))
	err := k.s.real.Put(key, val)
	if err == nil {
		k.s.putStep[string(key)] = k.s.step
		k.s.owner[string(key)] = k.s.cur
	}
	return err
}
func (k c16KV) Delete(key []byte) error {
	k.s.park("Delete " + string(key))
	err := k.s.real.Delete(key)
	if err == nil {
		if _, ok := k.s.delStep[string(key)]; !ok {
			k.s.delStep[string(key)] = k.s.step
		}
		k.s.delBy[string(key)] = append(k.s.delBy[string(key)], k.s.cur)
	}
	return err
}

type c16ScanEntry struct {
	k, v []byte
	err  error
}

func (e c16ScanEntry) Pair() ([]byte, []byte) { return e.k, e.v }
func (e c16ScanEntry) Error() error           { return e.err }

func (k c16KV) Scan(prefix []byte) (<-chan walkv.ScanEntry, func()) {
	k.s.park("Scan")
	ch, abort := k.s.real.Scan(prefix)
	var all []walkv.ScanEntry
	for e := range ch {
		if e.Error() != nil {
			all = append(all, c16ScanEntry{err: e.Error()})
			continue
		}
		key, val := e.Pair()
		all = append(all, c16ScanEntry{k: append([]byte{}, key...), v: append([]byte{}, val...)})
		k.s.scanKeys = append(k.s.scanKeys, string(key))
	}
	k.s.scanStep = k.s.step
	out := make(chan walkv.ScanEntry, len(all))
	for _, e := range all {
		out <- e
	}
	close(out)
	return out, abort
}

func c16Conc(c *vcore.Ctx) {
	var idx int64
	for _, commit := range [][2]bool{{true, true}, {true, false}, {false, false}} {
		for _, o1 := range []string{"ok", "handler-error"} {
			for _, o2 := range []string{"ok", "handler-error"} {
				for c0 := 0; c0 < 3; c0++ {
					for c1 := 0; c1 < 3; c1++ {
						idx++
						if !c.Mine(idx) {
							continue
						}
						cs := &c16Case{Part: "conc", Commit: commit, Outs: [2]string{o1, o2}}
						prefix := []int{c0, c1}
						for prefix != nil {
							if c.Expired() {
								c.CapHit("conc: budget reached")
								return
							}
							counts, choices, valid := c16ConcOne(c, cs, prefix, false)
							if !valid {
								break
							}
							prefix = nil
							for i := len(choices) - 1; i >= 2; i-- {
								if choices[i]+1 < counts[i] {
									prefix = append(append([]int{}, choices[:i]...), choices[i]+1)
									break
								}
							}
						}
					}
				}
			}
		}
	}
}

// c16ConcOne runs one schedule: prefix gives the first choices (index into the list of parked
// goroutines, in the order L1, L2, R), later choices are 0. It returns the number of enabled
// goroutines at every step and the choices taken; valid is false when the prefix asks for a
// choice that does not exist.
func c16ConcOne(c *vcore.Ctx, cs *c16Case, prefix []int, replay bool) (counts, choices []int, valid bool) {
	path := filepath.Join(c16Dir(), fmt.Sprintf("c16-conc-%d.wal", c.Shard))
	os.Remove(path)
	defer os.Remove(path)
	lith := walkv.NewLithium()
	if err := lith.Open(path, 0o600, 2*time.Second); err != nil {
		c.HarnessError("C16 conc open: %v", err)
		return nil, nil, false
	}
	defer lith.Close()
	s := &c16Sched{events: make(chan c16Ev), real: lith, putStep: map[string]int{}, delStep: map[string]int{}, delBy: map[string][]int{}, owner: map[string]int{}, scanStep: -1}
	for i := range s.resume {
		s.resume[i] = make(chan struct{})
	}
	sc := &c16Scripted{script: map[int]string{1: cs.Outs[0], 2: cs.Outs[1]}}
	h := wal.NewHydroWithKV(c16KV{s})
	h.Register(c16Handler{typ: "A", s: sc})
	h.Register(c16Handler{typ: "B", s: sc})
	var logErr [2]error
	logger := func(i int, typ string) func() {
		return func() {
			cm, err := h.Log(typ, fmt.Sprintf("x#%d", i+1))
			if err != nil {
				logErr[i] = err
				return
			}
			if cs.Commit[i] {
				logErr[i] = cm()
			}
		}
	}
	bodies := [3]func(){logger(0, "A"), logger(1, "B"), func() { h.Recover(context.Background()) }}
	for g := 0; g < 3; g++ {
		s.cur = g
		go func(g int) {
			bodies[g]()
			s.events <- c16Ev{fin: true}
		}(g)
		if !s.wait() {
			c.HarnessError("C16 conc: goroutine %s neither parked nor finished", c16Names[g])
			return nil, nil, false
		}
	}
	for {
		var enabled []int
		for g := 0; g < 3; g++ {
			if !s.done[g] && s.parked[g] != "" {
				enabled = append(enabled, g)
			}
		}
		if len(enabled) == 0 {
			break
		}
		ch := 0
		if len(choices) < len(prefix) {
			ch = prefix[len(choices)]
		}
		if ch >= len(enabled) {
			// release everything so that no goroutine is left behind, then report the prefix as invalid
			for len(enabled) > 0 {
				g := enabled[0]
				s.cur, s.parked[g] = g, ""
				s.resume[g] <- struct{}{}
				if !s.wait() {
					break
				}
				enabled = enabled[:0]
				for g := 0; g < 3; g++ {
					if !s.done[g] && s.parked[g] != "" {
						enabled = append(enabled, g)
					}
				}
			}
			return nil, nil, false
		}
		counts = append(counts, len(enabled))
		choices = append(choices, ch)
		g := enabled[ch]
		s.step++
		s.trace = append(s.trace, c16Names[g]+": "+s.parked[g])
		s.cur, s.parked[g] = g, ""
		s.resume[g] <- struct{}{}
		if !s.wait() {
			c.HarnessError("C16 conc: goroutine %s hung after %v", c16Names[g], s.trace)
			return nil, nil, false
		}
	}
	c.Eval()
	c.Exec()
	c.AddTransitions(int64(s.step))

	// ---- oracle
	run := c16Case{Part: "conc", Commit: cs.Commit, Outs: cs.Outs, Choices: choices, Trace: s.trace}
	viol := func(sig, f string, a ...any) {
		c.Violate("C16/"+sig, fmt.Sprintf(f, a...)+" | "+vcore.JSON(run), run)
	}
	for i, e := range logErr {
		if e != nil {
			c.Outcome("conc:logger-error")
			c.Note("conc: logger %d returned %v in %s", i+1, e, vcore.JSON(run))
		}
	}
	ids := map[uint64]bool{}
	for _, id := range s.seqs {
		if ids[id] {
			viol("id-reused", "concurrent loggers: sequence number %d issued twice", id)
		}
		ids[id] = true
	}
	if len(s.owner) != 2 && logErr[0] == nil && logErr[1] == nil {
		viol("id-reused", "concurrent loggers: two events were logged under %d distinct keys", len(s.owner))
	}
	final := map[string]bool{}
	fch, _ := lith.Scan([]byte("/events/"))
	for e := range fch {
		if e.Error() == nil {
			k, _ := e.Pair()
			final[string(k)] = true
		}
	}
	serialOfKey := map[string]int{}
	keyOfSerial := map[int]string{}
	for k, g := range s.owner {
		serialOfKey[k] = g + 1
		keyOfSerial[g+1] = k
	}
	// S: logged (Put complete) and not committed (owner's Delete not complete) when the scan ran
	inS := map[int]bool{}
	for k, ser := range serialOfKey {
		committedBefore := false
		if ds, ok := s.delStep[k]; ok && ds < s.scanStep {
			committedBefore = true
		}
		if s.putStep[k] < s.scanStep && !committedBefore {
			inS[ser] = true
		}
	}
	handled := map[int]int{}
	var order []int
	for _, cl := range sc.calls {
		if cl.Call == "handle" {
			handled[cl.Serial]++
			order = append(order, cl.Serial)
		}
	}
	for ser, n := range handled {
		k := keyOfSerial[ser]
		if n > 1 {
			viol("handled-twice", "concurrent: recovery handled event #%d %d times", ser, n)
		}
		if !inS[ser] {
			if ds, ok := s.delStep[k]; ok && ds < s.scanStep {
				viol("handled-committed-event", "concurrent: recovery handled event #%d which was committed before the recovery scan", ser)
			} else {
				viol("handled-removed-event", "concurrent: recovery handled event #%d which was not in the log when the recovery scan ran", ser)
			}
		}
	}
	for i := 1; i < len(order); i++ {
		if keyOfSerial[order[i]] < keyOfSerial[order[i-1]] {
			viol("handler-order", "concurrent: recovery handled %s after %s", keyOfSerial[order[i]], keyOfSerial[order[i-1]])
		}
	}
	for ser := range inS {
		if handled[ser] == 0 {
			viol("event-not-replayed", "concurrent: event #%d was logged and not committed when the recovery scan ran (step %d) but was not handled", ser, s.scanStep)
		}
	}
	for ser := 1; ser <= 2; ser++ {
		k, logged := keyOfSerial[ser]
		if !logged {
			continue
		}
		wantGone := cs.Commit[ser-1] || (inS[ser] && cs.Outs[ser-1] == "ok")
		if wantGone && final[k] {
			viol("event-not-removed", "concurrent: event #%d (%s) is still in the log although it was committed or successfully handled", ser, k)
		}
		if !wantGone && !final[k] {
			viol("event-lost", "concurrent: event #%d (%s) was neither committed nor successfully handled but is gone from the log", ser, k)
		}
	}
	c.Outcome(fmt.Sprintf("conc:scan-saw-%d/handled-%d/left-%d", len(s.scanKeys), len(order), len(final)))
	if len(s.scanKeys) > 0 {
		c.Nontrivial(fmt.Sprintf("conc/%v/%v/%v", cs.Commit, cs.Outs, choices))
	}
	c.Validated(1)
	if (replay || c.WantSample()) && len(s.scanKeys) == 2 && len(order) == 2 && cs.Outs[0] != cs.Outs[1] {
		c.Sample(map[string]any{"part": "conc", "case": run, "handler_calls": sc.calls, "left_in_log": vcore.SortedKeys(final)})
	}
	return counts, choices, true
}
