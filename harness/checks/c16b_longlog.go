package checks

import (
	"context"
	"errors"
	"fmt"
	"os"
	"path/filepath"
	"sort"
	"strings"
	"time"

	"github.com/projecteru2/core/wal"

	"verif/harness/vcore"
	"verif/harness/world"
)

// C16, long-log part: the breadth-first search of c16_wal.go reaches only small event ids.
// This part enumerates long logs: K events are logged (K around the places where the
// hexadecimal, zero-padded event key changes shape: 15..17, 31..33, thorough also 255..257,
// 4095..4097), every pair of them is left uncommitted, each with handler outcome ok or
// error; the log is recovered, reopened and recovered again. Oracle (same statement):
// handlers run exactly for the logged-and-uncommitted events, in logging order, once per
// recovery; an event is removed exactly when its handler succeeded; ids never repeat.

type c16LongCase struct {
	Part     string `json:"part"` // "long"
	K        int    `json:"events_logged"`
	Pending  []int  `json:"left_uncommitted"` // serial numbers (1-based logging order)
	Fails    []int  `json:"handler_fails_for"`
}

type longHandler struct {
	calls *[]int
	fail  map[int]bool
}

func (h longHandler) Typ() string { return "A" }
func (h longHandler) Encode(item any) ([]byte, error) {
	return []byte(fmt.Sprintf("e%d", item.(int))), nil
}
func (h longHandler) Decode(b []byte) (any, error) {
	var n int
	_, err := fmt.Sscanf(string(b), "e%d", &n)
	return n, err
}
func (h longHandler) Check(context.Context, any) (bool, error) { return true, nil }
func (h longHandler) Handle(_ context.Context, raw any) error {
	n := raw.(int)
	*h.calls = append(*h.calls, n)
	if h.fail[n] {
		return errors.New("scripted handler failure")
	}
	return nil
}

func c16LongOne(c *vcore.Ctx, cs *c16LongCase, dir string) {
	path := filepath.Join(dir, fmt.Sprintf("long-%d.wal", os.Getpid()))
	os.Remove(path)
	defer os.Remove(path)
	viol := func(sig, f string, a ...any) {
		c.Violate("C16/long-log/"+sig, fmt.Sprintf(f, a...)+" | case="+vcore.JSON(cs), cs)
	}
	c.Eval()
	pending := map[int]bool{}
	for _, p := range cs.Pending {
		pending[p] = true
	}
	fail := map[int]bool{}
	for _, p := range cs.Fails {
		fail[p] = true
	}
	var calls []int
	open := func() (*wal.Hydro, error) {
		h, err := wal.NewHydro(path, 2*time.Second)
		if err != nil {
			return nil, err
		}
		h.Register(longHandler{calls: &calls, fail: fail})
		return h, nil
	}
	h, err := open()
	if err != nil {
		c.HarnessError("open wal: %v", err)
		return
	}
	for i := 1; i <= cs.K; i++ {
		commit, err := h.Log("A", i)
		if err != nil {
			viol("log-refused", "Log of event %d failed: %v", i, err)
			h.Close()
			return
		}
		if !pending[i] {
			if err := commit(); err != nil {
				viol("commit-failed", "Commit of event %d failed: %v", i, err)
			}
		}
	}
	want := append([]int{}, cs.Pending...)
	sort.Ints(want)
	read := func() ([]int, []string) {
		evs, _ := (&world.Backend{WALPath: path}).WALEvents()
		var ns []int
		var keys []string
		for _, e := range evs {
			var n int
			fmt.Sscanf(e.Item, "e%d", &n)
			ns = append(ns, n)
			keys = append(keys, e.Key)
		}
		return ns, keys
	}
	eq := func(a, b []int) bool { return fmt.Sprint(a) == fmt.Sprint(b) }
	// first recovery
	calls = nil
	h.Recover(context.Background())
	if !eq(calls, want) {
		viol("wrong-events-handled", "first recovery handled %v, the logged-and-uncommitted events are %v (in logging order)", calls, want)
	}
	h.Close()
	var remain []int
	for _, p := range want {
		if fail[p] {
			remain = append(remain, p)
		}
	}
	got, keys := read()
	if !eq(got, remain) {
		viol("wrong-events-removed", "after the first recovery the log holds %v, expected %v (removed exactly when the handler succeeded)", got, remain)
	}
	seen := map[string]bool{}
	for _, k := range keys {
		if seen[k] {
			viol("id-reused", "key %s appears twice", k)
		}
		seen[k] = true
	}
	// restart, everything succeeds now
	fail = map[int]bool{}
	h, err = open()
	if err != nil {
		c.HarnessError("reopen wal: %v", err)
		return
	}
	calls = nil
	h.Recover(context.Background())
	if !eq(calls, got) {
		viol("wrong-events-handled-after-restart", "second recovery handled %v, the log held %v", calls, got)
	}
	// a new event after the restart gets a fresh id
	commit, err := h.Log("A", cs.K+1)
	if err != nil {
		viol("log-refused", "Log after restart failed: %v", err)
	}
	h.Close()
	got2, keys2 := read()
	if !eq(got2, []int{cs.K + 1}) {
		viol("wrong-events-removed-after-restart", "after the second recovery and one more Log the log holds %v, expected [%d]", got2, cs.K+1)
	}
	if len(keys2) == 1 && len(keys) > 0 && strings.Compare(keys2[0], keys[len(keys)-1]) <= 0 {
		viol("id-reused", "event logged after restart got key %s, not above the earlier key %s", keys2[0], keys[len(keys)-1])
	}
	_ = commit
	c.Outcome(fmt.Sprintf("long/K=%d/pending=%d/fails=%d", cs.K, len(cs.Pending), len(cs.Fails)))
	c.Nontrivial(vcore.JSON(cs))
	c.State()
	c.AddTransitions(int64(cs.K + 4))
	if c.WantSample() && len(cs.Fails) == 1 && cs.K > 16 {
		c.Sample(map[string]any{"case": cs, "first_recovery_handled": want})
	}
}

func c16Long(c *vcore.Ctx) {
	dir := os.Getenv("VERIF_TMP")
	if dir == "" {
		dir = os.TempDir()
	}
	ks := []int{15, 16, 17, 32, 33}
	if c.Thorough() {
		ks = append(ks, 31, 255, 256, 257, 4096, 4097)
	}
	c.Bound("long_log_sizes", ks)
	var idx int64
	for _, K := range ks {
		cand := map[int]bool{}
		for _, v := range []int{1, 2, 10, 15, 16, 17, 31, 32, 160, 255, 256, 272, 4095, 4096, K - 1, K} {
			if v >= 1 && v <= K {
				cand[v] = true
			}
		}
		var cs []int
		for v := range cand {
			cs = append(cs, v)
		}
		sort.Ints(cs)
		for i := 0; i < len(cs); i++ {
			for j := i; j < len(cs); j++ {
				pend := []int{cs[i]}
				if j != i {
					pend = append(pend, cs[j])
				}
				// handler outcomes: every subset of the pending events fails
				for mask := 0; mask < 1<<len(pend); mask++ {
					idx++
					if !c.Mine(idx) {
						continue
					}
					if c.Expired() {
						c.CapHit("budget reached in the long-log part")
						return
					}
					var fails []int
					for b, p := range pend {
						if mask&(1<<b) != 0 {
							fails = append(fails, p)
						}
					}
					c16LongOne(c, &c16LongCase{Part: "long", K: K, Pending: pend, Fails: fails}, dir)
				}
			}
		}
	}
}
