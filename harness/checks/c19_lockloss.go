package checks

import (
	"context"
	"fmt"
	"os"
	"strings"
	"testing"
	"time"

	"verif/harness/vcore"
	"verif/harness/world"
)

// C19: a holder is told promptly when it loses its lock. Holder H takes the lock (Lock or
// TryLock) and watches the returned context; waiter W contends; the loss is injected at
// every scheduling point by a fault thread (etcd: H's lease is revoked; redis: H simply
// holds longer than the TTL, which elapses in virtual time). Oracle: the context returned
// to H is cancelled within one keep-alive interval of the loss, and W never holds the lock
// together with a live H context for longer than that.

func init() {
	register(Meta{ID: "C19", Level: "model_checking", BudgetQuick: 240, BudgetThor: 1800, GoMaxProcs: 2},
		func(t *testing.T, c *vcore.Ctx) { c19Explore(t, c) })
}

type c19Case struct {
	Backend  string `json:"backend"`
	HolderOp string `json:"holder_op"`
	Waiter   bool   `json:"waiter"`
	// HolderCtx "deadline": the holder takes the lock under a caller context that carries its own
	// deadline, one lock TTL away (a request with a time budget); "" = no deadline.
	HolderCtx string `json:"holder_ctx,omitempty"`
	Choices   []int  `json:"choices,omitempty"`
}

// keep-alive interval of the etcd client for a lease of lockTTL seconds is TTL/3; its send
// loop runs every 500 ms. One interval, rounded up so that the oracle never asks for more
// than the statement promises.
const c19Interval = lockTTL/3 + time.Second

type c19Obs struct {
	acquired  time.Duration
	lost      time.Duration // instant of loss (-1 = no loss happened while H held)
	notified  time.Duration // instant H's context was cancelled (-1 = never within the watch window)
	released  time.Duration
	wAcquired time.Duration // -1 = never
	wErr      string
	hErr      string
}

func getObs(x *schedRun) *c19Obs {
	x.mu.Lock()
	defer x.mu.Unlock()
	if o, ok := x.Data["obs"].(*c19Obs); ok {
		return o
	}
	o := &c19Obs{acquired: -1, lost: -1, notified: -1, released: -1, wAcquired: -1}
	x.Data["obs"] = o
	return o
}

func c19Scenario(cc *c19Case) *schedScenario {
	sc := &schedScenario{Name: "lockloss", Horizon: 90 * time.Second, Quantum: 250 * time.Millisecond}
	sc.Opts = world.InstanceOpts{Redis: cc.Backend == "redis", NoWAL: true}
	watch := 12 * time.Second
	sc.Threads = append(sc.Threads, schedThread{Name: "H", Run: func(ctx context.Context, x *schedRun) {
		o := getObs(x)
		lk, err := x.Inst("H").Store.CreateLock("the-key", lockTTL)
		if err != nil {
			o.hErr = err.Error()
			return
		}
		var lctx context.Context
		callCtx := ctx
		if cc.HolderCtx == "deadline" {
			var cancel context.CancelFunc
			callCtx, cancel = context.WithTimeout(ctx, lockTTL)
			defer cancel()
		}
		if cc.HolderOp == "trylock" {
			lctx, err = lk.TryLock(callCtx)
		} else {
			lctx, err = lk.Lock(callCtx)
		}
		if err != nil {
			o.hErr = err.Error()
			_ = lk.Unlock(ctx)
			return
		}
		x.mu.Lock()
		o.acquired = x.Now()
		x.mu.Unlock()
		x.Event("H acquired")
		select {
		case <-lctx.Done():
			x.mu.Lock()
			o.notified = x.Now()
			x.mu.Unlock()
			x.Event("H context cancelled: %v", lctx.Err())
		case <-time.After(watch):
			x.Event("H context still live after %v", watch)
		}
		x.mu.Lock()
		o.released = x.Now()
		x.mu.Unlock()
		_ = lk.Unlock(ctx)
	}})
	if cc.Waiter {
		sc.Threads = append(sc.Threads, schedThread{Name: "W", Run: func(ctx context.Context, x *schedRun) {
			o := getObs(x)
			lk, err := x.Inst("W").Store.CreateLock("the-key", lockTTL)
			if err != nil {
				o.wErr = err.Error()
				return
			}
			// W keeps trying until it gets the lock (a waiter's single Lock gives up after the wait timeout)
			for i := 0; i < 4; i++ {
				_, err = lk.Lock(ctx)
				if err == nil {
					break
				}
				_ = lk.Unlock(ctx)
				lk, _ = x.Inst("W").Store.CreateLock("the-key", lockTTL)
			}
			if err != nil {
				o.wErr = err.Error()
				return
			}
			x.mu.Lock()
			o.wAcquired = x.Now()
			x.mu.Unlock()
			x.Event("W acquired")
			time.Sleep(time.Second)
			_ = lk.Unlock(ctx)
		}})
	}
	if cc.Backend == "etcd" {
		sc.Threads = append(sc.Threads, schedThread{Name: "F", Run: func(ctx context.Context, x *schedRun) {
			o := getObs(x)
			x.Yield("F", "revoke-holder-lease")
			// the holder is the oldest key under the lock prefix
			var lease int64
			for _, e := range x.B.Etcd.Dump("") {
				if strings.Contains(e.Key, "__lock__") && strings.Contains(e.Key, "the-key") && e.Lease != 0 {
					if e.Creator == "H" || lease == 0 {
						lease = e.Lease
						if e.Creator == "H" {
							break
						}
					}
				}
			}
			x.mu.Lock()
			held := o.acquired >= 0 && o.released < 0
			x.mu.Unlock()
			if lease != 0 && held {
				x.B.Etcd.RevokeLease(lease)
				x.mu.Lock()
				o.lost = x.Now()
				x.mu.Unlock()
				x.Event("F revoked lease %x", lease)
			}
		}})
	}
	return sc
}

func c19Explore(t *testing.T, c *vcore.Ctx) {
	dir := os.Getenv("VERIF_TMP")
	if dir == "" {
		dir = t.TempDir()
	}
	c.SetRule("holder (Lock | TryLock, TTL 5 s; etcd: under a caller context without a deadline or with a deadline one TTL away) watching its lock context, optional waiter, loss injected at every scheduling point (etcd: revoke the holder's lease; redis: hold longer than the TTL in virtual time); all interleavings of the threads' backend requests; non-trivial = distinct schedules in which the holder lost the lock while holding it")
	c.Assume("etcd = memetcd; the real clientv3 lessor keep-alive loop runs against the fake LeaseKeepAlive stream under virtual time, so the measured notification delay is the client's")
	c.Bound("keepalive_interval_allowed", c19Interval.String())
	b := world.NewBackend(dir, true)
	defer b.Close()
	if c.Replay != nil {
		var wc c19wCase
		if jsonUnmarshal(c.Replay, &wc) == nil && wc.Part == "wrapper" {
			snap, ids, err := c19wSetup(t, b)
			if err != nil {
				c.HarnessError("wrapper setup: %v", err)
				return
			}
			x := runSchedule(t, b, c19wScenario(&wc, snap, ids), wc.Choices)
			c.Eval()
			c19wCheck(c, &wc, x, wc.Choices)
			return
		}
		var cc c19Case
		if err := jsonUnmarshal(c.Replay, &cc); err != nil {
			c.HarnessError("replay: %v", err)
			return
		}
		x := runSchedule(t, b, c19Scenario(&cc), cc.Choices)
		c.Eval()
		c19Check(c, &cc, x, cc.Choices)
		return
	}
	var cases []c19Case
	for _, be := range []string{"etcd", "redis"} {
		for _, op := range []string{"lock", "trylock"} {
			for _, w := range []bool{false, true} {
				cases = append(cases, c19Case{Backend: be, HolderOp: op, Waiter: w})
				if be == "etcd" {
					cases = append(cases, c19Case{Backend: be, HolderOp: op, Waiter: w, HolderCtx: "deadline"})
				}
			}
		}
	}
	c.Bound("scenarios", len(cases))
	for i := range cases {
		cc := cases[i]
		if c.Expired() {
			c.CapHit("budget reached")
			return
		}
		st := exploreSchedules(t, c, b, c19Scenario(&cc), -1, func(x *schedRun, choices []int) { c19Check(c, &cc, x, choices) })
		if !st.Complete {
			c.CapHit("budget reached inside a scenario")
		}
		c.AddStates(int64(st.Executions))
		c.AddTransitions(int64(st.Executions * (st.MaxPoints + 1)))
	}
	c19wExplore(t, c, b)
	c.Bound("preemption_bound_completed", "unbounded")
}

func c19Check(c *vcore.Ctx, cc *c19Case, x *schedRun, choices []int) {
	o := getObs(x)
	rc := *cc
	rc.Choices = choices
	viol := func(sig, f string, a ...any) {
		c.Violate("C19/"+cc.Backend+"/"+sig, fmt.Sprintf(f, a...)+" | scenario="+vcore.JSON(cc)+" events="+fmt.Sprint(x.Events)+" schedule="+renderSchedule(x), rc)
	}
	if x.Stuck != "" {
		viol("thread-never-returns", "%s", firstLine(x.Stuck))
		return
	}
	x.mu.Lock()
	defer x.mu.Unlock()
	lost := o.lost
	if cc.Backend == "redis" && o.acquired >= 0 {
		// the lock's TTL elapses while H is still holding (H watches for 12 s > TTL)
		lost = o.acquired + lockTTL
	}
	if o.acquired < 0 || lost < 0 {
		c.Outcome(cc.Backend + "/no-loss-while-holding")
		return
	}
	c.Nontrivial(vcore.JSON(rc))
	switch {
	case o.notified < 0:
		c.Outcome(cc.Backend + "/never-notified")
		viol(cc.HolderOp+"/holder-not-notified", "lock lost at %v, the holder's context was still live %v later", lost, o.released-lost)
	case o.notified > lost+c19Interval:
		c.Outcome(cc.Backend + "/notified-late")
		viol(cc.HolderOp+"/holder-notified-late", "lock lost at %v, context cancelled at %v (%v later, one interval is %v)", lost, o.notified, o.notified-lost, c19Interval)
	default:
		c.Outcome(cc.Backend + "/notified-in-time")
	}
	if o.wAcquired >= 0 {
		end := o.notified
		if end < 0 {
			end = o.released
		}
		if end-o.wAcquired > c19Interval && o.wAcquired >= lost {
			viol(cc.HolderOp+"/coexists-with-new-holder", "W acquired at %v while H's context stayed live until %v", o.wAcquired, end)
		}
	}
	if c.WantSample() && o.notified >= 0 {
		c.Sample(map[string]any{"scenario": cc, "events": x.Events, "lost_at": lost.String(), "notified_at": o.notified.String()})
	}
}
