package checks

import (
	"context"
	"fmt"
	"sort"
	"strings"
	"testing"
	"time"

	"go.etcd.io/etcd/api/v3/mvccpb"
	clientv3 "go.etcd.io/etcd/client/v3"
	"go.etcd.io/etcd/client/v3/namespace"
	"go.etcd.io/etcd/tests/v3/integration"

	"verif/harness/memetcd"
	"verif/harness/vcore"
)

// Conformance of memetcd with the real embedded etcd (the one the repository's own tests
// use): every request sequence up to a depth over an alphabet containing every request
// shape that the repository and the etcd concurrency recipe issue is executed on both, and
// every response (normalised for revisions and lease ids) plus the resulting watch event
// stream must be identical. A mismatch is a harness defect (the model is wrong), reported as
// a harness error, never as a property violation.

func init() {
	register(Meta{ID: "memetcd-conformance", Level: "model_checking", ShardsQuick: 8, ShardsThor: 16, BudgetQuick: 240, BudgetThor: 1800},
		func(t *testing.T, c *vcore.Ctx) {
			depth := 2
			if c.Thorough() {
				depth = 3
			}
			n, bad := runConformance(t, c, depth, true)
			c.SetRule("request sequences over the shape alphabet replayed on memetcd and on the embedded etcd; non-trivial = at least one write succeeded")
			c.Bound("depth", depth)
			c.Validated(int64(n))
			for _, b := range bad {
				c.Violate("conformance/mismatch", b, nil)
			}
		})
}

type confEnv struct {
	cli    *clientv3.Client
	base   int64
	leases []clientv3.LeaseID
	k1, k2 string
	pfx    string
}

func (e *confEnv) lastLease() clientv3.LeaseID {
	if len(e.leases) == 0 {
		return 777777
	}
	return e.leases[len(e.leases)-1]
}

func (e *confEnv) normLease(id int64) string {
	if id == 0 {
		return "-"
	}
	for i, l := range e.leases {
		if int64(l) == id {
			return fmt.Sprintf("L%d", i)
		}
	}
	return "L?"
}

func (e *confEnv) kvs(kvs []*mvccpb.KeyValue) string {
	var sb strings.Builder
	for _, kv := range kvs {
		fmt.Fprintf(&sb, "{%s=%q c%d m%d v%d %s}", kv.Key, kv.Value, kv.CreateRevision-e.base, kv.ModRevision-e.base, kv.Version, e.normLease(kv.Lease))
	}
	return sb.String()
}

func (e *confEnv) get(r *clientv3.GetResponse, err error) string {
	if err != nil {
		return "ERR " + err.Error()
	}
	return fmt.Sprintf("rev%d count%d more%v %s", r.Header.Revision-e.base, r.Count, r.More, e.kvs(r.Kvs))
}

type confOp struct {
	name string
	run  func(ctx context.Context, e *confEnv) string
}

func confAlphabet() []confOp {
	getOwner := func(e *confEnv) clientv3.Op { return clientv3.OpGet(e.pfx, clientv3.WithFirstCreate()...) }
	ops := []confOp{
		{"put k1=1", func(ctx context.Context, e *confEnv) string {
			r, err := e.cli.Put(ctx, e.k1, "1")
			if err != nil {
				return "ERR " + err.Error()
			}
			return fmt.Sprintf("rev%d", r.Header.Revision-e.base)
		}},
		{"put k1=2 prevkv", func(ctx context.Context, e *confEnv) string {
			r, err := e.cli.Put(ctx, e.k1, "2", clientv3.WithPrevKV())
			if err != nil {
				return "ERR " + err.Error()
			}
			s := fmt.Sprintf("rev%d", r.Header.Revision-e.base)
			if r.PrevKv != nil {
				s += " prev" + e.kvs([]*mvccpb.KeyValue{r.PrevKv})
			}
			return s
		}},
		{"put k2=1", func(ctx context.Context, e *confEnv) string {
			r, err := e.cli.Put(ctx, e.k2, "1")
			if err != nil {
				return "ERR " + err.Error()
			}
			return fmt.Sprintf("rev%d", r.Header.Revision-e.base)
		}},
		{"put k1 lease", func(ctx context.Context, e *confEnv) string {
			r, err := e.cli.Put(ctx, e.k1, "l", clientv3.WithLease(e.lastLease()))
			if err != nil {
				return "ERR " + err.Error()
			}
			return fmt.Sprintf("rev%d", r.Header.Revision-e.base)
		}},
		{"get k1", func(ctx context.Context, e *confEnv) string { return e.get(e.cli.Get(ctx, e.k1)) }},
		{"get prefix", func(ctx context.Context, e *confEnv) string {
			return e.get(e.cli.Get(ctx, e.pfx, clientv3.WithPrefix()))
		}},
		{"get prefix keysonly", func(ctx context.Context, e *confEnv) string {
			return e.get(e.cli.Get(ctx, e.pfx, clientv3.WithPrefix(), clientv3.WithKeysOnly()))
		}},
		{"get prefix limit1", func(ctx context.Context, e *confEnv) string {
			return e.get(e.cli.Get(ctx, e.pfx, clientv3.WithPrefix(), clientv3.WithLimit(1)))
		}},
		{"get prefix countonly", func(ctx context.Context, e *confEnv) string {
			return e.get(e.cli.Get(ctx, e.pfx, clientv3.WithPrefix(), clientv3.WithCountOnly()))
		}},
		{"get firstcreate", func(ctx context.Context, e *confEnv) string {
			return e.get(e.cli.Get(ctx, e.pfx, clientv3.WithFirstCreate()...))
		}},
		{"get lastcreate maxcreate", func(ctx context.Context, e *confEnv) string {
			opts := append(clientv3.WithLastCreate(), clientv3.WithMaxCreateRev(e.base+1))
			return e.get(e.cli.Get(ctx, e.pfx, opts...))
		}},
		{"delete k1", func(ctx context.Context, e *confEnv) string {
			r, err := e.cli.Delete(ctx, e.k1)
			if err != nil {
				return "ERR " + err.Error()
			}
			return fmt.Sprintf("rev%d del%d", r.Header.Revision-e.base, r.Deleted)
		}},
		{"delete prefix", func(ctx context.Context, e *confEnv) string {
			r, err := e.cli.Delete(ctx, e.pfx, clientv3.WithPrefix())
			if err != nil {
				return "ERR " + err.Error()
			}
			return fmt.Sprintf("rev%d del%d", r.Header.Revision-e.base, r.Deleted)
		}},
		{"txn create k1", func(ctx context.Context, e *confEnv) string {
			return e.txnS(e.cli.Txn(ctx).If(clientv3.Compare(clientv3.Version(e.k1), "=", 0)).Then(clientv3.OpPut(e.k1, "c")).Commit())
		}},
		{"txn update k1", func(ctx context.Context, e *confEnv) string {
			return e.txnS(e.cli.Txn(ctx).If(clientv3.Compare(clientv3.Version(e.k1), "!=", 0)).Then(clientv3.OpPut(e.k1, "u")).Commit())
		}},
		{"txn create k1,k2", func(ctx context.Context, e *confEnv) string {
			return e.txnS(e.cli.Txn(ctx).If(clientv3.Compare(clientv3.Version(e.k1), "=", 0), clientv3.Compare(clientv3.Version(e.k2), "=", 0)).
				Then(clientv3.OpPut(e.k1, "c"), clientv3.OpPut(e.k2, "c")).Commit())
		}},
		{"txn value-cas k1", func(ctx context.Context, e *confEnv) string {
			return e.txnS(e.cli.Txn(ctx).If(clientv3.Compare(clientv3.Value(e.k1), "=", "1")).Then(clientv3.OpPut(e.k1, "0"), clientv3.OpPut(e.k2, "n")).Else(clientv3.OpGet(e.k1)).Commit())
		}},
		{"txn mutex-acquire k1", func(ctx context.Context, e *confEnv) string {
			return e.txnS(e.cli.Txn(ctx).If(clientv3.Compare(clientv3.CreateRevision(e.k1), "=", 0)).
				Then(clientv3.OpPut(e.k1, "", clientv3.WithLease(e.lastLease())), getOwner(e)).
				Else(clientv3.OpGet(e.k1), getOwner(e)).Commit())
		}},
		{"txn batchget", func(ctx context.Context, e *confEnv) string {
			return e.txnS(e.cli.Txn(ctx).Then(clientv3.OpGet(e.k1), clientv3.OpGet(e.k2)).Commit())
		}},
		{"txn batchdelete", func(ctx context.Context, e *confEnv) string {
			return e.txnS(e.cli.Txn(ctx).Then(clientv3.OpDelete(e.k1), clientv3.OpDelete(e.k2)).Commit())
		}},
		{"txn isowner-delete", func(ctx context.Context, e *confEnv) string {
			return e.txnS(e.cli.Txn(ctx).If(clientv3.Compare(clientv3.CreateRevision(e.k1), "=", e.base+1)).Then(clientv3.OpDelete(e.k1)).Commit())
		}},
		{"txn dup put", func(ctx context.Context, e *confEnv) string {
			return e.txnS(e.cli.Txn(ctx).Then(clientv3.OpPut(e.k1, "a"), clientv3.OpPut(e.k1, "b")).Commit())
		}},
		{"txn bindstatus nested", func(ctx context.Context, e *confEnv) string {
			upd := []clientv3.Op{clientv3.OpPut(e.k2, "s", clientv3.WithLease(e.lastLease()))}
			return e.txnS(e.cli.Txn(ctx).If(clientv3.Compare(clientv3.Version(e.k1), "!=", 0)).Then(
				clientv3.OpTxn([]clientv3.Cmp{clientv3.Compare(clientv3.Version(e.k2), "!=", 0)},
					[]clientv3.Op{clientv3.OpTxn([]clientv3.Cmp{clientv3.Compare(clientv3.LeaseValue(e.k2), "!=", 0)},
						[]clientv3.Op{clientv3.OpTxn([]clientv3.Cmp{clientv3.Compare(clientv3.Value(e.k2), "=", "s")},
							[]clientv3.Op{clientv3.OpGet(e.k2)}, upd)}, upd)}, upd)).Commit())
		}},
		{"txn status-without-ttl", func(ctx context.Context, e *confEnv) string {
			upd := []clientv3.Op{clientv3.OpPut(e.k2, "s")}
			return e.txnS(e.cli.Txn(ctx).If(clientv3.Compare(clientv3.Version(e.k2), "!=", 0)).
				Then(clientv3.OpTxn([]clientv3.Cmp{clientv3.Compare(clientv3.Value(e.k2), "!=", "s")}, upd, []clientv3.Op{})).
				Else(upd...).Commit())
		}},
		{"grant 10", func(ctx context.Context, e *confEnv) string {
			r, err := e.cli.Grant(ctx, 10)
			if err != nil {
				return "ERR " + err.Error()
			}
			e.leases = append(e.leases, r.ID)
			return fmt.Sprintf("ttl%d", r.TTL)
		}},
		{"revoke last", func(ctx context.Context, e *confEnv) string {
			_, err := e.cli.Revoke(ctx, e.lastLease())
			if err != nil {
				return "ERR " + err.Error()
			}
			return "ok"
		}},
		{"keepalive-once last", func(ctx context.Context, e *confEnv) string {
			r, err := e.cli.KeepAliveOnce(ctx, e.lastLease())
			if err != nil {
				return "ERR " + err.Error()
			}
			return fmt.Sprintf("ttl%d", r.TTL)
		}},
		{"timetolive last", func(ctx context.Context, e *confEnv) string {
			r, err := e.cli.TimeToLive(ctx, e.lastLease(), clientv3.WithAttachedKeys())
			if err != nil {
				return "ERR " + err.Error()
			}
			ks := []string{}
			for _, k := range r.Keys {
				// the real side runs under a per-sequence namespace; show the key below it
				if i := strings.Index(string(k), "x/"); i >= 0 {
					k = k[i:]
				}
				ks = append(ks, string(k))
			}
			sort.Strings(ks)
			alive := r.TTL > 0
			return fmt.Sprintf("granted%d alive%v keys%v", r.GrantedTTL, alive, ks)
		}},
	}
	return ops
}

func (e *confEnv) txnS(r *clientv3.TxnResponse, err error) string {
	if err != nil {
		return "ERR " + err.Error()
	}
	var sb strings.Builder
	fmt.Fprintf(&sb, "rev%d ok%v", r.Header.Revision-e.base, r.Succeeded)
	sb.WriteString(e.ops(r))
	return sb.String()
}

func (e *confEnv) ops(r *clientv3.TxnResponse) string {
	var sb strings.Builder
	for _, ro := range r.Responses {
		switch {
		case ro.GetResponseRange() != nil:
			rr := ro.GetResponseRange()
			fmt.Fprintf(&sb, " |R count%d more%v %s", rr.Count, rr.More, e.kvs(rr.Kvs))
		case ro.GetResponsePut() != nil:
			sb.WriteString(" |P")
		case ro.GetResponseDeleteRange() != nil:
			fmt.Fprintf(&sb, " |D%d", ro.GetResponseDeleteRange().Deleted)
		case ro.GetResponseTxn() != nil:
			t := ro.GetResponseTxn()
			fmt.Fprintf(&sb, " |T ok%v [%s]", t.Succeeded, e.ops((*clientv3.TxnResponse)(t)))
		}
	}
	return sb.String()
}

// collectEvents reads the watch stream from base+1 until n events or the stream stays
// silent for the grace period.
func collectEvents(ctx context.Context, e *confEnv, want int, grace time.Duration) []string {
	wctx, cancel := context.WithCancel(ctx)
	defer cancel()
	ch := e.cli.Watch(wctx, e.pfx, clientv3.WithPrefix(), clientv3.WithRev(e.base+1))
	var out []string
	for len(out) < want {
		select {
		case wr, ok := <-ch:
			if !ok {
				return out
			}
			for _, ev := range wr.Events {
				out = append(out, fmt.Sprintf("%s %s=%q m%d", ev.Type, ev.Kv.Key, ev.Kv.Value, ev.Kv.ModRevision-e.base))
			}
		case <-time.After(grace):
			return out
		}
	}
	// one more short wait to catch surplus events
	select {
	case wr, ok := <-ch:
		if ok {
			for _, ev := range wr.Events {
				out = append(out, fmt.Sprintf("SURPLUS %s %s", ev.Type, ev.Kv.Key))
			}
		}
	case <-time.After(20 * time.Millisecond):
	}
	return out
}

func runConformance(t *testing.T, c *vcore.Ctx, depth int, sharded bool) (int, []string) {
	integration.BeforeTestExternal(t)
	cl := integration.NewClusterV3(t, &integration.ClusterConfig{Size: 1})
	defer cl.Terminate(t)
	real := cl.RandClient()
	alpha := confAlphabet()
	ctx := context.Background()
	var bad []string
	validated := 0
	seq := make([]int, 0, depth)
	var idx int64
	var rec func(d int)
	runSeq := func() {
		idx++
		if sharded && !c.Mine(idx) {
			return
		}
		ns := fmt.Sprintf("/s%d/", idx)
		// real side
		rcli := clientv3.NewCtxClient(ctx)
		rcli.KV = namespace.NewKV(real.KV, ns)
		rcli.Lease = real.Lease
		rcli.Watcher = namespace.NewWatcher(real.Watcher, ns)
		g, err := real.Get(ctx, "\x00")
		if err != nil {
			bad = append(bad, "real get: "+err.Error())
			return
		}
		re := &confEnv{cli: rcli, base: g.Header.Revision, k1: "x/a", k2: "x/b", pfx: "x/"}
		// model side
		srv := memetcd.New()
		mctx, mcancel := context.WithCancel(ctx)
		mcli := srv.NewClient(mctx)
		me := &confEnv{cli: mcli, base: srv.Rev(), k1: "x/a", k2: "x/b", pfx: "x/"}
		var trace []string
		ok := true
		wrote := false
		for _, oi := range seq {
			op := alpha[oi]
			a := op.run(ctx, re)
			b := op.run(ctx, me)
			a = strings.ReplaceAll(a, "etcdserver: ", "")
			b = strings.ReplaceAll(b, "etcdserver: ", "")
			trace = append(trace, fmt.Sprintf("%s => real[%s] model[%s]", op.name, a, b))
			if a != b {
				ok = false
			}
			if !strings.HasPrefix(b, "ERR") && (strings.HasPrefix(op.name, "put") || strings.HasPrefix(op.name, "txn") || strings.HasPrefix(op.name, "delete")) {
				wrote = true
			}
		}
		mev := collectEvents(ctx, me, 1<<30, 5*time.Millisecond)
		rev := collectEvents(ctx, re, len(mev), 2*time.Second)
		if strings.Join(mev, ";") != strings.Join(rev, ";") {
			ok = false
			trace = append(trace, fmt.Sprintf("events real%v model%v", rev, mev))
		}
		// leave the real server clean of leases
		for _, l := range re.leases {
			real.Revoke(ctx, l) //nolint
		}
		mcancel()
		mcli.Lease.Close()
		c.Eval()
		c.Transition()
		validated++
		if wrote {
			c.Nontrivial(fmt.Sprint(seq))
		}
		if c.WantSample() && wrote && len(seq) == depth {
			c.Sample(trace)
		}
		if !ok {
			bad = append(bad, strings.Join(trace, "\n    "))
		}
	}
	rec = func(d int) {
		if len(seq) > 0 {
			runSeq()
		}
		if d == depth || c.Expired() {
			return
		}
		for i := range alpha {
			seq = append(seq, i)
			rec(d + 1)
			seq = seq[:len(seq)-1]
		}
	}
	rec(0)
	c.AddStates(int64(validated))
	if c.Expired() {
		c.CapHit("conformance budget")
	}
	if len(bad) > 8 {
		bad = bad[:8]
	}
	return validated, bad
}
