package checks

import (
	"encoding/json"
	"fmt"
	"hash/fnv"
	"math"
	"sort"
	"strings"
	"testing"

	"github.com/projecteru2/core/resource/plugins"
	resourcetypes "github.com/projecteru2/core/resource/types"
	coretypes "github.com/projecteru2/core/types"

	"verif/harness/memetcd"
	"verif/harness/vcore"
	"verif/harness/world"
)

// C08: plugin resource bookkeeping is exact and reversible.
//
// Explicit-state breadth-first search over histories of Alloc / RollbackAlloc / Realloc /
// RollbackRealloc / release through the REAL cobalt manager holding the REAL cpumem plugin on the
// in-memory etcd, on a world with one plain node and one 2-NUMA node. A state is (stored node
// records, multiset of live workload resources); a successor is built by restoring the parent's
// etcd snapshot and applying ONE real manager operation, called the way calcium calls it.
// The oracle is written from the property text: the stored usage of every node equals an
// independent sum over the workloads live on it (cpu, pieces per core, memory, memory per NUMA
// node), the manager's own consistency report has no diffs, and a rollback restores the usage
// exactly.

func init() {
	register(Meta{ID: "C08", Level: "model_checking", BudgetQuick: 200, BudgetThor: 1500, GoMaxProcs: 2},
		func(t *testing.T, c *vcore.Ctx) { c08Check(c) })
}

const c08Plugin = "cpumem"

var c08Nodes = []string{"plain", "numa"}

// R: allocation requests, simplest first.
var c08Requests = []wReq{
	{Mem: 100, MemLimit: 100},                                      // memory only
	{Bind: true, CPU: 1, CPULimit: 1},                              // one whole core
	{Bind: true, CPU: 0.5, CPULimit: 0.5, Mem: 100, MemLimit: 100}, // a fragment + memory
	{Bind: true, CPU: 2, CPULimit: 2},                              // two whole cores
	{CPU: 0.5, CPULimit: 0.5, Mem: 50, MemLimit: 50},               // unbound cpu + memory
	{Bind: true, CPU: 1.5, CPULimit: 1.5, Mem: 200, MemLimit: 200}, // core + fragment + memory
}

// D: re-allocation requests (calcium adds them to the workload's current resources).
var c08Deltas = []wReq{
	{Keep: true, CPU: 1, CPULimit: 1},       // grow cpu, binding kept
	{Keep: true, CPU: -0.5, CPULimit: -0.5}, // shrink cpu, binding kept
	{Bind: true},                            // bind
	{},                                      // unbind
	{Keep: true, Mem: 100, MemLimit: 100},   // binding kept, memory grows (memory-only change for unbound workloads)
	{Keep: true, Mem: -50, MemLimit: -50},   // binding kept, memory shrinks
	{Bind: true, CPU: 0.5, CPULimit: 0.5, Mem: 100, MemLimit: 100}, // bind and grow both
}

type c08Op struct {
	Op    string         `json:"op"` // alloc | rollback-alloc | realloc | rollback-realloc | release
	Node  string         `json:"node"`
	Count int            `json:"count,omitempty"`
	Req   *wReq          `json:"request,omitempty"`  // alloc request / realloc delta
	W     int            `json:"workload,omitempty"` // realloc/release: index into the sorted live list of the state
	WRes  map[string]any `json:"workload_resource,omitempty"`
	Keep  int            `json:"kept,omitempty"` // rollback-alloc: instances of the last alloc that stay (the rest is rolled back)
	// alloc/realloc: the workload resources the operation produced in this history. The CPU
	// planner iterates over a map of NUMA nodes, so the same operation on the same state can
	// place a workload on either NUMA node; a replay repeats the operation until it produces
	// this result again.
	Result []map[string]any `json:"result,omitempty"`
}

type c08W struct {
	Node string         `json:"node"`
	Res  map[string]any `json:"resource"`
	key  string
}

func c08NewW(node string, res map[string]any) c08W {
	// workload resources are stored as JSON in the workload meta and read back before they are
	// used again, so the live list holds the round-tripped form
	b, _ := json.Marshal(res)
	m := map[string]any{}
	_ = json.Unmarshal(b, &m)
	return c08W{Node: node, Res: m, key: node + "|" + string(b)}
}

type c08State struct {
	snap *memetcd.Snapshot
	recs [2]string // stored node records, as etcd holds them
	live []c08W    // sorted by key
	hist []c08Op
}

func (s *c08State) key() string {
	var sb strings.Builder
	sb.WriteString(s.recs[0])
	sb.WriteString("\n")
	sb.WriteString(s.recs[1])
	for _, w := range s.live {
		sb.WriteString("\n")
		sb.WriteString(w.key)
	}
	return sb.String()
}

func c08SortLive(l []c08W) { sort.SliceStable(l, func(i, j int) bool { return l[i].key < l[j].key }) }

type c08Env struct {
	c      *vcore.Ctx
	env    *world.PluginEnv
	nondet map[string]bool // nodes on which the same alloc was seen to give different placements
	reps   int
}

// c08Owner partitions by content (not by enumeration index): the planner's map iteration makes
// the enumeration order differ between workers.
func c08Owner(c *vcore.Ctx, s string) bool {
	if c.NShards <= 1 {
		return true
	}
	h := fnv.New32a()
	h.Write([]byte(s))
	return int(h.Sum32()%uint32(c.NShards)) == c.Shard
}

func c08ResultKey(tr *c08Trans) string {
	switch {
	case tr.panicky != "":
		return "panic"
	case !tr.ok:
		return "refused"
	}
	l := append([]c08W{}, tr.live...)
	c08SortLive(l)
	var sb strings.Builder
	for _, w := range l {
		sb.WriteString(w.key)
		sb.WriteString("\n")
	}
	return sb.String()
}

func (tr *c08Trans) result() []map[string]any {
	var out []map[string]any
	switch tr.op.Op {
	case "alloc":
		for _, w := range tr.fresh {
			out = append(out, w.Res)
		}
	case "realloc":
		if tr.ok {
			out = append(out, tr.live[tr.op.W].Res)
		}
	}
	return out
}

func c08Init(env *world.PluginEnv) {
	four := []int{100, 100, 100, 100}
	zero := []int{0, 0, 0, 0}
	plain := &nState{Cap: four, Use: zero, MemCap: 1000}
	numa := &nState{Cap: four, Use: zero, MemCap: 1000, NUMA: []string{"0", "0", "1", "1"},
		NMemCap: map[string]int64{"0": 500, "1": 500}, NMemUse: map[string]int64{"0": 0, "1": 0}}
	env.SetNodeRaw("plain", plain.info())
	env.SetNodeRaw("numa", numa.info())
}

func (e *c08Env) records() (r [2]string) {
	for i, n := range c08Nodes {
		r[i], _ = e.env.Srv.Get(world.NodeKey(n))
	}
	return
}

func (e *c08Env) capture(live []c08W, hist []c08Op) *c08State {
	l := append([]c08W{}, live...)
	c08SortLive(l)
	return &c08State{snap: e.env.Srv.Snapshot(), recs: e.records(), live: l, hist: hist}
}

// ---------------------------------------------------------------- oracle

type c08Sum struct {
	cpu   int64 // micro-cores
	cores map[string]int64
	mem   int64
	numa  map[string]int64
}

func c08Num(v any) float64 {
	switch x := v.(type) {
	case float64:
		return x
	case int:
		return float64(x)
	case int64:
		return float64(x)
	case json.Number:
		f, _ := x.Float64()
		return f
	}
	return math.NaN()
}

// c08LiveSum adds up the recorded resources of the workloads live on a node, reading the stored
// JSON form directly (no plugin code involved).
func c08LiveSum(live []c08W, node string) c08Sum {
	s := c08Sum{cores: map[string]int64{}, numa: map[string]int64{}}
	for _, w := range live {
		if w.Node != node {
			continue
		}
		if v, ok := w.Res["cpu_request"]; ok {
			s.cpu += int64(math.Round(c08Num(v) * 1e6))
		}
		if v, ok := w.Res["memory_request"]; ok {
			s.mem += int64(math.Round(c08Num(v)))
		}
		if m, ok := w.Res["cpu_map"].(map[string]any); ok {
			for k, p := range m {
				s.cores[k] += int64(math.Round(c08Num(p)))
			}
		}
		if m, ok := w.Res["numa_memory"].(map[string]any); ok {
			for k, p := range m {
				s.numa[k] += int64(math.Round(c08Num(p)))
			}
		}
	}
	return s
}

// check compares every node's stored usage with the live workloads. It returns the violated
// clauses (signature suffix -> detail).
func (e *c08Env) check(live []c08W) map[string]string {
	out := map[string]string{}
	for _, node := range c08Nodes {
		info, ok := e.env.GetNodeRaw(node)
		if !ok || info.Usage == nil {
			out["node-record-unreadable"] = "node " + node + " has no readable record"
			continue
		}
		sum := c08LiveSum(live, node)
		u := info.Usage
		if got := int64(math.Round(u.CPU * 1e6)); got != sum.cpu {
			out["usage-differs-from-live-sum/cpu"] = fmt.Sprintf("node %s: stored cpu usage %.6f, live workloads sum to %.6f", node, u.CPU, float64(sum.cpu)/1e6)
		}
		if u.Memory != sum.mem {
			out["usage-differs-from-live-sum/memory"] = fmt.Sprintf("node %s: stored memory usage %d, live workloads sum to %d", node, u.Memory, sum.mem)
		}
		cores := map[string]bool{}
		for k := range info.Capacity.CPUMap {
			cores[k] = true
		}
		for k := range u.CPUMap {
			cores[k] = true
		}
		for k := range sum.cores {
			cores[k] = true
		}
		for _, k := range vcore.SortedKeys(cores) {
			if int64(u.CPUMap[k]) != sum.cores[k] {
				out["usage-differs-from-live-sum/cpu_map"] = fmt.Sprintf("node %s core %s: stored %d pieces used, live workloads hold %d", node, k, u.CPUMap[k], sum.cores[k])
				break
			}
		}
		nn := map[string]bool{}
		for k := range info.Capacity.NUMAMemory {
			nn[k] = true
		}
		for k := range u.NUMAMemory {
			nn[k] = true
		}
		for k := range sum.numa {
			nn[k] = true
		}
		for _, k := range vcore.SortedKeys(nn) {
			if u.NUMAMemory[k] != sum.numa[k] {
				out["usage-differs-from-live-sum/numa_memory"] = fmt.Sprintf("node %s NUMA node %s: stored memory usage %d, live workloads hold %d", node, k, u.NUMAMemory[k], sum.numa[k])
				break
			}
		}
		var wls []*coretypes.Workload
		for _, w := range live {
			if w.Node == node {
				wls = append(wls, &coretypes.Workload{Resources: resourcetypes.Resources{c08Plugin: w.Res}})
			}
		}
		_, _, diffs, err := e.env.Mgr.GetNodeResourceInfo(bg, node, wls, false)
		if err != nil {
			out["resource-info-error"] = fmt.Sprintf("node %s: GetNodeResourceInfo fails: %v", node, err)
		} else if len(diffs) > 0 {
			out["diffs-reported"] = fmt.Sprintf("node %s: GetNodeResourceInfo reports %v", node, diffs)
		}
	}
	return out
}

func c08Usage(rec string) string {
	var v struct {
		Usage json.RawMessage `json:"usage"`
	}
	_ = json.Unmarshal([]byte(rec), &v)
	var any any
	_ = json.Unmarshal(v.Usage, &any)
	b, _ := json.Marshal(any) // canonical: object keys sorted
	return string(b)
}

// ---------------------------------------------------------------- transitions

type c08Trans struct {
	op      c08Op
	err     error
	live    []c08W // live list after the operation
	roll    any    // what calcium would hand to the rollback (in-memory form)
	fresh   []c08W // alloc: the new workloads, in instance order
	ok      bool
	panicky string
}

// apply runs one real operation on the current etcd contents.
func (e *c08Env) apply(st *c08State, op c08Op) (tr c08Trans) {
	tr.op = op
	defer func() {
		if r := recover(); r != nil {
			tr.panicky = fmt.Sprint(r)
		}
	}()
	switch op.Op {
	case "alloc":
		wrs, _, err := e.env.Mgr.Alloc(bg, op.Node, op.Count, resourcetypes.Resources{c08Plugin: op.Req.raw()})
		if err != nil {
			tr.err = err
			return
		}
		tr.roll = wrs
		tr.live = append([]c08W{}, st.live...)
		for _, r := range wrs {
			w := c08NewW(op.Node, r[c08Plugin])
			tr.fresh = append(tr.fresh, w)
			tr.live = append(tr.live, w)
		}
		tr.ok = true
	case "realloc":
		w := st.live[op.W]
		_, delta, res, err := e.env.Mgr.Realloc(bg, w.Node, resourcetypes.Resources{c08Plugin: w.Res}, resourcetypes.Resources{c08Plugin: op.Req.raw()})
		if err != nil {
			tr.err = err
			return
		}
		tr.roll = delta
		tr.live = append([]c08W{}, st.live...)
		tr.live[op.W] = c08NewW(w.Node, res[c08Plugin])
		tr.ok = true
	case "release":
		w := st.live[op.W]
		_, _, err := e.env.Mgr.SetNodeResourceUsage(bg, w.Node, nil, nil, []resourcetypes.Resources{{c08Plugin: w.Res}}, true, plugins.Decr)
		if err != nil {
			tr.err = err
			return
		}
		tr.live = append(append([]c08W{}, st.live[:op.W]...), st.live[op.W+1:]...)
		tr.ok = true
	}
	return
}

func (e *c08Env) violate(hist []c08Op, sig, detail string) {
	e.c.Violate("C08/"+sig, detail+" | history="+vcore.JSON(hist), c08Case{History: hist})
}

type c08Case struct {
	History []c08Op `json:"history"`
}

// step applies op to st (restoring st first), checks the oracle, and explores the rollback of a
// successful alloc/realloc as a further transition. Every reached, consistent state is passed to
// visit together with its history. report=false executes without counting or reporting (used for
// the prefix levels every worker shares). On a node where placements are not deterministic the
// operation is repeated and every distinct result is a transition of its own.
func (e *c08Env) step(st *c08State, op c08Op, report bool, visit func(*c08State)) {
	reps := 1
	if e.nondet[op.Node] && (op.Op == "alloc" || op.Op == "realloc") {
		reps = e.reps
	}
	seen := map[string]bool{}
	for i := 0; i < reps; i++ {
		e.env.Srv.Restore(st.snap)
		tr := e.apply(st, op)
		if report {
			e.c.Eval()
		}
		k := c08ResultKey(&tr)
		if seen[k] {
			continue
		}
		seen[k] = true
		if len(seen) == 2 && report {
			e.c.Outcome(op.Op + ":second-placement")
		}
		e.stepOnce(st, op, tr, report, visit)
		if len(seen) >= 2 {
			break // one unordered choice between two NUMA nodes: at most two results
		}
	}
}

func (e *c08Env) stepOnce(st *c08State, op c08Op, tr c08Trans, report bool, visit func(*c08State)) {
	c := e.c
	op.Result = tr.result()
	hist := append(append(make([]c08Op, 0, len(st.hist)+2), st.hist...), op)
	if report {
		c.Transition()
	}
	if tr.panicky != "" {
		if report {
			c.Outcome(op.Op + ":panic")
			e.violate(hist, "panic", "operation panicked: "+tr.panicky)
		}
		return
	}
	after := e.records()
	if !tr.ok {
		if report {
			c.Outcome(op.Op + ":refused")
			if after != st.recs {
				e.violate(hist, "refused-operation-changed-usage", fmt.Sprintf("%s was refused (%v) but the stored records changed from %v to %v", op.Op, tr.err, st.recs, after))
			}
		}
		return
	}
	bad := e.check(tr.live)
	if report {
		c.Outcome(op.Op + ":done")
		for _, sig := range vcore.SortedKeys(bad) {
			e.violate(hist, sig, "after "+op.Op+": "+bad[sig])
		}
		if len(bad) == 0 {
			c.Validated(1)
		}
	}
	if len(bad) > 0 {
		return // states behind a violated transition are not expanded
	}
	child := e.capture(tr.live, hist)
	visit(child)

	// the rollback calcium performs when the step after the operation fails
	switch op.Op {
	case "alloc":
		wrs := tr.roll.([]resourcetypes.Resources)
		for keep := 0; keep < op.Count; keep++ {
			// keep = instances deployed successfully; the others are rolled back
			e.env.Srv.Restore(child.snap)
			rop := c08Op{Op: "rollback-alloc", Node: op.Node, Keep: keep}
			rhist := append(append([]c08Op{}, hist...), rop)
			err := e.env.Mgr.RollbackAlloc(bg, op.Node, wrs[keep:])
			live := append(append([]c08W{}, st.live...), tr.fresh[:keep]...)
			e.afterRollback(st, child, rhist, rop, err, live, keep == 0, report, visit)
		}
	case "realloc":
		e.env.Srv.Restore(child.snap)
		rop := c08Op{Op: "rollback-realloc", Node: st.live[op.W].Node}
		rhist := append(append([]c08Op{}, hist...), rop)
		err := e.env.Mgr.RollbackRealloc(bg, st.live[op.W].Node, tr.roll.(resourcetypes.Resources))
		e.afterRollback(st, child, rhist, rop, err, append([]c08W{}, st.live...), true, report, visit)
	}
}

func (e *c08Env) afterRollback(pre, mid *c08State, hist []c08Op, rop c08Op, err error, live []c08W, full, report bool, visit func(*c08State)) {
	c := e.c
	if report {
		c.Eval()
		c.Transition()
	}
	after := e.records()
	if err != nil {
		if report {
			c.Outcome(rop.Op + ":refused")
			e.violate(hist, "rollback-refused", fmt.Sprintf("%s of the operation just committed fails: %v", rop.Op, err))
		}
		return
	}
	bad := e.check(live)
	if full {
		for i, n := range c08Nodes {
			if a, b := c08Usage(pre.recs[i]), c08Usage(after[i]); a != b {
				bad["rollback-not-exact"] = fmt.Sprintf("node %s: usage before the operation %s, after operation and %s %s (in between %s)", n, a, rop.Op, b, c08Usage(mid.recs[i]))
				break
			}
		}
	}
	if report {
		c.Outcome(rop.Op + ":done")
		for _, sig := range vcore.SortedKeys(bad) {
			e.violate(hist, sig, "after "+rop.Op+": "+bad[sig])
		}
		if len(bad) == 0 {
			c.Validated(1)
		}
	}
	if len(bad) > 0 {
		return
	}
	visit(e.capture(live, hist))
}

// ops lists the operations enabled in a state (rollbacks are explored inside step).
func c08Ops(st *c08State) []c08Op {
	var ops []c08Op
	for _, n := range c08Nodes {
		for _, count := range []int{1, 2} {
			for i := range c08Requests {
				ops = append(ops, c08Op{Op: "alloc", Node: n, Count: count, Req: &c08Requests[i]})
			}
		}
	}
	for i, w := range st.live {
		if i > 0 && st.live[i-1].key == w.key {
			continue // identical workloads are interchangeable
		}
		ops = append(ops, c08Op{Op: "release", Node: w.Node, W: i, WRes: w.Res})
		for j := range c08Deltas {
			ops = append(ops, c08Op{Op: "realloc", Node: w.Node, W: i, WRes: w.Res, Req: &c08Deltas[j]})
		}
	}
	return ops
}

func c08Check(c *vcore.Ctx) {
	c.SetRule("breadth-first search from two empty nodes (plain: 4 cores x 100 pieces, memory 1000; numa: the same with cores 0,1 on NUMA node 0 and 2,3 on node 1, NUMA memory 500/500) over Alloc(node, count 1|2, 6 requests), Realloc(any live workload, 7 deltas: grow, shrink, bind, unbind, keep-bind memory up/down, bind+grow), release(any live workload), each through the real cobalt manager as calcium calls it; an operation whose placement is not deterministic (see assumptions) contributes one transition per distinct result; every successful Alloc/Realloc is additionally followed by its rollback (RollbackAlloc of all or of the not-yet-deployed instances, RollbackRealloc of the delta) as a further transition that does not count towards the depth; " +
		"successor = restore of the parent's etcd snapshot + one real operation; de-duplicated per worker on (stored node records, sorted multiset of live workload resources with their node); states behind a violated transition are not expanded; non-trivial = a reached state with at least one live workload (distinct by canonical state)")
	e := &c08Env{c: c, env: world.NewPluginEnv(100, -1)}
	defer e.env.Close()
	c08Init(e.env)
	root := e.capture(nil, nil)
	if c.Replay != nil {
		var cs c08Case
		if err := jsonUnmarshal(c.Replay, &cs); err != nil {
			c.HarnessError("replay: %v", err)
			return
		}
		c08Replay(e, root, cs.History)
		return
	}
	depth := 3
	if c.Thorough() {
		depth = 4
	}
	c.Bound("depth", depth)
	c.Bound("depth_counts", "alloc, realloc and release operations; a rollback directly follows the operation it rolls back and is not counted")
	c.Bound("requests", c08Requests)
	c.Bound("realloc_deltas", c08Deltas)
	e.reps = 20
	e.probe(root)
	c.Bound("placement_repetitions", e.reps)
	c.Assume(fmt.Sprintf("the CPU planner ranges over a Go map of NUMA nodes (schedule.GetCPUPlans), so on a NUMA node the same Alloc/Realloc can place a workload on either NUMA node; on such nodes (probed at start: %v) every Alloc/Realloc is repeated up to %d times or until 2 distinct results were seen (2 NUMA nodes = 2 iteration orders) and each distinct result is explored; a second placement that never showed up in the repetitions is not explored", vcore.SortedKeys(e.nondet), e.reps))
	const split = 2
	seen := map[string]bool{root.key(): true}
	if c08Owner(c, root.key()) {
		c.State()
	}
	frontier := []*c08State{root}
	for d := 0; d < depth; d++ {
		var next []*c08State
		lastLevel := d+1 == depth
		for _, st := range frontier {
			sk := st.key()
			for oi, op := range c08Ops(st) {
				if c.Expired() {
					c.CapHit(fmt.Sprintf("budget reached at depth %d", d))
					return
				}
				owned := d >= split || c08Owner(c, fmt.Sprintf("%s#%d", sk, oi))
				e.step(st, op, owned, func(child *c08State) {
					k := child.key()
					if seen[k] {
						return
					}
					seen[k] = true
					mine := c08Owner(c, k)
					if d+1 == split && !mine {
						return // the worker owning this state explores below it
					}
					if d+1 > split || mine {
						c.State()
						if len(child.live) > 0 {
							c.Nontrivial(k)
						}
						if c.WantSample() && len(child.hist) >= depth && len(child.live) >= 1 && c08HasOp(child.hist, "realloc") {
							c.Sample(map[string]any{"history": child.hist, "live_workloads": child.live, "stored_records": child.recs})
						}
					}
					if !lastLevel {
						next = append(next, child)
					}
				})
			}
		}
		sort.Slice(next, func(i, j int) bool { return next[i].key() < next[j].key() })
		frontier = next
	}
}

// probe finds the nodes on which an allocation on the empty node does not always give the same
// placement.
func (e *c08Env) probe(root *c08State) {
	e.nondet = map[string]bool{}
	for _, n := range c08Nodes {
		for i := range c08Requests {
			op := c08Op{Op: "alloc", Node: n, Count: 1, Req: &c08Requests[i]}
			first := ""
			for r := 0; r < 40 && !e.nondet[n]; r++ {
				e.env.Srv.Restore(root.snap)
				tr := e.apply(root, op)
				k := c08ResultKey(&tr)
				if r == 0 {
					first = k
				} else if k != first {
					e.nondet[n] = true
				}
			}
		}
	}
	e.env.Srv.Restore(root.snap)
}

// c08Replay runs one history from the empty world, checking the oracle after every operation.
func c08Replay(e *c08Env, root *c08State, hist []c08Op) {
	c := e.c
	st := root
	var lastTr *c08Trans
	var lastPre *c08State
	for i, op := range hist {
		c.Eval()
		c.Transition()
		c.State()
		h := hist[:i+1]
		e.env.Srv.Restore(st.snap)
		switch op.Op {
		case "alloc", "realloc", "release":
			if (op.Op != "alloc") && (op.W < 0 || op.W >= len(st.live)) {
				c.HarnessError("replay: workload index %d out of range at step %d", op.W, i)
				return
			}
			if op.Op != "alloc" {
				op.Node = st.live[op.W].Node
			}
			tr := e.apply(st, op)
			if len(op.Result) > 0 {
				want := vcore.JSON(op.Result)
				for try := 0; try < 200 && vcore.JSON(tr.result()) != want; try++ {
					e.env.Srv.Restore(st.snap)
					tr = e.apply(st, op)
				}
				if vcore.JSON(tr.result()) != want {
					c.Note("replay: step %d never produced the recorded result %s (got %s)", i, want, vcore.JSON(tr.result()))
				}
			}
			if tr.panicky != "" {
				e.violate(h, "panic", "operation panicked: "+tr.panicky)
				return
			}
			after := e.records()
			if !tr.ok {
				c.Outcome(op.Op + ":refused")
				if after != st.recs {
					e.violate(h, "refused-operation-changed-usage", fmt.Sprintf("%s was refused (%v) but the stored records changed", op.Op, tr.err))
				}
				lastTr = nil
				continue
			}
			c.Outcome(op.Op + ":done")
			bad := e.check(tr.live)
			for _, sig := range vcore.SortedKeys(bad) {
				e.violate(h, sig, "after "+op.Op+": "+bad[sig])
			}
			lastTr, lastPre = &tr, st
			st = e.capture(tr.live, h)
		case "rollback-alloc", "rollback-realloc":
			if lastTr == nil || !strings.HasSuffix(op.Op, lastTr.op.Op) {
				c.HarnessError("replay: %s at step %d does not follow a successful %s", op.Op, i, strings.TrimPrefix(op.Op, "rollback-"))
				return
			}
			var err error
			var live []c08W
			full := true
			if op.Op == "rollback-alloc" {
				wrs := lastTr.roll.([]resourcetypes.Resources)
				err = e.env.Mgr.RollbackAlloc(bg, lastTr.op.Node, wrs[op.Keep:])
				live = append(append([]c08W{}, lastPre.live...), lastTr.fresh[:op.Keep]...)
				full = op.Keep == 0
			} else {
				err = e.env.Mgr.RollbackRealloc(bg, lastPre.live[lastTr.op.W].Node, lastTr.roll.(resourcetypes.Resources))
				live = append([]c08W{}, lastPre.live...)
			}
			var reached *c08State
			e.afterRollback(lastPre, st, h, op, err, live, full, true, func(s *c08State) { reached = s })
			if reached == nil {
				reached = e.capture(live, h)
			}
			st, lastTr = reached, nil
		default:
			c.HarnessError("replay: unknown op %q", op.Op)
			return
		}
	}
	c.Sample(map[string]any{"replayed_history": hist, "live_workloads": st.live, "stored_records": st.recs})
}

func c08HasOp(h []c08Op, op string) bool {
	for _, o := range h {
		if o.Op == op {
			return true
		}
	}
	return false
}
