package checks

import (
	"encoding/json"
	"fmt"
	"os"
	"testing"
	"time"

	"github.com/rs/zerolog"

	"verif/harness/vcore"
)

// TestWorker runs one shard of the check named by VERIF_CHECK. It never fails the test
// binary for a property violation: violations travel in the result file, and the
// orchestrator decides the exit code.
func TestWorker(t *testing.T) {
	if p := os.Getenv("VERIF_C06_CHILD"); p != "" {
		c06Child(p)
		return
	}
	id := os.Getenv("VERIF_CHECK")
	if id == "" {
		t.Skip("VERIF_CHECK not set")
	}
	e, ok := registry[id]
	if !ok {
		t.Fatalf("unknown check %q", id)
	}
	if os.Getenv("VERIF_DESCRIBE") != "" {
		b, _ := json.Marshal(e.meta)
		fmt.Printf("META %s\n", b)
		return
	}
	// the repository logs every step at info level; a worker's output is only kept for harness errors
	if os.Getenv("VERIF_LOG") == "" {
		zerolog.SetGlobalLevel(zerolog.Disabled)
	}
	c := vcore.NewCtxFromEnv(id)
	c.SetLevel(e.meta.Level)
	start := time.Now()
	func() {
		defer func() {
			if r := recover(); r != nil {
				c.HarnessError("panic in check body: %v", r)
				c.Finish(start)
				panic(r)
			}
		}()
		e.fn(t, c)
	}()
	c.Finish(start)
}
