package checks

import (
	"context"
	"fmt"
	"net"
	"strings"
	"sync/atomic"
	"testing"
	"time"

	"github.com/projecteru2/core/auth"
	"github.com/projecteru2/core/types"

	"google.golang.org/grpc"
	"google.golang.org/grpc/codes"
	"google.golang.org/grpc/credentials/insecure"
	"google.golang.org/grpc/health"
	healthpb "google.golang.org/grpc/health/grpc_health_v1"
	"google.golang.org/grpc/status"
	"google.golang.org/grpc/test/bufconn"

	"verif/harness/vcore"
)

// C35: RPC authentication accepts exactly matching credentials (engine E1 over a real transport).
//
// A real grpc.Server carrying the two interceptors of auth.NewAuth(cfg) (installed the way
// core.go installs them) serves the standard health service (unary Check, streaming Watch) on a
// bufconn listener. A real client dials it with insecure transport credentials and
// grpc.WithPerRPCCredentials(auth.NewCredential(cfg')) (the way client/client.go dials).
//
// Oracle (from the property text, not from the code): the call is served iff the password
// strings are equal and the usernames are equal as gRPC metadata keys. Metadata keys are
// case-insensitive on the wire (HTTP/2 forbids capitals, the transport lower-cases them), so
// "Admin" and "admin" are the same key and the oracle does not demand that they be told apart.
// Identical configuration on both sides must always be served; a call without credentials must
// never be served.

func init() {
	register(Meta{ID: "C35", Level: "exploration", ShardsQuick: 5, ShardsThor: 5, BudgetQuick: 100, BudgetThor: 300, GoMaxProcs: 2},
		func(t *testing.T, c *vcore.Ctx) { authEnum(c) })
}

var (
	authUsers = []string{"admin", "Admin", "a.b", "a-b_1", "x"}
	authPass  = []string{"", "pw", "Pw", "p w", "p=;,"}
)

type authCase struct {
	ServerUser string `json:"server_username"`
	ServerPass string `json:"server_password"`
	ClientUser string `json:"client_username,omitempty"`
	ClientPass string `json:"client_password,omitempty"`
	NoCred     bool   `json:"no_credential,omitempty"`
	Kind       string `json:"kind"` // unary | stream
}

// countingHealth is the served application: it only counts handler entries, so that "served"
// can be observed on the server side as well as at the client.
type countingHealth struct {
	*health.Server
	unary, stream atomic.Int64
}

func (h *countingHealth) Check(ctx context.Context, r *healthpb.HealthCheckRequest) (*healthpb.HealthCheckResponse, error) {
	h.unary.Add(1)
	return h.Server.Check(ctx, r)
}

func (h *countingHealth) Watch(r *healthpb.HealthCheckRequest, s healthpb.Health_WatchServer) error {
	h.stream.Add(1)
	return h.Server.Watch(r, s)
}

var authSampled = map[string]bool{}

type authServer struct {
	srv *grpc.Server
	lis *bufconn.Listener
	app *countingHealth
}

func newAuthServer(user, pass string) *authServer {
	a := auth.NewAuth(types.AuthConfig{Username: user, Password: pass})
	// exactly what core.go does when config.Auth.Username != ""
	srv := grpc.NewServer(grpc.StreamInterceptor(a.StreamInterceptor), grpc.UnaryInterceptor(a.UnaryInterceptor))
	app := &countingHealth{Server: health.NewServer()}
	healthpb.RegisterHealthServer(srv, app)
	lis := bufconn.Listen(1 << 16)
	go func() { _ = srv.Serve(lis) }()
	return &authServer{srv: srv, lis: lis, app: app}
}

func (s *authServer) close() {
	s.srv.Stop()
	_ = s.lis.Close()
}

func (s *authServer) dial(ac *authCase) (*grpc.ClientConn, error) {
	opts := []grpc.DialOption{
		grpc.WithTransportCredentials(insecure.NewCredentials()),
		grpc.WithContextDialer(func(ctx context.Context, _ string) (net.Conn, error) { return s.lis.DialContext(ctx) }),
	}
	if !ac.NoCred {
		opts = append(opts, grpc.WithPerRPCCredentials(auth.NewCredential(types.AuthConfig{Username: ac.ClientUser, Password: ac.ClientPass})))
	}
	return grpc.Dial("passthrough:///c35", opts...)
}

const authLiveness = 20 * time.Second

// authCall performs one RPC. clientOK: the client received the health answer. handlerRan: the
// application handler was entered on the server. label: what the client saw.
func authCall(c *vcore.Ctx, s *authServer, conn *grpc.ClientConn, kind string) (clientOK, handlerRan bool, label string, usable bool) {
	ctx, cancel := context.WithTimeout(context.Background(), authLiveness)
	defer cancel()
	cl := healthpb.NewHealthClient(conn)
	var err error
	var before int64
	switch kind {
	case "unary":
		before = s.app.unary.Load()
		var resp *healthpb.HealthCheckResponse
		resp, err = cl.Check(ctx, &healthpb.HealthCheckRequest{})
		clientOK = err == nil && resp.GetStatus() == healthpb.HealthCheckResponse_SERVING
		handlerRan = s.app.unary.Load() > before
	case "stream":
		before = s.app.stream.Load()
		var st healthpb.Health_WatchClient
		st, err = cl.Watch(ctx, &healthpb.HealthCheckRequest{})
		if err == nil {
			var resp *healthpb.HealthCheckResponse
			resp, err = st.Recv()
			clientOK = err == nil && resp.GetStatus() == healthpb.HealthCheckResponse_SERVING
		}
		handlerRan = s.app.stream.Load() > before
	default:
		c.HarnessError("unknown kind %q", kind)
		return false, false, "", false
	}
	if clientOK {
		return true, handlerRan, "served", true
	}
	if err == nil {
		c.HarnessError("health service answered without SERVING and without error (%s)", kind)
		return false, handlerRan, "", false
	}
	st := status.Convert(err)
	switch st.Code() {
	case codes.DeadlineExceeded, codes.Canceled, codes.Unavailable:
		// a liveness guard fired or the in-process transport broke: that is a defect of the
		// harness, never "rejected"
		c.HarnessError("C35 %s call did not complete: %v", kind, err)
		return false, handlerRan, "", false
	}
	return false, handlerRan, fmt.Sprintf("rejected:%s:%s", st.Code(), st.Message()), true
}

func authOne(c *vcore.Ctx, s *authServer, conn *grpc.ClientConn, ac *authCase) {
	c.Eval()
	clientOK, handlerRan, label, usable := authCall(c, s, conn, ac.Kind)
	if !usable {
		return
	}
	c.Outcome(ac.Kind + ":" + label)

	// independent reference
	sameUser := !ac.NoCred && strings.EqualFold(ac.ClientUser, ac.ServerUser) // equality of gRPC metadata keys
	samePass := !ac.NoCred && ac.ClientPass == ac.ServerPass
	want := sameUser && samePass
	identical := !ac.NoCred && ac.ClientUser == ac.ServerUser && samePass

	if want || (sameUser != samePass) || ac.NoCred {
		// accepted pairs, near misses (exactly one component differs) and credential-less calls
		c.Nontrivial(vcore.JSON(ac))
	}
	class := ""
	switch {
	case ac.NoCred:
		class = "no-credential"
	case identical:
		class = "identical"
	case want:
		class = "username-differs-in-case-only"
	case sameUser:
		class = "password-differs"
	case samePass:
		class = "username-differs"
	}
	if class != "" && !authSampled[class+ac.Kind] && c.WantSample() {
		authSampled[class+ac.Kind] = true
		c.Sample(map[string]any{"class": class, "case": ac, "expected_served": want, "client_received_answer": clientOK, "handler_entered": handlerRan, "client_saw": label})
	}
	detail := func(msg string) string {
		return fmt.Sprintf("%s | case=%s expected_served=%v client_received_answer=%v handler_entered=%v client_saw=%q",
			msg, vcore.JSON(ac), want, clientOK, handlerRan, label)
	}
	switch {
	case want && !clientOK && identical:
		c.Violate("C35/identical-config-rejected/"+ac.Kind, detail("client and server carry the same username and password, yet the call was refused"), ac)
	case want && !clientOK:
		c.Violate("C35/matching-credentials-rejected/"+ac.Kind, detail("username equal as a metadata key and password equal, yet the call was refused"), ac)
	case !want && (clientOK || handlerRan) && ac.NoCred:
		c.Violate("C35/no-credential-served/"+ac.Kind, detail("a call without credentials reached the handler"), ac)
	case !want && (clientOK || handlerRan):
		c.Violate("C35/mismatch-served/"+ac.Kind, detail("credentials differ from the configured ones, yet the call reached the handler"), ac)
	case want && clientOK && !handlerRan:
		c.HarnessError("client got an answer but the handler counter did not move: %s", vcore.JSON(ac))
	}
}

func authEnum(c *vcore.Ctx) {
	c.SetRule("server (username,password) in {admin,Admin,a.b,a-b_1,x} x {\"\",pw,Pw,\"p w\",\"p=;,\"}; client the same 25 pairs plus no credential at all; unary health Check and streaming health Watch; " +
		"one real grpc.Server with auth.NewAuth interceptors per server pair on bufconn, one real ClientConn with auth.NewCredential per client pair; " +
		"non-trivial = the oracle says served, or exactly one of username/password differs, or no credential; distinct by full case")
	c.Assume("usernames that are reserved or invalid HTTP/2 header names (grpc-*, :pseudo, upper ASCII outside a-z0-9-_.) and passwords outside printable ASCII or with leading/trailing blanks are outside the alphabet")
	c.Assume("served = the client received the health answer; for calls that must be refused, entering the handler at all counts as served")
	c.Bound("usernames", authUsers)
	c.Bound("passwords", authPass)
	c.Bound("kinds", []string{"unary", "stream"})

	if c.Replay != nil {
		var ac authCase
		if err := jsonUnmarshal(c.Replay, &ac); err != nil {
			c.HarnessError("replay: %v", err)
			return
		}
		s := newAuthServer(ac.ServerUser, ac.ServerPass)
		defer s.close()
		conn, err := s.dial(&ac)
		if err != nil {
			c.HarnessError("dial: %v", err)
			return
		}
		defer conn.Close()
		authOne(c, s, conn, &ac)
		return
	}

	var idx int64
	for _, su := range authUsers {
		for _, sp := range authPass {
			idx++
			if !c.Mine(idx) {
				continue
			}
			if c.Expired() {
				c.CapHit(fmt.Sprintf("budget reached at server config %d", idx))
				return
			}
			s := newAuthServer(su, sp)
			clients := []authCase{{ServerUser: su, ServerPass: sp, NoCred: true}}
			for _, cu := range authUsers {
				for _, cp := range authPass {
					clients = append(clients, authCase{ServerUser: su, ServerPass: sp, ClientUser: cu, ClientPass: cp})
				}
			}
			for i := range clients {
				conn, err := s.dial(&clients[i])
				if err != nil {
					c.HarnessError("dial: %v", err)
					s.close()
					return
				}
				for _, kind := range []string{"unary", "stream"} {
					ac := clients[i]
					ac.Kind = kind
					authOne(c, s, conn, &ac)
				}
				_ = conn.Close()
			}
			s.close()
		}
	}
}
