package checks

import (
	"context"
	"errors"
	"fmt"
	"net"
	"sync"
	"testing"
	"testing/synctest"
	"time"

	"google.golang.org/grpc/peer"

	coretypes "github.com/projecteru2/core/types"
	"github.com/projecteru2/core/utils"

	"verif/harness/vcore"
)

// C17: the transaction helper rolls back exactly when a step failed (engines E1 + E4).
//
// utils.Txn and utils.PCR are called with scripted step functions inside a testing/synctest
// bubble. Every step records that it ran, ctx.Err() on entry, then PARKS on a channel; the
// harness (the bubble's root goroutine) waits until the helper is durably blocked, looks which
// step is parked, optionally cancels the caller's context right there, lets one virtual second
// pass (so a short ttl expires while the step is parked) and releases the step, which records
// ctx.Err() again and returns its scripted outcome. Cancellation "during a step" and ttl expiry
// are therefore exact, not timing dependent.
//
// The oracle is evaluated over the OBSERVED step outcomes (what each step actually returned),
// from the property sentence only:
//   then runs iff cond returned nil (and then != nil); rollback runs exactly once iff a step
//   failed and rollback != nil, and is told failureByCond = (cond was the failing step); the
//   helper returns the first failure (nil if none); the rollback's context is live on entry and
//   the caller's cancellation never reaches it; PCR: commit runs iff prepare returned nil, the
//   rollback runs iff commit failed (never for a prepare failure), return = first failure.

func init() {
	register(Meta{ID: "C17", Level: "exploration", ShardsQuick: 4, ShardsThor: 4, BudgetQuick: 60, BudgetThor: 300, GoMaxProcs: 2},
		func(t *testing.T, c *vcore.Ctx) { c17Enum(t, c) })
}

const (
	c17OK       = "ok"
	c17Fail     = "fail"
	c17FailIfCx = "fail-if-cancelled" // fails iff its own context is done after the park
	c17Nil      = "nil"

	c17Never    = "never"
	c17Before   = "before-call"
	c17DurCond  = "during-cond"
	c17Between  = "between-cond-and-then"
	c17DurThen  = "during-then"
	c17DurRoll  = "during-rollback"
	c17AfterRet = "after-return"

	c17TTLLong  = "long"
	c17TTLShort = "shorter-than-a-parked-step"

	c17Park     = time.Second            // how long every parked step stays parked (virtual)
	c17LongTTL  = 10 * time.Second       // never expires within a run (at most 3 parks)
	c17ShortTTL = 100 * time.Millisecond // expires while any step is parked
)

type c17Case struct {
	Form     string `json:"form"` // "txn" | "pcr"
	Cond     string `json:"cond"` // prepare for pcr
	Then     string `json:"then"` // commit for pcr
	Rollback string `json:"rollback"`
	Cancel   string `json:"cancel"`
	TTL      string `json:"ttl"`
	Caller   string `json:"caller,omitempty"` // "" = plain context | "rpc" = a context carrying a tracing id and a peer, as every RPC's does
}

var (
	c17Conds   = []string{c17OK, c17Fail, c17FailIfCx}
	c17Thens   = []string{c17OK, c17Fail, c17FailIfCx, c17Nil}
	c17Rolls   = []string{c17OK, c17Fail, c17FailIfCx, c17Nil}
	c17Cancels = []string{c17Never, c17Before, c17DurCond, c17Between, c17DurThen, c17DurRoll, c17AfterRet}
	c17TTLs    = []string{c17TTLLong, c17TTLShort}
)

// c17Rec is what one step function observed.
type c17Rec struct {
	Ran           int    `json:"ran"`
	EntryErr      string `json:"ctx_err_on_entry,omitempty"`
	AfterErr      string `json:"ctx_err_after_park,omitempty"`
	Returned      string `json:"returned,omitempty"`
	FailureByCond []bool `json:"failure_by_cond,omitempty"` // rollback only, one per invocation
	entryErr      error
	afterErr      error
	ret           error
}

type c17Run struct {
	mu          sync.Mutex
	cs          *c17Case
	cancel      context.CancelFunc
	cond        c17Rec
	then        c17Rec
	roll        c17Rec
	order       []string // step names in the order they were entered
	parked      string
	gate        chan struct{}
	cancelFired bool
	cancelAt    string
	ret         error
	returned    bool
}

func c17ErrStr(err error) string {
	if err == nil {
		return ""
	}
	return err.Error()
}

// step is the body shared by the three scripted step functions.
func (r *c17Run) step(name, mode string, ctx context.Context, rec *c17Rec) error {
	r.mu.Lock()
	rec.Ran++
	first := rec.Ran == 1
	if first {
		rec.entryErr = ctx.Err()
		rec.EntryErr = c17ErrStr(rec.entryErr)
	}
	r.order = append(r.order, name)
	r.parked = name
	r.mu.Unlock()

	<-r.gate // parked until the harness releases the step

	r.mu.Lock()
	defer r.mu.Unlock()
	r.parked = ""
	after := ctx.Err()
	var ret error
	switch mode {
	case c17OK:
	case c17Fail:
		ret = fmt.Errorf("%s failed (scripted)", name)
	case c17FailIfCx:
		if after != nil {
			ret = fmt.Errorf("%s gave up: %w", name, after)
		}
	}
	if first {
		rec.afterErr, rec.AfterErr = after, c17ErrStr(after)
		rec.ret, rec.Returned = ret, c17ErrStr(ret)
	}
	// "between cond and then": the caller is cancelled after cond has decided its outcome and
	// before the helper can start the next step.
	if name == "cond" && r.cs.Cancel == c17Between && !r.cancelFired {
		r.cancelFired, r.cancelAt = true, "cond-exit"
		r.cancel()
	}
	return ret
}

func c17Enum(t *testing.T, c *vcore.Ctx) {
	c.SetRule("every (form in {Txn, PCR}) x cond/prepare {ok, fail, fail-if-its-ctx-is-done} x then/commit {ok, fail, fail-if-its-ctx-is-done, nil} x rollback {ok, fail, fail-if-its-ctx-is-done (with the short ttl it outlives its own budget and returns a wrapped deadline error), nil (Txn only)} x " +
		"caller cancellation {never, before the call, while cond is parked, between cond and then, while then is parked, while rollback is parked, after return} x ttl {10s, 100ms < 1s park}; " +
		"each step parks 1 virtual second on a channel inside a synctest bubble; oracle over the observed step outcomes; " +
		"non-trivial = at least one step failed or the cancellation point was reached (something other than the all-ok straight line); distinct by the full case")
	c.Bound("park_virtual_s", c17Park.Seconds())
	c.Bound("ttl_long_s", c17LongTTL.Seconds())
	c.Bound("ttl_short_s", c17ShortTTL.Seconds())
	c.Bound("cancellations_per_run", 1)
	if c.Replay != nil {
		var cs c17Case
		if err := jsonUnmarshal(c.Replay, &cs); err != nil {
			c.HarnessError("replay: %v", err)
			return
		}
		c17One(t, c, &cs)
		return
	}
	var idx int64
	for _, form := range []string{"txn", "pcr"} {
		for _, ttl := range c17TTLs {
			for _, cancel := range c17Cancels {
				for _, rb := range c17Rolls {
					if form == "pcr" && rb == c17Nil {
						continue // PCR with a nil rollback is a misuse the property does not speak about
					}
					for _, th := range c17Thens {
						for _, cd := range c17Conds {
							for _, caller := range []string{"", "rpc"} {
								idx++
								if !c.Mine(idx) {
									continue
								}
								c17One(t, c, &c17Case{Form: form, Cond: cd, Then: th, Rollback: rb, Cancel: cancel, TTL: ttl, Caller: caller})
								if c.Expired() {
									c.CapHit("budget reached")
									return
								}
							}
						}
					}
				}
			}
		}
	}
}

func c17One(t *testing.T, c *vcore.Ctx, cs *c17Case) {
	c.Eval()
	var r *c17Run
	var herr string
	ok := func() (ok bool) {
		// a deadlocked bubble makes synctest.Test panic in this goroutine
		defer func() {
			if rec := recover(); rec != nil {
				herr = ""
				r = nil
				c.Note("bubble panicked on %s: %v", vcore.JSON(cs), rec)
			}
		}()
		synctest.Test(t, func(t *testing.T) {
			r, herr = c17Execute(cs)
		})
		return true
	}()
	if !ok || r == nil {
		// the bubble deadlocked or panicked: the helper never returned
		c.Violate("C17/helper-did-not-return", "the bubble failed (deadlock or panic) | case="+vcore.JSON(cs), cs)
		return
	}
	if herr != "" {
		c.HarnessError("%s | case=%s", herr, vcore.JSON(cs))
		return
	}
	c17Judge(c, cs, r)
}

// c17Execute runs one case inside the current bubble.
func c17Execute(cs *c17Case) (*c17Run, string) {
	ctx, cancel := context.WithCancel(context.Background())
	defer cancel()
	if cs.Caller == "rpc" {
		ctx = peer.NewContext(context.WithValue(ctx, coretypes.TracingID, "trace-1"), &peer.Peer{Addr: &net.TCPAddr{IP: net.IPv4(10, 0, 0, 9), Port: 4000}})
	}
	r := &c17Run{cs: cs, cancel: cancel, gate: make(chan struct{})}
	ttl := c17LongTTL
	if cs.TTL == c17TTLShort {
		ttl = c17ShortTTL
	}
	cond := func(ctx context.Context) error { return r.step("cond", cs.Cond, ctx, &r.cond) }
	var then func(context.Context) error
	if cs.Then != c17Nil {
		then = func(ctx context.Context) error { return r.step("then", cs.Then, ctx, &r.then) }
	}
	if cs.Cancel == c17Before {
		r.cancelFired, r.cancelAt = true, "before-call"
		cancel()
	}
	done := make(chan struct{})
	go func() {
		defer close(done)
		var ret error
		switch cs.Form {
		case "txn":
			var rb func(context.Context, bool) error
			if cs.Rollback != c17Nil {
				rb = func(ctx context.Context, byCond bool) error {
					r.mu.Lock()
					r.roll.FailureByCond = append(r.roll.FailureByCond, byCond)
					r.mu.Unlock()
					return r.step("rollback", cs.Rollback, ctx, &r.roll)
				}
			}
			ret = utils.Txn(ctx, cond, then, rb, ttl)
		case "pcr":
			rb := func(ctx context.Context) error { return r.step("rollback", cs.Rollback, ctx, &r.roll) }
			ret = utils.PCR(ctx, cond, then, rb, ttl)
		}
		r.mu.Lock()
		r.ret, r.returned = ret, true
		r.mu.Unlock()
	}()
	during := map[string]string{c17DurCond: "cond", c17DurThen: "then", c17DurRoll: "rollback"}[cs.Cancel]
	for parks := 0; ; parks++ {
		synctest.Wait()
		finished := false
		select {
		case <-done:
			finished = true
		default:
		}
		if finished {
			break
		}
		if parks > 8 {
			// release whatever is parked so that the bubble can end, then report
			go func() {
				for {
					select {
					case r.gate <- struct{}{}:
					case <-done:
						return
					}
				}
			}()
			<-done
			return r, "" // the judge reports the step counts
		}
		r.mu.Lock()
		cur := r.parked
		r.mu.Unlock()
		if cur == "" {
			<-done // cannot happen: durably blocked outside a step; let the bubble report the deadlock
			return nil, "helper blocked outside a step"
		}
		if cur == during && !r.cancelFired {
			r.mu.Lock()
			r.cancelFired, r.cancelAt = true, cur+"-parked"
			r.mu.Unlock()
			cancel()
			synctest.Wait()
		}
		time.Sleep(c17Park) // virtual: the step stays parked, a short ttl expires meanwhile
		synctest.Wait()
		r.gate <- struct{}{}
	}
	if cs.Cancel == c17AfterRet {
		r.mu.Lock()
		r.cancelFired, r.cancelAt = true, "after-return"
		r.mu.Unlock()
		cancel()
	}
	// nothing may run after the helper returned: give latent timers/goroutines every chance
	synctest.Wait()
	time.Sleep(3 * c17LongTTL)
	synctest.Wait()
	return r, ""
}

func c17Judge(c *vcore.Ctx, cs *c17Case, r *c17Run) {
	r.mu.Lock()
	defer r.mu.Unlock()
	obs := map[string]any{"cond": r.cond, "then": r.then, "rollback": r.roll, "order": r.order, "returned": c17ErrStr(r.ret), "cancel_fired_at": r.cancelAt}
	viol := func(sig, f string, a ...any) {
		c.Violate("C17/"+sig, fmt.Sprintf(f, a...)+" | case="+vcore.JSON(cs)+" observed="+vcore.JSON(obs), cs)
	}
	pcr := cs.Form == "pcr"
	names := map[string]string{"cond": "cond", "then": "then"}
	if pcr {
		names = map[string]string{"cond": "prepare", "then": "commit"}
	}
	if !r.returned {
		viol("helper-did-not-return", "no return value recorded")
		return
	}
	if r.cond.Ran != 1 {
		viol("cond-count", "%s ran %d times", names["cond"], r.cond.Ran)
		return
	}
	condFailed := r.cond.ret != nil
	// follow-up step
	wantThen := !condFailed && cs.Then != c17Nil
	switch {
	case r.then.Ran > 0 && condFailed:
		viol("then-ran-after-cond-failure", "%s ran although %s returned %q", names["then"], names["cond"], r.cond.Returned)
	case r.then.Ran == 0 && wantThen:
		viol("then-skipped-after-cond-success", "%s did not run although %s returned nil", names["then"], names["cond"])
	case r.then.Ran > 1:
		viol("then-count", "%s ran %d times", names["then"], r.then.Ran)
	}
	thenFailed := r.then.Ran > 0 && r.then.ret != nil
	failed := condFailed || thenFailed
	// rollback count
	wantRoll := 0
	if pcr {
		if thenFailed && !condFailed {
			wantRoll = 1
		}
	} else if failed && cs.Rollback != c17Nil {
		wantRoll = 1
	}
	if r.roll.Ran != wantRoll {
		switch {
		case pcr && condFailed && r.roll.Ran > 0:
			viol("pcr-rollback-on-prepare-failure", "rollback ran %d times although prepare was the failing step", r.roll.Ran)
		case pcr:
			viol("pcr-rollback-count", "rollback ran %d times, want %d (prepare failed=%v, commit failed=%v)", r.roll.Ran, wantRoll, condFailed, thenFailed)
		default:
			viol("rollback-count", "rollback ran %d times, want %d (cond failed=%v, then failed=%v)", r.roll.Ran, wantRoll, condFailed, thenFailed)
		}
	}
	// failureByCond
	if !pcr {
		for _, b := range r.roll.FailureByCond {
			if b != condFailed {
				viol("wrong-failureByCond", "rollback was told failureByCond=%v, cond failed=%v", b, condFailed)
				break
			}
		}
	}
	// return value = first failure
	var wantRet error
	switch {
	case condFailed:
		wantRet = r.cond.ret
	case thenFailed:
		wantRet = r.then.ret
	}
	if (wantRet == nil) != (r.ret == nil) || (wantRet != nil && !errors.Is(r.ret, wantRet)) {
		viol("wrong-return", "returned %q, first failure is %q", c17ErrStr(r.ret), c17ErrStr(wantRet))
	}
	// the rollback's context
	if r.roll.Ran > 0 {
		if r.roll.entryErr != nil {
			viol("rollback-context-dead-on-entry", "rollback's ctx.Err() on entry = %v", r.roll.entryErr)
		}
		callerCancelledByThen := r.cancelFired && r.cancelAt != "after-return"
		switch {
		case errors.Is(r.roll.afterErr, context.Canceled) && callerCancelledByThen:
			viol("rollback-interrupted-by-caller-cancel", "rollback's context was cancelled (%v) after the caller's cancellation at %s", r.roll.afterErr, r.cancelAt)
		case r.roll.afterErr != nil && cs.TTL == c17TTLLong:
			viol("rollback-context-died", "rollback's ctx.Err() after a 1s park = %v with ttl %v", r.roll.afterErr, c17LongTTL)
		}
	}

	// bookkeeping
	reached := r.cancelFired
	if failed || reached {
		c.Nontrivial(vcore.JSON(cs))
	}
	label := cs.Form + ":"
	switch {
	case condFailed:
		label += "cond-failed"
	case thenFailed:
		label += "then-failed"
	default:
		label += "no-failure"
	}
	if r.roll.Ran > 0 {
		label += "+rollback"
	}
	if reached {
		label += "+cancel@" + r.cancelAt
	} else if cs.Cancel != c17Never {
		label += "+cancel-point-not-reached"
	}
	c.Outcome(label)
	if c.WantSample() && r.roll.Ran > 0 && reached && r.cancelAt == "rollback-parked" {
		c.Sample(map[string]any{"case": cs, "observed": obs})
	}
}
