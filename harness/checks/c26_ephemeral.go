package checks

import (
	"context"
	"fmt"
	"os"
	"strings"
	"testing"
	"time"

	"verif/harness/vcore"
	"verif/harness/world"
)

// C26: ephemeral registrations are exclusive and owner-safe (both backends). Registrants on
// one key run the real Store.StartEphemeral; their heartbeats are timer-driven goroutines
// whose backend requests are scheduling points. A pause longer than the TTL is the scheduler
// letting virtual time pass (TTL + 1 s) while a registrant's heartbeat request is pending; on
// etcd a lapse is also injected by revoking the registrant's lease.

func init() {
	register(Meta{ID: "C26", Level: "model_checking", BudgetQuick: 240, BudgetThor: 1800, GoMaxProcs: 2},
		func(t *testing.T, c *vcore.Ctx) { c26Explore(t, c) })
}

const ephKey = "/eph/the-key"
const ephTTL = 6 * time.Second

type c26Case struct {
	Backend    string `json:"backend"`
	Registrants int   `json:"registrants"`
	Deregister bool   `json:"first_deregisters"`
	Revoke     bool   `json:"revoke_fault"`
	Watchers   bool   `json:"node_status_watchers,omitempty"` // second part (c26b_watchers.go)
	Bound      int    `json:"preemption_bound"`
	Choices    []int  `json:"choices,omitempty"`
}

type ephReg struct {
	name       string
	believes   bool // between a successful StartEphemeral and (notification | deregistration)
	gen        int  // registration generation this registrant created (0 = none)
	mustNotify bool // a heartbeat/revoke step of it ran while the key was not its own any more
	notified   bool
	results    []string
}

type ephMon struct {
	regs      map[string]*ephReg
	ownerGen  map[string]int // thread -> generation of the key version it created (redis side, tracked by the harness)
	keyOwner  string         // who created the current key version ("" = absent), refreshed from the backend
	gen       int
	viol      []string
	keyPresentAtCreate map[string]string // thread -> owner of the key right before its create step ran
}

func getEph(x *schedRun) *ephMon {
	x.mu.Lock()
	defer x.mu.Unlock()
	if m, ok := x.Data["eph"].(*ephMon); ok {
		return m
	}
	m := &ephMon{regs: map[string]*ephReg{}, ownerGen: map[string]int{}, keyPresentAtCreate: map[string]string{}}
	x.Data["eph"] = m
	return m
}

// currentOwner reads who created the key version that is in the backend now.
func currentOwner(x *schedRun, redis bool, m *ephMon) string {
	if redis {
		if x.B.Redis == nil || !x.B.Redis.Exists(ephKey) {
			return ""
		}
		return m.keyOwner
	}
	for _, e := range x.B.Etcd.Dump(ephKey) {
		if e.Key == ephKey {
			return e.Creator
		}
	}
	return ""
}

type ephemeralStarter interface {
	StartEphemeral(ctx context.Context, path string, heartbeat time.Duration) (<-chan struct{}, func(), error)
}

func registrant(name string, cc *c26Case, deregister bool) schedThread {
	return schedThread{Name: name, Run: func(ctx context.Context, x *schedRun) {
		m := getEph(x)
		x.mu.Lock()
		r := &ephReg{name: name}
		m.regs[name] = r
		x.mu.Unlock()
		st := x.Inst(name).Store.(ephemeralStarter)
		for attempt := 0; attempt < 3; attempt++ {
			exp, unreg, err := st.StartEphemeral(ctx, ephKey, ephTTL)
			if err != nil {
				x.mu.Lock()
				r.results = append(r.results, "refused")
				x.mu.Unlock()
				time.Sleep(time.Second) // the service registration loop retries after a second
				continue
			}
			x.mu.Lock()
			m.gen++
			r.gen = m.gen
			r.believes = true
			r.mustNotify = false
			r.notified = false
			r.results = append(r.results, "registered")
			if prev := m.keyPresentAtCreate[name]; prev != "" && prev != name {
				if o := m.regs[prev]; o != nil && o.believes {
					m.viol = append(m.viol, fmt.Sprintf("two-registrations-without-lapse|%s registered although the key created by %s was still present", name, prev))
				}
			}
			if cc.Backend == "redis" {
				m.keyOwner = name
			}
			x.mu.Unlock()
			x.Event("%s registered", name)
			hold := 14 * time.Second
			if deregister {
				hold = 3 * time.Second
			}
			select {
			case <-exp:
				x.mu.Lock()
				r.believes = false
				r.notified = true
				r.results = append(r.results, "notified")
				x.mu.Unlock()
				x.Event("%s notified of expiry", name)
				unreg()
			case <-time.After(hold):
				x.mu.Lock()
				r.believes = false
				r.results = append(r.results, "deregistered")
				x.mu.Unlock()
				x.Event("%s deregisters", name)
				unreg()
				return
			}
		}
	}}
}

func c26Scenario(cc *c26Case) *schedScenario {
	sc := &schedScenario{Name: "ephemeral", Horizon: 3 * time.Minute, Quantum: 500 * time.Millisecond, TimeFirst: 2, TimeFirstStep: ephTTL + time.Second}
	redis := cc.Backend == "redis"
	sc.Opts = world.InstanceOpts{Redis: redis, NoWAL: true}
	for i := 0; i < cc.Registrants; i++ {
		sc.Threads = append(sc.Threads, registrant(fmt.Sprintf("R%d", i+1), cc, cc.Deregister && i == 0))
	}
	if cc.Revoke && !redis {
		sc.Threads = append(sc.Threads, schedThread{Name: "F", Run: func(ctx context.Context, x *schedRun) {
			x.Yield("F", "revoke-lease-of-key")
			for _, e := range x.B.Etcd.Dump(ephKey) {
				if e.Key == ephKey && e.Lease != 0 {
					x.B.Etcd.RevokeLease(e.Lease)
					x.Event("F revoked the lease of %s's registration", e.Creator)
				}
			}
		}})
	}
	sc.OnRelease = func(x *schedRun, thread, label string) {
		m := getEph(x)
		if !strings.Contains(label, ephKey) && !strings.HasPrefix(label, "etcd.keepalive") && !strings.HasPrefix(label, "etcd.revoke") {
			return
		}
		owner := currentOwner(x, redis, m)
		x.mu.Lock()
		defer x.mu.Unlock()
		r := m.regs[thread]
		if r == nil {
			return
		}
		switch {
		case strings.HasPrefix(label, "redis.set") || strings.HasPrefix(label, "etcd.txn"):
			m.keyPresentAtCreate[thread] = owner
		case strings.HasPrefix(label, "redis.expire"), strings.HasPrefix(label, "redis.del"):
			if owner != "" && owner != thread {
				what := "refreshes"
				if strings.HasPrefix(label, "redis.del") {
					what = "deletes"
				}
				m.viol = append(m.viol, fmt.Sprintf("%s-foreign-registration|%s %s the registration created by %s", what, thread, what, owner))
			}
			if r.believes && owner != thread && strings.HasPrefix(label, "redis.expire") {
				r.mustNotify = true
			}
		case strings.HasPrefix(label, "etcd.keepalive"):
			if r.believes && owner != thread {
				r.mustNotify = true
			}
		}
	}
	sc.Finally = func(x *schedRun) {
		m := getEph(x)
		x.mu.Lock()
		defer x.mu.Unlock()
		for _, r := range m.regs {
			if r.mustNotify && !r.notified {
				m.viol = append(m.viol, fmt.Sprintf("lapsed-registrant-not-notified|%s ran a heartbeat after its registration had lapsed but its expiry channel was never closed", r.name))
			}
		}
	}
	return sc
}

func c26Explore(t *testing.T, c *vcore.Ctx) {
	dir := os.Getenv("VERIF_TMP")
	if dir == "" {
		dir = t.TempDir()
	}
	c.SetRule("registrants on one key through the real Store.StartEphemeral (TTL 6 s, heartbeat every 2 s), retrying after a refusal like the service registration loop; optional deregistration of the first; lapses = up to 2 'time passes for TTL+1 s while a heartbeat request is pending' choices, and on etcd a lease revocation at every scheduling point; all interleavings within the preemption bound; non-trivial = schedules containing at least one lapse or refusal")
	c.Assume("etcd = memetcd (key versions carry the thread that created them); redis = miniredis, ownership of the current key version is tracked from the successful SETNX")
	b := world.NewBackend(dir, true)
	defer b.Close()
	if c.Replay != nil {
		var cc c26Case
		if err := jsonUnmarshal(c.Replay, &cc); err != nil {
			c.HarnessError("replay: %v", err)
			return
		}
		if cc.Watchers {
			c26wExplore(t, c, b, &cc)
			return
		}
		x := runSchedule(t, b, c26Scenario(&cc), cc.Choices)
		c.Eval()
		c26Check(c, &cc, x, cc.Choices)
		return
	}
	bound := 1
	if c.Thorough() {
		bound = 2
	}
	var cases []c26Case
	for _, be := range []string{"etcd", "redis"} {
		cases = append(cases,
			c26Case{Backend: be, Registrants: 2, Bound: bound},
			c26Case{Backend: be, Registrants: 2, Deregister: true, Bound: bound},
			c26Case{Backend: be, Registrants: 1, Bound: bound})
		if be == "etcd" {
			cases = append(cases, c26Case{Backend: be, Registrants: 2, Revoke: true, Bound: bound})
		}
		if c.Thorough() {
			cases = append(cases, c26Case{Backend: be, Registrants: 3, Bound: 1})
		}
	}
	c.Bound("scenarios", len(cases))
	c.Bound("preemption_bound_completed", bound)
	for i := range cases {
		cc := cases[i]
		if c.Expired() {
			c.CapHit("budget reached")
			return
		}
		st := exploreSchedules(t, c, b, c26Scenario(&cc), cc.Bound, func(x *schedRun, choices []int) { c26Check(c, &cc, x, choices) })
		if !st.Complete {
			c.CapHit("budget reached inside a scenario")
		}
		c.AddStates(int64(st.Executions))
		c.AddTransitions(int64(st.Executions * (st.MaxPoints + 1)))
	}
	c26wExplore(t, c, b, nil)
}

func c26Check(c *vcore.Ctx, cc *c26Case, x *schedRun, choices []int) {
	m := getEph(x)
	rc := *cc
	rc.Choices = choices
	viol := func(sig, detail string) {
		c.Violate("C26/"+cc.Backend+"/"+sig, detail+" | scenario="+vcore.JSON(cc)+" events="+fmt.Sprint(x.Events), rc)
	}
	if x.Stuck != "" {
		viol("registrant-never-returns", firstLine(x.Stuck))
		return
	}
	x.mu.Lock()
	defer x.mu.Unlock()
	for _, v := range m.viol {
		i := strings.Index(v, "|")
		viol(v[:i], v[i+1:])
	}
	out := cc.Backend
	lapse := false
	for _, name := range []string{"R1", "R2", "R3"} {
		if r := m.regs[name]; r != nil {
			out += "/" + strings.Join(r.results, ",")
			for _, s := range r.results {
				if s == "notified" || s == "refused" {
					lapse = true
				}
			}
		}
	}
	c.Outcome(out)
	if lapse {
		c.Nontrivial(vcore.JSON(rc))
		if c.WantSample() {
			c.Sample(map[string]any{"scenario": cc, "events": x.Events})
		}
	}
}
