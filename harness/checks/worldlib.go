package checks

import (
	"context"
	crand "crypto/rand"
	"encoding/json"
	"fmt"
	"regexp"
	"sort"
	"strings"
	"sync"
	"testing"
	"testing/synctest"
	"time"

	resourcetypes "github.com/projecteru2/core/resource/types"
	coretypes "github.com/projecteru2/core/types"

	"verif/harness/vcore"
	"verif/harness/world"
)

// ---------------------------------------------------------------------------------------
// One execution = one synctest bubble: a fresh core instance on the (restored) backend runs
// one API call to completion under virtual time; quiescence is exact (synctest.Wait).
// ---------------------------------------------------------------------------------------

// detRand is the deterministic replacement of crypto/rand.Reader (utils.RandomString draws
// from it); it is reset at the start of every execution.
type detRand struct {
	mu sync.Mutex
	x  uint64
}

func (d *detRand) Read(p []byte) (int, error) {
	d.mu.Lock()
	defer d.mu.Unlock()
	for i := range p {
		d.x = d.x*6364136223846793005 + 1442695040888963407
		p[i] = byte(d.x >> 33)
	}
	return len(p), nil
}

var theRand = &detRand{}

func resetRand(seed uint64) {
	theRand.mu.Lock()
	theRand.x = seed*2654435761 + 12345
	theRand.mu.Unlock()
	crand.Reader = theRand
}

var lockKeyTail = regexp.MustCompile(`/[0-9a-f]{3,16}$`)

// normLabel gives a step a label that is stable across runs: lease ids (which appear in
// revoke/keepalive/ttl requests and as the tail of etcd mutex keys) are dropped.
func normLabel(s world.Step) string {
	key := s.Key
	if s.Layer == "etcd" {
		switch s.Kind {
		case "revoke", "keepalive", "ttl":
			key = "*"
		}
		if strings.Contains(key, "__lock__") {
			key = lockKeyTail.ReplaceAllString(key, "/*")
		}
	}
	return s.Layer + "." + s.Kind + "(" + key + ")"
}

// faultSpec selects one step of an execution by its label and occurrence number.
type faultSpec struct {
	Label string `json:"label"`
	Occ   int    `json:"occ"`
	Crash bool   `json:"crash,omitempty"` // crash the instance instead of failing the step
}

// execTrace is what one execution observed.
type execTrace struct {
	Steps     []string // normalised labels with occurrence, in arrival order
	Delivered bool     // the fault was delivered
	Deadlock  string   // bubble deadlock / panic text
	Panic     string
}

type recorder struct {
	mu     sync.Mutex
	counts map[string]int
	steps  []string
	fault  *faultSpec
	hit    bool
	also   *faultSpec // optional second, non-crash fault of the same execution (a failing instance of a deployment that is then crashed)
	hit2   bool
	onStep func(label string, occ int, s world.Step) // optional observer (called under mu)
	inst   *world.Instance
}

func (r *recorder) intercept(ctx context.Context, s world.Step) error {
	r.mu.Lock()
	label := normLabel(s)
	occ := r.counts[label]
	r.counts[label] = occ + 1
	r.steps = append(r.steps, fmt.Sprintf("%s#%d", label, occ))
	if r.onStep != nil {
		r.onStep(label, occ, s)
	}
	fire := r.fault != nil && !r.hit && r.fault.Label == label && r.fault.Occ == occ
	if fire {
		r.hit = true
	}
	fire2 := !fire && r.also != nil && !r.hit2 && r.also.Label == label && r.also.Occ == occ
	if fire2 {
		r.hit2 = true
	}
	r.mu.Unlock()
	if fire2 {
		return world.ErrInjected
	}
	if fire {
		if r.fault.Crash {
			r.inst.Crash()
			return world.ErrDead
		}
		return world.ErrInjected
	}
	return nil
}

// runBubble runs body inside a synctest bubble and converts bubble deadlocks / panics into
// text instead of killing the worker.
func runBubble(t *testing.T, body func()) (problem string) {
	defer func() {
		if r := recover(); r != nil {
			problem = fmt.Sprintf("bubble: %v", r)
		}
	}()
	synctest.Test(t, func(t *testing.T) {
		defer func() {
			if r := recover(); r != nil {
				problem = fmt.Sprintf("panic in execution: %v", r)
			}
		}()
		body()
	})
	return problem
}

// wexec runs `call` on a fresh instance over backend b (already restored to the wanted
// state) inside a bubble. `after` runs at quiescence with the interceptor removed (used for
// API-level observation such as NodeResource); the instance is closed afterwards.
func wexec(t *testing.T, b *world.Backend, opts world.InstanceOpts, fault *faultSpec, seed uint64,
	call func(ctx context.Context, inst *world.Instance), after func(ctx context.Context, inst *world.Instance), onStep ...func(label string, occ int, s world.Step)) execTrace {
	var tr execTrace
	rec := &recorder{counts: map[string]int{}, fault: fault}
	if len(onStep) > 0 {
		// called before each step takes effect, with all other steps of the instance held back
		rec.onStep = onStep[0]
	}
	problem := runBubble(t, func() {
		resetRand(seed)
		inst, err := b.NewInstance(opts)
		if err != nil {
			tr.Panic = "new instance: " + err.Error()
			return
		}
		rec.inst = inst
		inst.SetInterceptor(rec.intercept)
		// like an RPC context: cancelled once the call and its background work are over
		ctx, cancelCall := context.WithCancel(world.WithThread(context.Background(), "T0"))
		done := make(chan struct{})
		go func() {
			defer close(done)
			call(ctx, inst)
		}()
		// horizon: an API call that is still running after 6 virtual hours is stuck
		select {
		case <-done:
		case <-time.After(6 * time.Hour):
			tr.Deadlock = "call still running after 6 virtual hours"
			inst.Crash()
		}
		synctest.Wait()
		inst.SetInterceptor(nil)
		if after != nil && tr.Deadlock == "" && !(fault != nil && fault.Crash) {
			after(ctx, inst)
			synctest.Wait()
		}
		cancelCall()
		synctest.Wait()
		inst.Close()
	})
	rec.mu.Lock()
	tr.Steps = append([]string{}, rec.steps...)
	tr.Delivered = rec.hit
	rec.mu.Unlock()
	if problem != "" && tr.Deadlock == "" {
		tr.Deadlock = problem
	}
	return tr
}

// stepList turns recorded "label#occ" strings back into fault specs (every step once).
func stepList(steps []string) []faultSpec {
	out := make([]faultSpec, 0, len(steps))
	for _, s := range steps {
		i := strings.LastIndex(s, "#")
		var occ int
		fmt.Sscan(s[i+1:], &occ)
		out = append(out, faultSpec{Label: s[:i], Occ: occ})
	}
	return out
}

// ---------------------------------------------------------------------------------------
// Operations of the cluster API, referring to workloads by index in canonical order.
// ---------------------------------------------------------------------------------------

type wOp struct {
	Kind     string   `json:"kind"` // create | remove | dissociate | realloc | replace | setnode | addnode | removenode
	Strategy string   `json:"strategy,omitempty"`
	Count    int      `json:"count,omitempty"`
	Req      string   `json:"req,omitempty"`   // mem | bind1 | bindhalf | big
	W        int      `json:"w,omitempty"`     // workload index (canonical order)
	Delta    string   `json:"delta,omitempty"` // +mem | -mem | +cpu | unbind | bind
	Node     string   `json:"node,omitempty"`
	Include  []string `json:"include,omitempty"`
	Limit    int      `json:"limit,omitempty"`
	Entry    string   `json:"entry,omitempty"` // entrypoint name of a create (default "web")
}

func (o wOp) String() string { b, _ := json.Marshal(o); return string(b) }

func reqSpec(name string) (bind bool, cpu float64, mem int64) {
	switch name {
	case "mem":
		return false, 0, 60
	case "bind1":
		return true, 1, 30
	case "bindhalf":
		return true, 0.5, 30
	case "big":
		return true, 3, 10
	case "huge":
		return false, 0, 100000
	}
	return false, 0, 10
}

// wItem is one per-item result of an operation.
type wItem struct {
	ID    string                  `json:"id,omitempty"`
	Node  string                  `json:"node,omitempty"`
	OK    bool                    `json:"ok"`
	Err   string                  `json:"err,omitempty"`
	Res   resourcetypes.Resources `json:"-"`
	EP    resourcetypes.Resources `json:"-"`
	NewID string                  `json:"new_id,omitempty"` // replace: the new workload
}

type wResult struct {
	Err    string  `json:"err,omitempty"` // call-level error
	Items  []wItem `json:"items,omitempty"`
	Closed bool    `json:"closed"` // result stream closed / call returned
}

func (r wResult) allFailed() bool {
	if r.Err != "" {
		return true
	}
	for _, it := range r.Items {
		if it.OK {
			return false
		}
	}
	return true
}

func (r wResult) summary() string {
	if r.Err != "" {
		return "error"
	}
	ok, bad := 0, 0
	for _, it := range r.Items {
		if it.OK {
			ok++
		} else {
			bad++
		}
	}
	return fmt.Sprintf("ok%d/fail%d", ok, bad)
}

// sortedWorkloads gives the canonical order of the recorded workloads of a view.
func sortedWorkloads(v *world.View) []*world.WorkloadRec {
	out := make([]*world.WorkloadRec, 0, len(v.Workloads))
	for _, w := range v.Workloads {
		out = append(out, w)
	}
	sort.Slice(out, func(i, j int) bool {
		a, b := out[i], out[j]
		if a.Node != b.Node {
			return a.Node < b.Node
		}
		ra, rb := vcore.JSON(a.Res), vcore.JSON(b.Res)
		if ra != rb {
			return ra < rb
		}
		return a.ID < b.ID
	})
	return out
}

func errStr(err error) string {
	if err == nil {
		return ""
	}
	return err.Error()
}

// runOp executes one operation and drains its result stream.
func runOp(ctx context.Context, inst *world.Instance, op wOp, pre *world.View) (res wResult) {
	ws := sortedWorkloads(pre)
	var target *world.WorkloadRec
	if op.W >= 0 && op.W < len(ws) {
		target = ws[op.W]
	}
	switch op.Kind {
	case "create":
		bind, cpu, mem := reqSpec(op.Req)
		spec := world.DeploySpec{Pod: "p", Count: op.Count, Strategy: op.Strategy, Bind: bind, CPU: cpu, Memory: mem, Limit: op.Limit, Entry: op.Entry}
		if len(op.Include) > 0 {
			spec.Filter = &coretypes.NodeFilter{Podname: "p", Includes: op.Include}
		} else if strings.HasPrefix(op.Node, "exclude-") {
			spec.Filter = &coretypes.NodeFilter{Podname: "p", Excludes: []string{strings.TrimPrefix(op.Node, "exclude-")}}
		}
		ch, err := inst.Cal.CreateWorkload(ctx, spec.Options())
		if err != nil {
			return wResult{Err: err.Error(), Closed: true}
		}
		for m := range ch {
			res.Items = append(res.Items, wItem{ID: m.WorkloadID, Node: m.Nodename, OK: m.Error == nil, Err: errStr(m.Error), Res: m.Resources, EP: m.EngineParams})
		}
		res.Closed = true
	case "remove":
		if target == nil {
			return wResult{Err: "no such workload index", Closed: true}
		}
		ch, err := inst.Cal.RemoveWorkload(ctx, []string{target.ID}, true)
		if err != nil {
			return wResult{Err: err.Error(), Closed: true}
		}
		for m := range ch {
			e := ""
			for _, h := range m.Hook {
				e += h.String()
			}
			id := m.WorkloadID
			if id == "" {
				id = target.ID
			}
			res.Items = append(res.Items, wItem{ID: id, Node: target.Node, OK: m.Success, Err: e})
		}
		res.Closed = true
	case "dissociate":
		if target == nil {
			return wResult{Err: "no such workload index", Closed: true}
		}
		ch, err := inst.Cal.DissociateWorkload(ctx, []string{target.ID})
		if err != nil {
			return wResult{Err: err.Error(), Closed: true}
		}
		for m := range ch {
			res.Items = append(res.Items, wItem{ID: m.WorkloadID, Node: target.Node, OK: m.Error == nil, Err: errStr(m.Error)})
		}
		res.Closed = true
		if len(res.Items) == 0 {
			// the stream closed without a message for the workload: reported as a failure of the call
			res.Err = "no message for the workload"
		}
	case "realloc":
		if target == nil {
			return wResult{Err: "no such workload index", Closed: true}
		}
		raw := resourcetypes.RawParams{}
		switch op.Delta {
		case "+mem":
			raw["memory-request"] = int64(20)
			raw["keep-cpu-bind"] = true
		case "++mem": // more than a small node has free, but not more than free + what the workload already holds
			raw["memory-request"] = int64(180)
			raw["keep-cpu-bind"] = true
		case "-mem":
			raw["memory-request"] = int64(-20)
			raw["keep-cpu-bind"] = true
		case "+cpu":
			raw["cpu-request"] = 0.5
			raw["keep-cpu-bind"] = true
		case "unbind":
			raw["cpu-request"] = 0.0
		case "bind":
			raw["cpu-bind"] = true
			raw["cpu-request"] = 1.0
		}
		err := inst.Cal.ReallocResource(ctx, &coretypes.ReallocOptions{ID: target.ID, Resources: resourcetypes.Resources{"cpumem": raw}})
		res.Items = []wItem{{ID: target.ID, Node: target.Node, OK: err == nil, Err: errStr(err)}}
		res.Closed = true
	case "replace":
		if target == nil {
			return wResult{Err: "no such workload index", Closed: true}
		}
		app, entry, _, _ := parseName(target.Name)
		dopts := world.DeploySpec{App: app, Entry: entry, Pod: "p", Count: 1}.Options()
		ropts := &coretypes.ReplaceOptions{DeployOptions: *dopts, IDs: []string{target.ID}}
		ch, err := inst.Cal.ReplaceWorkload(ctx, ropts)
		if err != nil {
			return wResult{Err: err.Error(), Closed: true}
		}
		for m := range ch {
			it := wItem{ID: target.ID, Node: target.Node, OK: m.Error == nil, Err: errStr(m.Error)}
			if m.Create != nil {
				it.NewID = m.Create.WorkloadID
			}
			res.Items = append(res.Items, it)
		}
		res.Closed = true
	case "setnode":
		raw := resourcetypes.RawParams{}
		switch op.Delta {
		case "+mem":
			raw["memory"] = int64(100)
		case "+cpu":
			raw["cpu"] = 1
		case "-mem":
			raw["memory"] = int64(-50)
		case "+mem-numa":
			// more memory together with a re-cut NUMA layout (cores 0,2 | 1,3 instead of 0,1 | 2,3)
			raw["memory"] = int64(100)
			raw["numa-cpu"] = []string{"0,2", "1,3"}
			raw["numa-memory"] = []string{"50", "50"}
		}
		o := &coretypes.SetNodeOptions{Nodename: op.Node, Delta: true, Bypass: coretypes.TriKeep}
		switch op.Delta {
		case "labels":
			o.Labels = map[string]string{"k": "v2"}
		default:
			o.Resources = resourcetypes.Resources{"cpumem": raw}
		}
		_, err := inst.Cal.SetNode(ctx, o)
		res.Items = []wItem{{Node: op.Node, OK: err == nil, Err: errStr(err)}}
		res.Closed = true
	case "addnode":
		_, err := inst.Cal.AddNode(ctx, world.NodeSpec{Name: op.Node, Pod: "p", CPU: 2, Memory: 200, Test: true}.Options())
		res.Items = []wItem{{Node: op.Node, OK: err == nil, Err: errStr(err)}}
		res.Closed = true
	case "removenode":
		err := inst.Cal.RemoveNode(ctx, op.Node)
		res.Items = []wItem{{Node: op.Node, OK: err == nil, Err: errStr(err)}}
		res.Closed = true
	default:
		res.Err = "unknown op " + op.Kind
	}
	return res
}

func parseName(name string) (string, string, string, error) {
	parts := strings.Split(strings.TrimLeft(name, "/"), "_")
	if len(parts) < 3 {
		return "app", "web", "", fmt.Errorf("bad name")
	}
	return strings.Join(parts[:len(parts)-2], "_"), parts[len(parts)-2], parts[len(parts)-1], nil
}

// ---------------------------------------------------------------------------------------
// Canonical form of a backend state (ids and generated names are dropped).
// ---------------------------------------------------------------------------------------

func canonView(v *world.View) string {
	var sb strings.Builder
	nodes := make([]string, 0, len(v.Nodes))
	for n := range v.Nodes {
		nodes = append(nodes, n)
	}
	sort.Strings(nodes)
	for _, n := range nodes {
		fmt.Fprintf(&sb, "N %s pod=%s res=%s\n", n, v.Nodes[n], vcore.JSON(v.NodeRes[n]))
	}
	rn := make([]string, 0)
	for n := range v.NodeRes {
		if _, ok := v.Nodes[n]; !ok {
			rn = append(rn, n)
		}
	}
	sort.Strings(rn)
	for _, n := range rn {
		fmt.Fprintf(&sb, "R-orphan %s %s\n", n, vcore.JSON(v.NodeRes[n]))
	}
	cont := map[string]*world.Container{}
	for _, c := range v.Containers {
		cont[c.ID] = c
	}
	var ws []string
	for _, w := range v.Workloads {
		c, ok := cont[w.ID]
		cs := "no-container"
		if ok {
			cs = fmt.Sprintf("running=%v params=%s", c.Running, vcore.JSON(c.Params))
			delete(cont, w.ID)
		}
		app, entry, _, _ := parseName(w.Name)
		ws = append(ws, fmt.Sprintf("W node=%s app=%s/%s res=%s %s", w.Node, app, entry, vcore.JSON(w.Res), cs))
	}
	sort.Strings(ws)
	sb.WriteString(strings.Join(ws, "\n"))
	var cs []string
	for _, c := range cont {
		cs = append(cs, fmt.Sprintf("C-orphan node=%s running=%v", c.Node, c.Running))
	}
	sort.Strings(cs)
	sb.WriteString("\n" + strings.Join(cs, "\n"))
	fmt.Fprintf(&sb, "\nprocessing=%d deploykeys=%d nodewkeys=%d pods=%v", len(v.Processing), len(v.DeployKeys), len(v.NodeWKeys), v.Pods)
	return sb.String()
}

// initialCluster builds pod p with nodes n1 (2 cores, memory 200) and n2 (4 cores, 2 NUMA
// nodes, memory 400) through the real API and returns the snapshot.
func initialCluster(t *testing.T, b *world.Backend) (*world.Snap, error) {
	var err error
	tr := wexec(t, b, world.InstanceOpts{}, nil, 1, func(ctx context.Context, inst *world.Instance) {
		if _, e := inst.Cal.AddPod(ctx, "p", ""); e != nil {
			err = e
			return
		}
		for _, n := range []world.NodeSpec{{Name: "n1", Pod: "p", CPU: 2, Memory: 200, Test: true}, {Name: "n2", Pod: "p", CPU: 4, Memory: 400, NUMA: true, Test: true}} {
			if _, e := inst.Cal.AddNode(ctx, n.Options()); e != nil {
				err = e
				return
			}
		}
	}, nil)
	if tr.Deadlock != "" {
		return nil, fmt.Errorf("initial cluster: %s", tr.Deadlock)
	}
	if err != nil {
		return nil, err
	}
	return b.Save(), nil
}
