package checks

import (
	"context"
	"encoding/json"
	"fmt"
	"os"
	"sort"
	"strings"
	"testing"

	"github.com/projecteru2/core/store"
	coretypes "github.com/projecteru2/core/types"

	"verif/harness/vcore"
	"verif/harness/world"
)

// C23: the etcd and the Redis metadata store behave identically.
//
// Two worlds are stepped in lock-step: the real store/etcdv3.Mercury over the in-memory etcd
// and the real store/redis.Rediaron over miniredis (one world.Backend carries both, so one
// Save/Restore moves both). Explicit-state BFS from the empty store:
//
//	state      = backend snapshot (both stores)
//	transition = one mutating Store call, the same on both stores
//	observation= the complete read alphabet (GetPod, GetAllPods, GetNode(s), GetNodesByPod
//	             variants, LoadNodeCert, GetNodeStatus, GetWorkload(s), GetWorkloadStatus,
//	             ListWorkloads variants, ListNodeWorkloads, GetDeployStatus) executed on both
//	             stores after every transition and compared entry by entry
//	dedup      = pair of canonical observations + raw key/value dumps of both stores
//
// Everything that happens after the first divergence of two worlds is a consequence of it, so
// a state whose observations differ (apart from the node availability entries, see below) is
// reported once, at the step that introduced the difference, and not expanded further.
func init() {
	register(Meta{ID: "C23", Level: "model_checking", BudgetQuick: 300, BudgetThor: 2400, GoMaxProcs: 2}, c23Run)
}

type c23Op struct {
	Kind  string `json:"kind"`
	Pod   string `json:"pod,omitempty"`
	Desc  string `json:"desc,omitempty"`
	Node  string `json:"node,omitempty"`
	Var   string `json:"variant,omitempty"`
	W     string `json:"workload,omitempty"`
	Proc  string `json:"processing,omitempty"`
	TTL   int64  `json:"ttl,omitempty"`
	Count int    `json:"count,omitempty"`
}

func (o c23Op) String() string {
	parts := []string{o.Kind}
	for _, s := range []string{o.Pod, o.Node, o.W, o.Var, o.Desc, o.Proc} {
		if s != "" {
			parts = append(parts, s)
		}
	}
	if o.Kind == "SetNodeStatus" || o.Kind == "SetWorkloadStatus" {
		parts = append(parts, fmt.Sprintf("ttl=%d", o.TTL))
	}
	if o.Count != 0 {
		parts = append(parts, fmt.Sprintf("count=%d", o.Count))
	}
	return strings.Join(parts, " ")
}

type c23Case struct {
	History []c23Op `json:"history"`
}

// c23Alphabet is the mutating half of the operation alphabet, simplest first.
func c23Alphabet() []c23Op {
	return []c23Op{
		{Kind: "AddPod", Pod: "p", Desc: "d1"},
		{Kind: "AddPod", Pod: "p", Desc: "d2"},
		{Kind: "AddPod", Pod: "q", Desc: "d1"},
		{Kind: "RemovePod", Pod: "p"},
		{Kind: "RemovePod", Pod: "q"},
		{Kind: "AddNode", Node: "n1", Pod: "p", Var: "plain"},
		{Kind: "AddNode", Node: "n1", Pod: "p", Var: "certs+labels"},
		{Kind: "AddNode", Node: "n1", Pod: "q", Var: "plain"},
		{Kind: "AddNode", Node: "n11", Pod: "p", Var: "test+labels"},
		{Kind: "AddNode", Node: "n11", Pod: "q", Var: "certs"},
		{Kind: "RemoveNode", Node: "n1", Pod: "p"},
		{Kind: "RemoveNode", Node: "n11", Pod: "p"},
		{Kind: "RemoveNode", Node: "n11", Pod: "q"},
		{Kind: "UpdateNodes", Node: "n1", Pod: "p", Var: "relabel+certs"},
		{Kind: "UpdateNodes", Node: "n11", Pod: "p", Var: "bypass"},
		{Kind: "SetNodeStatus", Node: "n1", TTL: 10},
		{Kind: "SetNodeStatus", Node: "n1", TTL: -1},
		{Kind: "SetNodeStatus", Node: "n11", TTL: 10},
		{Kind: "SetNodeStatus", Node: "n11", TTL: -1},
		{Kind: "AddWorkload", W: "w1"},
		{Kind: "AddWorkload", W: "w1", Proc: "P1"},
		{Kind: "AddWorkload", W: "w1", Var: "relabel", Proc: "P1"},
		{Kind: "AddWorkload", W: "w1", Var: "moved"},
		{Kind: "AddWorkload", W: "w2"},
		{Kind: "AddWorkload", W: "w2", Proc: "P2"},
		{Kind: "UpdateWorkload", W: "w1", Var: "relabel"},
		{Kind: "UpdateWorkload", W: "w1", Var: "moved"},
		{Kind: "UpdateWorkload", W: "w2", Var: "relabel"},
		{Kind: "RemoveWorkload", W: "w1"},
		{Kind: "RemoveWorkload", W: "w2"},
		{Kind: "SetWorkloadStatus", W: "w1", TTL: 0},
		{Kind: "SetWorkloadStatus", W: "w1", TTL: 10},
		{Kind: "SetWorkloadStatus", W: "w2", TTL: 0},
		{Kind: "SetWorkloadStatus", W: "w2", TTL: 10},
		{Kind: "CreateProcessing", Proc: "P1", Count: 2},
		{Kind: "CreateProcessing", Proc: "P1", Count: 3},
		{Kind: "CreateProcessing", Proc: "P2", Count: 1},
		{Kind: "CreateProcessing", Proc: "P3", Count: 3},
		{Kind: "DeleteProcessing", Proc: "P1"},
		{Kind: "DeleteProcessing", Proc: "P2"},
	}
}

func c23Processing(name string) *coretypes.Processing {
	switch name {
	case "P1":
		return &coretypes.Processing{Appname: "a", Entryname: "web", Nodename: "n1", Ident: "i"}
	case "P2":
		return &coretypes.Processing{Appname: "ab", Entryname: "web", Nodename: "n11", Ident: "i"}
	case "P3": // a second deployment of the same entrypoint on the same node (two markers to be summed)
		return &coretypes.Processing{Appname: "a", Entryname: "web", Nodename: "n1", Ident: "j"}
	}
	return nil
}

// The names are chosen so that one is a string prefix of the other (apps a/ab, nodes n1/n11): a key prefix
// that lost its terminating "/" in one store shows as a difference.
// c23Workload builds the workload record by hand: w1 = app a on n1, w2 = app ab on n11;
// "relabel" keeps the identity and changes the labels, "moved" puts the same ID on the other node.
func c23Workload(id, variant string) *coretypes.Workload {
	w := &coretypes.Workload{ID: id, Podname: "p", Image: "img"}
	switch id {
	case "w1":
		w.Name, w.Nodename, w.Labels = "a_web_wone", "n1", map[string]string{"k": "v"}
	default:
		w.Name, w.Nodename, w.Labels = "ab_web_wtwo", "n11", map[string]string{}
	}
	switch variant {
	case "relabel":
		w.Labels = map[string]string{"k": "x"}
	case "moved":
		w.Labels = map[string]string{"k": "x"}
		if w.Nodename == "n1" {
			w.Nodename = "n11"
		} else {
			w.Nodename = "n1"
		}
	}
	return w
}

func c23Apply(ctx context.Context, s store.Store, op c23Op) error {
	switch op.Kind {
	case "AddPod":
		_, err := s.AddPod(ctx, op.Pod, op.Desc)
		return err
	case "RemovePod":
		return s.RemovePod(ctx, op.Pod)
	case "AddNode":
		o := &coretypes.AddNodeOptions{Nodename: op.Node, Endpoint: world.FakevPrefix + op.Node, Podname: op.Pod}
		if strings.Contains(op.Var, "certs") {
			o.Ca, o.Cert, o.Key = "ca-"+op.Node, "cert-"+op.Node, "key-"+op.Node
		}
		if strings.Contains(op.Var, "labels") {
			o.Labels = map[string]string{"k": "v"}
		}
		if strings.Contains(op.Var, "test") {
			o.Test = true
		}
		_, err := s.AddNode(ctx, o)
		return err
	case "RemoveNode":
		return s.RemoveNode(ctx, &coretypes.Node{NodeMeta: coretypes.NodeMeta{Name: op.Node, Podname: op.Pod, Endpoint: world.FakevPrefix + op.Node}})
	case "UpdateNodes":
		n := &coretypes.Node{NodeMeta: coretypes.NodeMeta{Name: op.Node, Podname: op.Pod, Endpoint: world.FakevPrefix + op.Node}, Available: true}
		if strings.Contains(op.Var, "relabel") {
			n.Labels = map[string]string{"k": "w"}
		}
		if strings.Contains(op.Var, "certs") {
			n.Ca, n.Cert, n.Key = "ca2", "cert2", "key2"
		}
		if strings.Contains(op.Var, "bypass") {
			n.Bypass = true
		}
		return s.UpdateNodes(ctx, n)
	case "SetNodeStatus":
		return s.SetNodeStatus(ctx, &coretypes.Node{NodeMeta: coretypes.NodeMeta{Name: op.Node, Podname: "p"}}, op.TTL)
	case "AddWorkload":
		return s.AddWorkload(ctx, c23Workload(op.W, op.Var), c23Processing(op.Proc))
	case "UpdateWorkload":
		return s.UpdateWorkload(ctx, c23Workload(op.W, op.Var))
	case "RemoveWorkload":
		return s.RemoveWorkload(ctx, c23Workload(op.W, ""))
	case "SetWorkloadStatus":
		w := c23Workload(op.W, "")
		app, entry, _, _ := parseName(w.Name)
		return s.SetWorkloadStatus(ctx, &coretypes.StatusMeta{ID: w.ID, Running: true, Healthy: true, Appname: app, Entrypoint: entry, Nodename: w.Nodename}, op.TTL)
	case "CreateProcessing":
		return s.CreateProcessing(ctx, c23Processing(op.Proc), op.Count)
	case "DeleteProcessing":
		return s.DeleteProcessing(ctx, c23Processing(op.Proc))
	}
	return fmt.Errorf("c23: unknown op %q", op.Kind)
}

func c23IsCreate(op c23Op) bool {
	switch op.Kind {
	case "AddPod", "AddNode", "AddWorkload", "CreateProcessing":
		return true
	}
	return false
}

// ---------------------------------------------------------------- observation (the read alphabet)

func c23Labels(m map[string]string) string {
	if len(m) == 0 {
		return "{}"
	}
	b, _ := json.Marshal(m)
	return string(b)
}

func c23Node(n *coretypes.Node) string {
	return fmt.Sprintf("%s pod=%s ep=%s labels=%s bypass=%v test=%v", n.Name, n.Podname, n.Endpoint, c23Labels(n.Labels), n.Bypass, n.Test)
}

func c23NodeList(ns []*coretypes.Node, err error, namesOnly bool) string {
	if err != nil {
		return "ERR"
	}
	out := []string{}
	for _, n := range ns {
		if namesOnly {
			out = append(out, n.Name)
		} else {
			out = append(out, c23Node(n))
		}
	}
	sort.Strings(out)
	return "[" + strings.Join(out, "; ") + "]"
}

func c23Status(st *coretypes.StatusMeta) string {
	if st == nil {
		return "none"
	}
	b, _ := json.Marshal(st)
	return string(b)
}

func c23W(w *coretypes.Workload) string {
	return fmt.Sprintf("%s name=%s node=%s pod=%s labels=%s status=%s", w.ID, w.Name, w.Nodename, w.Podname, c23Labels(w.Labels), c23Status(w.StatusMeta))
}

func c23WList(ws []*coretypes.Workload, err error, sizeOnly bool) string {
	if err != nil {
		return "ERR"
	}
	if sizeOnly {
		return fmt.Sprintf("size=%d", len(ws))
	}
	out := []string{}
	for _, w := range ws {
		out = append(out, c23W(w))
	}
	sort.Strings(out)
	return "[" + strings.Join(out, "; ") + "]"
}

// c23AvailKey says whether an observation entry only reflects the node availability flag.
func c23AvailKey(k string) bool {
	return strings.HasSuffix(k, "/available") || strings.HasSuffix(k, "/up")
}

// c23Observe executes every read operation of the alphabet and renders each result canonically
// (error texts are never compared: a failed read is "ERR").
func c23Observe(ctx context.Context, s store.Store) map[string]string {
	o := map[string]string{}
	pods, err := s.GetAllPods(ctx)
	if err != nil {
		o["GetAllPods"] = "ERR"
	} else {
		l := []string{}
		for _, p := range pods {
			l = append(l, p.Name+":"+p.Desc)
		}
		sort.Strings(l)
		o["GetAllPods"] = strings.Join(l, ",")
	}
	for _, p := range []string{"p", "q"} {
		if pod, err := s.GetPod(ctx, p); err != nil {
			o["GetPod/"+p] = "ERR"
		} else {
			o["GetPod/"+p] = pod.Name + ":" + pod.Desc
		}
	}
	for _, p := range []string{"p", "q", ""} {
		name := p
		if name == "" {
			name = "*"
		}
		ns, err := s.GetNodesByPod(ctx, &coretypes.NodeFilter{Podname: p, All: true})
		o["GetNodesByPod/"+name+"/all"] = c23NodeList(ns, err, false)
		ns, err = s.GetNodesByPod(ctx, &coretypes.NodeFilter{Podname: p, All: true, Labels: map[string]string{"k": "v"}}, store.WithoutEngineOption())
		o["GetNodesByPod/"+name+"/labels-k=v"] = c23NodeList(ns, err, true)
		ns, err = s.GetNodesByPod(ctx, &coretypes.NodeFilter{Podname: p})
		o["GetNodesByPod/"+name+"/up"] = c23NodeList(ns, err, true)
	}
	for _, n := range []string{"n1", "n11"} {
		node, err := s.GetNode(ctx, n)
		if err != nil {
			o["GetNode/"+n] = "ERR"
			o["GetNode/"+n+"/available"] = "ERR"
		} else {
			o["GetNode/"+n] = c23Node(node)
			o["GetNode/"+n+"/available"] = fmt.Sprint(node.Available)
		}
		probe := &coretypes.Node{NodeMeta: coretypes.NodeMeta{Name: n}}
		if err := s.LoadNodeCert(ctx, probe); err != nil {
			o["LoadNodeCert/"+n] = "ERR"
		} else {
			o["LoadNodeCert/"+n] = probe.Ca + "|" + probe.Cert + "|" + probe.Key
		}
		if st, err := s.GetNodeStatus(ctx, n); err != nil {
			o["GetNodeStatus/"+n] = "ERR"
		} else {
			o["GetNodeStatus/"+n] = fmt.Sprintf("node=%s pod=%s alive=%v", st.Nodename, st.Podname, st.Alive)
		}
		ws, err := s.ListNodeWorkloads(ctx, n, nil)
		o["ListNodeWorkloads/"+n] = c23WList(ws, err, false)
		ws, err = s.ListNodeWorkloads(ctx, n, map[string]string{"k": "v"})
		o["ListNodeWorkloads/"+n+"/labels-k=v"] = c23WList(ws, err, false)
	}
	ns, err := s.GetNodes(ctx, []string{"n1", "n11"})
	o["GetNodes/n1,n11"] = c23NodeList(ns, err, false)
	for _, w := range []string{"w1", "w2"} {
		if wl, err := s.GetWorkload(ctx, w); err != nil {
			o["GetWorkload/"+w] = "ERR"
		} else {
			o["GetWorkload/"+w] = c23W(wl)
		}
		if st, err := s.GetWorkloadStatus(ctx, w); err != nil {
			o["GetWorkloadStatus/"+w] = "ERR"
		} else {
			o["GetWorkloadStatus/"+w] = c23Status(st)
		}
	}
	ws, err := s.GetWorkloads(ctx, []string{"w1", "w2"})
	o["GetWorkloads/w1,w2"] = c23WList(ws, err, false)
	type lq struct {
		app, entry, node string
		limit            int64
		labels           map[string]string
	}
	for _, q := range []lq{
		{"", "", "", 0, nil}, {"a", "", "", 0, nil}, {"ab", "", "", 0, nil}, {"a", "web", "", 0, nil}, {"a", "web", "n1", 0, nil}, {"a", "web", "n11", 0, nil},
		{"", "", "", 1, nil}, {"", "", "", 0, map[string]string{"k": "v"}},
	} {
		ws, err := s.ListWorkloads(ctx, q.app, q.entry, q.node, q.limit, q.labels)
		o[fmt.Sprintf("ListWorkloads/app=%s,entry=%s,node=%s,limit=%d,labels=%s", q.app, q.entry, q.node, q.limit, c23Labels(q.labels))] = c23WList(ws, err, q.limit > 0)
	}
	for _, app := range []string{"a", "ab"} {
		ds, err := s.GetDeployStatus(ctx, app, "web")
		if err != nil {
			o["GetDeployStatus/"+app] = "ERR"
			continue
		}
		l := []string{}
		for n, c := range ds {
			l = append(l, fmt.Sprintf("%s=%d", n, c))
		}
		sort.Strings(l)
		o["GetDeployStatus/"+app] = strings.Join(l, ",")
	}
	return o
}

func c23Render(o map[string]string) string {
	ks := vcore.SortedKeys(o)
	var sb strings.Builder
	for _, k := range ks {
		sb.WriteString(k)
		sb.WriteString(" => ")
		sb.WriteString(o[k])
		sb.WriteString("\n")
	}
	return sb.String()
}

// c23Diff lists the entries on which two observations differ, split into availability entries
// and everything else.
func c23Diff(a, b map[string]string) (avail, other []string) {
	for _, k := range vcore.SortedKeys(a) {
		if a[k] != b[k] {
			if c23AvailKey(k) {
				avail = append(avail, k)
			} else {
				other = append(other, k)
			}
		}
	}
	return
}

// c23Raw is the hook-free raw content of the two stores (key -> value, "+ttl" when the key
// expires). It keeps states apart that the read API cannot tell apart (e.g. a processing marker
// that has reached zero), it names the class of a pre-state, and it is how "a failed create
// leaves the store unchanged" is judged for keys no read call can reach at that moment.
func c23Raw(b *world.Backend) (etcd, redis map[string]string) {
	etcd, redis = map[string]string{}, map[string]string{}
	for _, e := range b.Etcd.Dump("") {
		etcd[e.Key] = e.Value
		if e.Lease != 0 {
			etcd[e.Key] += " +ttl"
		}
	}
	for _, k := range b.Redis.Keys() {
		v, _ := b.Redis.Get(k)
		redis[k] = v
		if b.Redis.TTL(k) > 0 {
			redis[k] += " +ttl"
		}
	}
	return
}

// c23Label names the operation together with the class of its pre-state (taken from the raw
// content of the etcd world; the two worlds agree whenever a step is judged).
func c23Label(op c23Op, raw map[string]string) string {
	has := func(k string) bool { _, ok := raw[k]; return ok }
	hasPod := func(p string) bool { return has("/pod/info/" + p) }
	marker := func(name string) bool {
		p := c23Processing(name)
		return has("/processing/" + p.Appname + "/" + p.Entryname + "/" + p.Nodename + "/" + p.Ident)
	}
	pick := func(c bool, a, b string) string {
		if c {
			return a
		}
		return b
	}
	// collide classifies a create by how many of the keys it writes are already there
	collide := func(keys []string) string {
		n := 0
		for _, k := range keys {
			if has(k) {
				n++
			}
		}
		switch n {
		case 0:
			return "new"
		case len(keys):
			return "existing"
		}
		return "partially-existing"
	}
	switch op.Kind {
	case "AddPod":
		return "AddPod-" + pick(hasPod(op.Pod), "existing", "new")
	case "RemovePod":
		if !hasPod(op.Pod) {
			return "RemovePod-missing"
		}
		for k := range raw {
			if strings.HasPrefix(k, "/node/"+op.Pod+":pod/") {
				return "RemovePod-with-nodes"
			}
		}
		return "RemovePod-empty"
	case "AddNode":
		if !hasPod(op.Pod) {
			return "AddNode-no-pod"
		}
		keys := []string{"/node/" + op.Node, "/node/" + op.Pod + ":pod/" + op.Node}
		if strings.Contains(op.Var, "certs") {
			keys = append(keys, "/node/"+op.Node+":ca", "/node/"+op.Node+":cert", "/node/"+op.Node+":key")
		}
		return "AddNode-" + collide(keys)
	case "RemoveNode", "UpdateNodes":
		return op.Kind + "-" + pick(has("/node/"+op.Node), "existing", "missing")
	case "SetNodeStatus":
		if op.TTL < 0 {
			return "SetNodeStatus-delete"
		}
		return "SetNodeStatus-" + pick(has("/node/"+op.Node), "existing-node", "missing-node")
	case "AddWorkload", "UpdateWorkload":
		wl := c23Workload(op.W, op.Var)
		l := op.Kind + pick(op.Proc != "", "+processing", "")
		if op.Proc != "" && !marker(op.Proc) {
			return l + "-missing-marker"
		}
		app, entry, _, _ := parseName(wl.Name)
		keys := []string{"/workloads/" + wl.ID, "/node/" + wl.Nodename + ":workloads/" + wl.ID, "/deploy/" + app + "/" + entry + "/" + wl.Nodename + "/" + wl.ID}
		cls := collide(keys)
		if op.Kind == "UpdateWorkload" && cls == "new" {
			cls = "missing"
		}
		if op.Proc != "" && cls == "partially-existing" && has(keys[0]) {
			cls = "existing" // with a marker the record is written unconditionally: one class
		}
		return l + "-" + cls
	case "RemoveWorkload":
		return "RemoveWorkload-" + pick(has("/workloads/"+op.W), "existing", "missing")
	case "SetWorkloadStatus":
		return fmt.Sprintf("SetWorkloadStatus-ttl%d-%s", op.TTL, pick(has("/workloads/"+op.W), "existing-workload", "missing-workload"))
	case "CreateProcessing":
		return "CreateProcessing-" + pick(marker(op.Proc), "existing", "new")
	case "DeleteProcessing":
		return "DeleteProcessing-" + pick(marker(op.Proc), "existing", "missing")
	}
	return op.Kind
}

func c23RawText(m map[string]string) string {
	var sb strings.Builder
	for _, k := range vcore.SortedKeys(m) {
		sb.WriteString(k + "=" + m[k] + "\n")
	}
	return sb.String()
}

// c23RawDiff lists the keys on which two raw contents differ.
func c23RawDiff(a, b map[string]string) []string {
	ks := map[string]struct{}{}
	for k, v := range a {
		if w, ok := b[k]; !ok || w != v {
			ks[k] = struct{}{}
		}
	}
	for k := range b {
		if _, ok := a[k]; !ok {
			ks[k] = struct{}{}
		}
	}
	return world.SortedStrings(ks)
}

// ---------------------------------------------------------------- search

type c23State struct {
	snap       *world.Snap
	hist       []c23Op
	obsE, obsR map[string]string
	rawE, rawR map[string]string
	key        string
	nonEmpty   bool
	diverged   bool
}

func (st *c23State) finish(b *world.Backend) {
	st.rawE, st.rawR = c23Raw(b)
	st.key = vcore.Hash(c23Render(st.obsE), c23Render(st.obsR), c23RawText(st.rawE), c23RawText(st.rawR))
	st.nonEmpty = len(st.rawE)+len(st.rawR) > 0
}

type c23World struct {
	t      *testing.T
	c      *vcore.Ctx
	b      *world.Backend
	alpha  []c23Op
	report bool // false: recompute silently (levels every shard has to rebuild)
}

// c23Transient recognises errors of the harness's own transport (never of the store logic).
func c23Transient(err error) bool {
	if err == nil {
		return false
	}
	t := err.Error()
	for _, p := range []string{"i/o timeout", "connection reset", "broken pipe", "connection refused", "use of closed network connection", "EOF", "context deadline exceeded"} {
		if strings.Contains(t, p) {
			return true
		}
	}
	return false
}

func c23Res(err error) string {
	if err != nil {
		return "fail"
	}
	return "ok"
}

// expand runs ops on both stores inside one bubble (fresh store clients, virtual clock: no
// lease can expire behind the search's back). BFS mode (chain=false): every op starts from
// st.snap. Replay mode (chain=true): the ops are applied one after the other.
func (w *c23World) expand(st *c23State, ops []c23Op, chain, keepSnap bool) (succ []*c23State, problem string) {
	problem = runBubble(w.t, func() {
		instE, err := w.b.NewInstance(world.InstanceOpts{NoWAL: true})
		if err != nil {
			panic(err)
		}
		defer instE.Close()
		instR, err := w.b.NewInstance(world.InstanceOpts{Redis: true, NoWAL: true})
		if err != nil {
			panic(err)
		}
		defer instR.Close()
		ctx := world.WithThread(context.Background(), "T0")
		w.b.Restore(st.snap)
		if st.obsE == nil {
			st.obsE, st.obsR = c23Observe(ctx, instE.Store), c23Observe(ctx, instR.Store)
			st.finish(w.b)
		}
		cur := st
		for _, op := range ops {
			var next *c23State
			var errE, errR error
			label := c23Label(op, cur.rawE)
			for try := 0; ; try++ {
				w.b.Restore(cur.snap)
				errE = c23Apply(ctx, instE.Store, op)
				errR = c23Apply(ctx, instR.Store, op)
				next = &c23State{hist: append(append([]c23Op{}, cur.hist...), op)}
				next.obsE, next.obsR = c23Observe(ctx, instE.Store), c23Observe(ctx, instR.Store)
				// The harness talks to miniredis over TCP with real read deadlines: on a loaded
				// machine a call can time out. Reads are pure, so anything the oracle could object
				// to is read a second time; a step whose two readings differ (or whose call failed
				// with an i/o error) is environment noise and is executed again.
				noisy := c23Transient(errE) || c23Transient(errR)
				if !noisy && (c23Render(next.obsE) != c23Render(next.obsR) || (errE == nil) != (errR == nil) || (c23IsCreate(op) && (errE != nil || errR != nil) && (c23Render(next.obsE) != c23Render(cur.obsE) || c23Render(next.obsR) != c23Render(cur.obsR)))) {
					noisy = c23Render(c23Observe(ctx, instE.Store)) != c23Render(next.obsE) || c23Render(c23Observe(ctx, instR.Store)) != c23Render(next.obsR)
				}
				if !noisy || try == 3 {
					if noisy {
						w.c.HarnessError("C23: step %v after %v keeps giving unstable readings", op, cur.hist)
					}
					break
				}
				w.c.Outcome("transient-io-error-step-repeated")
			}
			next.finish(w.b)
			w.judge(cur, next, op, label, errE, errR)
			if keepSnap || chain {
				next.snap = w.b.Save()
			}
			succ = append(succ, next)
			if chain {
				cur = next
			}
		}
	})
	return succ, problem
}

func (w *c23World) judge(pre, post *c23State, op c23Op, label string, errE, errR error) {
	c := w.c
	_, preOther := c23Diff(pre.obsE, pre.obsR)
	preAvail, _ := c23Diff(pre.obsE, pre.obsR)
	postAvail, postOther := c23Diff(post.obsE, post.obsR)
	// a different result of a mutating call is a divergence too: one store may have changed in a
	// way the read API does not show yet (e.g. a status for a workload that does not exist)
	// ... and so is a different raw content (the shared key layout makes the two comparable): the
	// difference is not observable yet, but whatever shows up later is its consequence
	hidden := c23RawDiff(post.rawE, post.rawR)
	post.diverged = len(postOther) > 0 || (errE == nil) != (errR == nil) || len(hidden) > 0
	if !w.report {
		return
	}
	c.Transition()
	c.Eval()
	if len(preOther) > 0 || len(c23RawDiff(pre.rawE, pre.rawR)) > 0 { // only reachable in a replay: consequences are not judged
		return
	}
	if len(hidden) > 0 && len(postOther) == 0 && (errE == nil) == (errR == nil) {
		c.Outcome("hidden-raw-divergence:" + label)
	}
	cc := &c23Case{History: post.hist}
	hist := func() string {
		l := []string{}
		for _, o := range post.hist {
			l = append(l, o.String())
		}
		return strings.Join(l, " ; ")
	}
	show := func(keys []string) string {
		l := []string{}
		for i, k := range keys {
			if i == 4 {
				l = append(l, fmt.Sprintf("... %d more", len(keys)-4))
				break
			}
			l = append(l, fmt.Sprintf("%s: etcd %q redis %q", k, post.obsE[k], post.obsR[k]))
		}
		return strings.Join(l, " | ")
	}
	c.Outcome(label + ":" + c23Res(errE) + "/" + c23Res(errR))
	// 3. a create that fails leaves the store unchanged
	failedCreateChanged := false
	if c23IsCreate(op) {
		if a, ch := c23Diff(pre.obsE, post.obsE); errE != nil && len(a)+len(ch)+len(c23RawDiff(pre.rawE, post.rawE)) > 0 {
			failedCreateChanged = true
			c.Violate("C23/"+label+"/etcd-failed-create-changed-store", fmt.Sprintf("history [%s]: etcd returned %v but its read-back changed on %v, its keys on %v", hist(), errE, append(ch, a...), c23RawDiff(pre.rawE, post.rawE)), cc)
		}
		if a, ch := c23Diff(pre.obsR, post.obsR); errR != nil && len(a)+len(ch)+len(c23RawDiff(pre.rawR, post.rawR)) > 0 {
			failedCreateChanged = true
			l := []string{}
			for _, k := range append(ch, a...) {
				l = append(l, fmt.Sprintf("%s: %q -> %q", k, pre.obsR[k], post.obsR[k]))
			}
			if len(l) == 0 {
				l = append(l, "(nothing a read call can reach in this state)")
			}
			c.Violate("C23/"+label+"/redis-partial-create", fmt.Sprintf("history [%s]: redis returned %v (etcd: %v) but created keys %v; read-back changes: %s", hist(), errR, errE, c23RawDiff(pre.rawR, post.rawR), strings.Join(l, " | ")), cc)
		}
	}
	// 1. same success or failure
	if (errE == nil) != (errR == nil) {
		sig := "C23/" + label + "/etcd-" + c23Res(errE) + "s-redis-" + c23Res(errR) + "s"
		sig = strings.NewReplacer("oks", "succeeds", "fails", "fails").Replace(sig)
		c.Violate(sig, fmt.Sprintf("history [%s]: etcd error=%v, redis error=%v; differing read-backs afterwards: %s", hist(), errE, errR, show(postOther)), cc)
	} else if len(postOther) > 0 && !failedCreateChanged {
		// 2. same observable metadata afterwards (a failed create that changed one store is
		// already reported above: the read-backs differ for that very reason)
		c.Violate("C23/"+label+"/metadata-differs", fmt.Sprintf("history [%s]: both %s, read-backs differ: %s", hist(), c23Res(errE), show(postOther)), cc)
	}
	newAvail := []string{}
	seen := map[string]bool{}
	for _, k := range preAvail {
		seen[k] = true
	}
	for _, k := range postAvail {
		if !seen[k] {
			newAvail = append(newAvail, k)
		}
	}
	if len(newAvail) > 0 && (errE == nil) == (errR == nil) && len(postOther) == 0 {
		c.Violate("C23/"+label+"/node-availability-differs", fmt.Sprintf("history [%s]: %s", hist(), show(newAvail)), cc)
	}
	if c.WantSample() && len(post.hist) >= 3 && errE == nil && errR == nil && !post.diverged {
		c.Sample(map[string]any{"history": post.hist, "last": label, "result": "ok/ok", "GetAllPods": post.obsE["GetAllPods"], "GetNodes*": post.obsE["GetNodesByPod/*/all"], "workloads": post.obsE["ListWorkloads/app=,entry=,node=,limit=0,labels={}"]})
	}
}

func c23Run(t *testing.T, c *vcore.Ctx) {
	dir := os.Getenv("VERIF_TMP")
	if dir == "" {
		dir = t.TempDir()
	}
	b := world.NewBackend(dir, true)
	defer b.Close()
	depth := 3
	if c.Thorough() {
		depth = 4
	}
	alpha := c23Alphabet()
	c.Bound("depth", depth)
	c.Bound("mutating_operations", len(alpha))
	c.Bound("universe", "pods {p,q}; nodes {n1,n11} (plain / certificates / labels k=v / test); workloads {w1 of app a on n1, w2 of app ab on n11, relabelled, moved to the other node}; processing idents {a/web/n1/i, a/web/n1/j, ab/web/n11/i}")
	c.SetRule("explicit-state BFS from the empty store over the real etcd store (in-memory etcd) and the real Redis store (miniredis) in lock-step: every transition applies one of the mutating Store calls (AddPod, RemovePod, AddNode x5 variants, RemoveNode, UpdateNodes, SetNodeStatus ttl in {-1,10}, AddWorkload with/without processing and relabelled/moved duplicates, UpdateWorkload, RemoveWorkload, SetWorkloadStatus ttl in {0,10}, CreateProcessing, DeleteProcessing) to both stores; after every transition the whole read alphabet (GetPod, GetAllPods, GetNode, GetNodes, GetNodesByPod by pod/labels/All, LoadNodeCert, GetNodeStatus, GetWorkload(s), GetWorkloadStatus, ListWorkloads by app/entry/node/limit/labels, ListNodeWorkloads, GetDeployStatus) runs on both and is compared entry by entry (limited lists by size, errors only as error/no error); states are de-duplicated on the pair of canonical read-backs plus the raw key dumps; a state whose read-backs differ is reported at the step that made them differ and not expanded; non-trivial = distinct reachable state with at least one entity")
	c.Assume("etcd is the in-memory model memetcd (bound to the embedded etcd by ./check memetcd-conformance); Redis is miniredis; no time passes during a history (expiry is C25's subject)")
	w := &c23World{t: t, c: c, b: b, alpha: alpha, report: true}
	root := &c23State{snap: b.Save()}

	if c.Replay != nil {
		var cc c23Case
		if err := jsonUnmarshal(c.Replay, &cc); err != nil {
			c.HarnessError("replay: %v", err)
			return
		}
		if _, problem := w.expand(root, cc.History, true, false); problem != "" {
			c.HarnessError("replay: %s", problem)
		}
		c.State()
		return
	}

	// Levels 1 and 2 are rebuilt by every shard (only shard 0 reports them); every state of the
	// level-2 frontier is then expanded by exactly one shard.
	const prunedOnly, queued = 1, 2
	seen := map[string]int{}
	frontier := []*c23State{root}
	for d := 1; d <= depth; d++ {
		var next []*c23State
		w.report = d >= 3 || c.Shard == 0
		for _, st := range frontier {
			if c.Expired() {
				c.CapHit(fmt.Sprintf("budget reached at depth %d", d))
				return
			}
			succ, problem := w.expand(st, alpha, false, d < depth)
			if problem != "" {
				c.HarnessError("expansion after %v: %s", st.hist, problem)
				return
			}
			if d == 1 {
				seen[root.key] = queued
				if w.report {
					c.State()
				}
			}
			for _, s := range succ {
				// a state first reached through a diverging step is not expanded, but the same
				// state reached later through an agreeing step still is
				was := seen[s.key]
				if was == queued || was == prunedOnly && s.diverged {
					continue
				}
				if s.diverged {
					seen[s.key] = prunedOnly
				} else {
					seen[s.key] = queued
				}
				if w.report && was == 0 {
					c.State()
					if s.nonEmpty {
						c.Nontrivial(s.key)
					}
				}
				if s.diverged || d == depth {
					continue
				}
				next = append(next, s)
			}
		}
		if d == 2 {
			var mine []*c23State
			for i, s := range next {
				if c.Mine(int64(i)) {
					mine = append(mine, s)
				}
			}
			next = mine
		}
		frontier = next
	}
}
