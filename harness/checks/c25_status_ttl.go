package checks

import (
	"context"
	"fmt"
	"os"
	"sort"
	"strings"
	"testing"
	"time"

	coretypes "github.com/projecteru2/core/types"

	"verif/harness/vcore"
	"verif/harness/world"
)

// C25: status reports are bound to live entities and expire.
//
// Explicit-state BFS, once per store backend (real Mercury over the in-memory etcd, real
// Rediaron over miniredis), against a reference model written from the property text:
//
//	visible(e) <=> reported and entity not removed since and (ttl == 0 or now < last report + ttl)
//	a positive-TTL report is accepted <=> the entity exists
//
// Time is explicit: every expansion runs in a synctest bubble (the clock of the in-memory etcd
// stands still unless the search advances it with Etcd.Advance; miniredis only moves with
// FastForward), so no verdict depends on the wall clock. The one tolerance of the statement
// (lease granularity) is honoured: a status must be visible while now < deadline and gone when
// now >= deadline + 1 s; at now == deadline nothing is demanded and the model follows the store.
func init() {
	register(Meta{ID: "C25", Level: "model_checking", BudgetQuick: 300, BudgetThor: 2400, GoMaxProcs: 2}, c25Run)
}

type c25Op struct {
	Kind string `json:"kind"` // addnode | rmnode | addwl | rmwl | nodestatus | wlstatus | advance
	TTL  int64  `json:"ttl,omitempty"`
	Val  string `json:"value,omitempty"`
	D    int64  `json:"seconds,omitempty"`
}

func (o c25Op) String() string {
	switch o.Kind {
	case "nodestatus":
		return fmt.Sprintf("SetNodeStatus(n, ttl=%d)", o.TTL)
	case "wlstatus":
		return fmt.Sprintf("SetWorkloadStatus(w, %s, ttl=%d)", o.Val, o.TTL)
	case "advance":
		return fmt.Sprintf("+%ds", o.D)
	case "addnode":
		return "AddNode(n)"
	case "rmnode":
		return "RemoveNode(n)"
	case "addwl":
		return "AddWorkload(w)"
	case "rmwl":
		return "RemoveWorkload(w)"
	}
	return o.Kind
}

type c25Case struct {
	Backend string  `json:"backend"`
	History []c25Op `json:"history"`
}

func c25Alphabet() []c25Op {
	ops := []c25Op{{Kind: "addnode"}, {Kind: "addwl"}}
	for _, ttl := range []int64{10, 20, -1} {
		ops = append(ops, c25Op{Kind: "nodestatus", TTL: ttl})
	}
	for _, ttl := range []int64{10, 0, 20} {
		for _, v := range []string{"v1", "v2"} {
			ops = append(ops, c25Op{Kind: "wlstatus", Val: v, TTL: ttl})
		}
	}
	for _, d := range []int64{4, 7, 11, 21} {
		ops = append(ops, c25Op{Kind: "advance", D: d})
	}
	return append(ops, c25Op{Kind: "rmnode"}, c25Op{Kind: "rmwl"})
}

// ---------------------------------------------------------------- reference model

// c25Ent is what the property lets us know about the status of one entity.
type c25Ent struct {
	Exists bool   `json:"exists"`
	Rep    bool   `json:"reported"`         // a report is in force: the status must be visible
	Val    string `json:"value,omitempty"`  // reported value (workload)
	TTL    int64  `json:"ttl,omitempty"`    // ttl of the report in force (0 = never expires)
	Rem    int64  `json:"remain,omitempty"` // deadline - now, seconds (ttl > 0)
	Last   string `json:"last,omitempty"`   // how the report in force came about: fresh | same-value | new-value | ttl-change
	OldRem int64  `json:"old_remain,omitempty"`
	Gone   string `json:"gone,omitempty"`  // why no report is in force: expired | removed | deleted | lost
	Loose  bool   `json:"loose,omitempty"` // visibility not determined by the statement until next observed
}

type c25Model struct {
	N c25Ent `json:"node"`
	W c25Ent `json:"workload"`
}

func (e *c25Ent) canon() {
	if e.OldRem < -1 {
		e.OldRem = -1
	}
	if e.OldRem > 100 {
		e.OldRem = 100
	}
	if e.Rem < -1 {
		e.Rem = -1
	}
	if !e.Rep && e.Gone != "removed" {
		e.Val, e.TTL, e.Rem, e.Last, e.OldRem = "", 0, 0, "", 0
	}
	if e.TTL == 0 {
		e.Rem = 0
	}
	if e.Last == "fresh" || e.Last == "" {
		e.OldRem = 0
	}
}

type c25Finding struct{ sig, detail string }

// report applies a status report with the store's answer err; it returns findings about the
// acceptance clause.
func (e *c25Ent) report(val string, ttl int64, err error) (out []c25Finding) {
	if ttl > 0 && !e.Exists {
		if err == nil {
			out = append(out, c25Finding{"status-accepted-for-missing-entity", fmt.Sprintf("a report with ttl %d for an entity that does not exist returned no error", ttl)})
			// follow the store so that the consequences are not reported again
		} else {
			return
		}
	} else if e.Exists {
		if err != nil {
			out = append(out, c25Finding{"status-refused-for-live-entity", fmt.Sprintf("a report with ttl %d for an existing entity failed: %v", ttl, err)})
			return
		}
	} else { // ttl == 0, entity missing: the statement does not say; follow the store
		if err != nil {
			return
		}
		*e = c25Ent{Exists: false, Loose: true}
		return
	}
	old, oldRem := *e, int64(-1)
	if old.Rep {
		oldRem = old.Rem
		if old.TTL == 0 {
			oldRem = 100
		}
	}
	e.Last = "fresh"
	if old.Rep {
		switch {
		case old.TTL != ttl:
			e.Last = "ttl-change"
		case old.Val == val:
			e.Last = "same-value"
		default:
			e.Last = "new-value"
		}
	}
	e.Rep, e.Val, e.TTL, e.Rem, e.OldRem, e.Gone, e.Loose = true, val, ttl, ttl, oldRem, "", false
	return
}

func (e *c25Ent) advance(d int64) {
	if e.TTL > 0 {
		e.Rem -= d
		e.OldRem -= d
		if e.Rep && e.Rem <= -1 {
			// certainly expired; keep how the report came about for the classification
			e.Rep, e.Gone = false, "expired:"+e.Last+fmt.Sprintf(":%v", e.OldRem > 0)
		}
	} else if e.Rep {
		e.OldRem -= d
	}
}

// observe compares what the store shows with what the model demands and then follows the store
// wherever the statement leaves a choice (or a finding has just been reported).
func (e *c25Ent) observe(observable, visible bool, val string, isWorkload bool) (out []c25Finding) {
	if !observable { // a workload status can only be read through its workload
		return
	}
	if e.Loose { // not determined by the statement until the next report or removal
		return
	}
	if e.Rep && e.TTL > 0 && e.Rem == 0 { // exactly at the deadline: nothing demanded
		if !visible {
			e.Rep, e.Gone = false, "expired:"+e.Last+":false"
		}
		return
	}
	if e.Rep {
		switch {
		case !visible:
			sig := "status-lost-before-expiry"
			switch {
			case e.TTL == 0:
				sig = "zero-ttl-status-expired"
			case e.Last == "same-value" && e.OldRem <= 0:
				sig = "same-value-report-does-not-extend"
			case e.Last == "new-value" && e.OldRem <= 0:
				sig = "new-value-report-does-not-extend"
			case e.Last == "ttl-change" && e.OldRem <= 0:
				sig = "ttl-change-not-honoured"
			}
			out = append(out, c25Finding{sig, fmt.Sprintf("the status is not visible although the report in force (%s, ttl %d) has %d s left", e.Last, e.TTL, e.Rem)})
			e.Rep, e.Gone = false, "lost"
		case isWorkload && val != e.Val:
			out = append(out, c25Finding{"stale-value", fmt.Sprintf("visible value %q, last accepted report %q", val, e.Val)})
			e.Val = val
		}
		return
	}
	if visible {
		sig := "status-visible-without-report"
		switch {
		case strings.HasPrefix(e.Gone, "expired:ttl-change:true"):
			sig = "ttl-change-not-honoured"
		case strings.HasPrefix(e.Gone, "expired"):
			sig = "status-visible-after-expiry"
		case e.Gone == "removed":
			sig = "status-visible-after-entity-removed"
		case e.Gone == "deleted":
			sig = "negative-ttl-does-not-delete"
		}
		out = append(out, c25Finding{sig, fmt.Sprintf("the status is visible although no report is in force (%s)", e.Gone)})
		if e.Gone == "removed" && (e.TTL == 0 || e.Rem > 0) {
			e.Rep, e.Gone = true, "" // the old report evidently survived: follow the store
		} else {
			*e = c25Ent{Exists: e.Exists, Loose: true}
		}
	}
	return
}

// ---------------------------------------------------------------- the real stores

const (
	c25Node, c25Host, c25Pod = "n", "m", "p"
)

func c25Workload() *coretypes.Workload {
	return &coretypes.Workload{ID: "w", Name: "a_web_w", Nodename: c25Host, Podname: c25Pod, Image: "img"}
}

type c25Obs struct {
	NodeExists, WlExists bool
	NodeVisible          bool
	WlVisible            bool
	WlVal                string
	noisy                bool // an error of the harness's own transport was seen
}

func c25Observe(ctx context.Context, inst *world.Instance) c25Obs {
	var o c25Obs
	s := inst.Store
	_, err := s.GetNode(ctx, c25Node)
	o.NodeExists, o.noisy = err == nil, o.noisy || c23Transient(err)
	st, err := s.GetNodeStatus(ctx, c25Node)
	o.NodeVisible, o.noisy = err == nil && st != nil, o.noisy || c23Transient(err)
	_, err = s.GetWorkload(ctx, "w")
	o.WlExists, o.noisy = err == nil, o.noisy || c23Transient(err)
	ws, err := s.GetWorkloadStatus(ctx, "w")
	o.noisy = o.noisy || c23Transient(err)
	if err == nil && ws != nil {
		o.WlVisible, o.WlVal = true, string(ws.Extension)
	}
	return o
}

// c25Apply executes one transition on the store; the returned error is the store's answer to a
// status report (nil for other transitions).
func c25Apply(ctx context.Context, b *world.Backend, inst *world.Instance, op c25Op) (answer error, noisy bool) {
	s := inst.Store
	var err error
	switch op.Kind {
	case "addnode":
		_, err = s.AddNode(ctx, &coretypes.AddNodeOptions{Nodename: c25Node, Endpoint: world.FakevPrefix + c25Node, Podname: c25Pod})
	case "rmnode":
		err = s.RemoveNode(ctx, &coretypes.Node{NodeMeta: coretypes.NodeMeta{Name: c25Node, Podname: c25Pod, Endpoint: world.FakevPrefix + c25Node}})
	case "addwl":
		err = s.AddWorkload(ctx, c25Workload(), nil)
	case "rmwl":
		err = s.RemoveWorkload(ctx, c25Workload())
	case "nodestatus":
		err = s.SetNodeStatus(ctx, &coretypes.Node{NodeMeta: coretypes.NodeMeta{Name: c25Node, Podname: c25Pod}}, op.TTL)
		answer = err
	case "wlstatus":
		err = s.SetWorkloadStatus(ctx, &coretypes.StatusMeta{ID: "w", Running: true, Extension: []byte(op.Val), Appname: "a", Entrypoint: "web", Nodename: c25Host}, op.TTL)
		answer = err
	case "advance":
		d := time.Duration(op.D) * time.Second
		if b.Redis != nil {
			b.Redis.FastForward(d)
		}
		b.Etcd.Advance(d)
	}
	return answer, c23Transient(err)
}

// c25Raw renders the store content with remaining lifetimes in whole seconds.
func c25Raw(b *world.Backend, redis bool) string {
	var l []string
	if redis {
		for _, k := range b.Redis.Keys() {
			v, _ := b.Redis.Get(k)
			l = append(l, fmt.Sprintf("%s=%s ttl=%d", k, v, int64((b.Redis.TTL(k)+time.Second/2)/time.Second)))
		}
		sort.Strings(l)
	} else {
		for _, e := range b.Etcd.Dump("") {
			l = append(l, fmt.Sprintf("%s=%s ttl=%d remain=%d", e.Key, e.Value, e.LeaseTTL, int64((e.Remain+time.Second/2)/time.Second)))
		}
	}
	return strings.Join(l, "\n")
}

// ---------------------------------------------------------------- search

type c25State struct {
	snap  *world.Snap
	model c25Model
	hist  []c25Op
	key   string
}

type c25World struct {
	t      *testing.T
	c      *vcore.Ctx
	b      *world.Backend
	be     string
	report bool
}

func (w *c25World) opts() world.InstanceOpts {
	return world.InstanceOpts{Redis: w.be == "redis", NoWAL: true}
}

// initial builds pod p with the permanent (test) node m that hosts the workload.
func (w *c25World) initial() (*c25State, string) {
	var st *c25State
	problem := runBubble(w.t, func() {
		inst, err := w.b.NewInstance(w.opts())
		if err != nil {
			panic(err)
		}
		defer inst.Close()
		ctx := world.WithThread(context.Background(), "T0")
		if _, err := inst.Store.AddPod(ctx, c25Pod, ""); err != nil {
			panic(err)
		}
		if _, err := inst.Store.AddNode(ctx, &coretypes.AddNodeOptions{Nodename: c25Host, Endpoint: world.FakevPrefix + c25Host, Podname: c25Pod, Test: true}); err != nil {
			panic(err)
		}
		st = &c25State{snap: w.b.Save()}
		st.key = vcore.Hash(w.be, c25Raw(w.b, w.be == "redis"), vcore.JSON(st.model))
	})
	return st, problem
}

func (w *c25World) expand(st *c25State, ops []c25Op, chain, keepSnap bool) (succ []*c25State, problem string) {
	problem = runBubble(w.t, func() {
		inst, err := w.b.NewInstance(w.opts())
		if err != nil {
			panic(err)
		}
		defer inst.Close()
		ctx := world.WithThread(context.Background(), "T0")
		w.b.Restore(st.snap)
		cur := st
		for _, op := range ops {
			var next *c25State
			for try := 0; ; try++ {
				w.b.Restore(cur.snap)
				next = &c25State{model: cur.model, hist: append(append([]c25Op{}, cur.hist...), op)}
				err, noisy := c25Apply(ctx, w.b, inst, op)
				obs := c25Observe(ctx, inst)
				// miniredis is reached over TCP with real read deadlines; an i/o error under load is
				// noise of the harness: the step is executed again (reads are pure, so a reading the
				// oracle objects to is also taken twice)
				noisy = noisy || obs.noisy
				finds := w.step(cur, next, op, err, obs, true)
				if !noisy && finds > 0 {
					again := c25Observe(ctx, inst)
					noisy = again != obs
				}
				if !noisy || try == 3 {
					if noisy {
						w.c.HarnessError("C25 %s: step %v after %v keeps giving unstable readings", w.be, op, cur.hist)
					}
					next.model = cur.model
					w.step(cur, next, op, err, obs, false)
					break
				}
				w.c.Outcome("transient-io-error-step-repeated")
			}
			next.key = vcore.Hash(w.be, c25Raw(w.b, w.be == "redis"), vcore.JSON(next.model))
			if keepSnap || chain {
				next.snap = w.b.Save()
			}
			succ = append(succ, next)
			if chain {
				cur = next
			}
		}
	})
	return succ, problem
}

// step moves the model and judges the observation.
func (w *c25World) step(pre, post *c25State, op c25Op, err error, obs c25Obs, dry bool) int {
	m := &post.model
	var finds []c25Finding
	switch op.Kind {
	case "addnode":
		m.N.Exists = true
	case "addwl":
		m.W.Exists = true
	case "rmnode":
		if m.N.Exists { // removing a node that does not exist is a no-op in the reference
			m.N.Exists, m.N.Rep, m.N.Gone, m.N.Loose = false, false, "removed", false
		} else if m.N.Rep {
			m.N = c25Ent{Loose: true} // a report the store wrongly accepted for a missing node: not judged further
		}
	case "rmwl":
		if m.W.Exists {
			m.W.Exists, m.W.Rep, m.W.Gone, m.W.Loose = false, false, "removed", false
		} else if m.W.Rep {
			m.W = c25Ent{Loose: true} // a report the store wrongly accepted for a missing workload
		}
	case "nodestatus":
		if op.TTL < 0 {
			if m.N.Exists && err != nil {
				finds = append(finds, c25Finding{"status-delete-refused", fmt.Sprintf("negative ttl for an existing node failed: %v", err)})
			}
			m.N = c25Ent{Exists: m.N.Exists, Gone: "deleted"}
		} else {
			finds = append(finds, m.N.report("", op.TTL, err)...)
		}
	case "wlstatus":
		finds = append(finds, m.W.report(op.Val, op.TTL, err)...)
	case "advance":
		m.N.advance(op.D)
		m.W.advance(op.D)
	}
	unjudged := (m.N.Rep && m.N.TTL > 0 && m.N.Rem == 0) || (m.W.Rep && m.W.TTL > 0 && m.W.Rem == 0 && obs.WlExists)
	finds = append(finds, m.N.observe(true, obs.NodeVisible, "", false)...)
	finds = append(finds, m.W.observe(obs.WlExists, obs.WlVisible, obs.WlVal, true)...)
	m.N.canon()
	m.W.canon()
	if !w.report || dry {
		return len(finds)
	}
	c := w.c
	c.Transition()
	c.Eval()
	if obs.NodeExists != m.N.Exists || obs.WlExists != m.W.Exists {
		c.HarnessError("C25 %s: entity existence differs from the reference after %v: store node=%v workload=%v, model node=%v workload=%v", w.be, post.hist, obs.NodeExists, obs.WlExists, m.N.Exists, m.W.Exists)
	}
	hist := []string{}
	for _, o := range post.hist {
		hist = append(hist, o.String())
	}
	for _, f := range finds {
		c.Violate("C25/"+w.be+"/"+f.sig, fmt.Sprintf("%s store, history [%s]: %s | observed node-status-visible=%v workload-status-visible=%v value=%q | model before step %s", w.be, strings.Join(hist, " ; "), f.detail, obs.NodeVisible, obs.WlVisible, obs.WlVal, vcore.JSON(pre.model)), &c25Case{Backend: w.be, History: post.hist})
	}
	out := op.Kind
	if op.Kind == "nodestatus" || op.Kind == "wlstatus" {
		out += fmt.Sprintf(":ttl%d:accepted=%v", op.TTL, err == nil)
	}
	if unjudged {
		out += ":at-deadline-unjudged"
	}
	c.Outcome(w.be + ":" + out + fmt.Sprintf(":node-visible=%v,workload-visible=%v", obs.NodeVisible, obs.WlVisible))
	if c.WantSample() && len(post.hist) >= 4 && op.Kind == "advance" && (pre.model.N.Rep || pre.model.W.Rep) && len(finds) == 0 {
		c.Sample(map[string]any{"backend": w.be, "history": hist, "observed": obs, "model": post.model})
	}
	return len(finds)
}

func c25Run(t *testing.T, c *vcore.Ctx) {
	dir := os.Getenv("VERIF_TMP")
	if dir == "" {
		dir = t.TempDir()
	}
	depth := 4
	if c.Thorough() {
		depth = 5
	}
	alpha := c25Alphabet()
	c.Bound("depth", depth)
	c.Bound("start_states", "pod with host node only; the same after AddNode(n), AddWorkload(w)")
	c.Bound("transitions_per_state", len(alpha))
	c.Bound("ttl_seconds", "node {-1,10,20}; workload {0,10,20}")
	c.Bound("time_steps_seconds", []int{4, 7, 11, 21})
	c.SetRule("explicit-state BFS per store backend (etcd store on the in-memory etcd, Redis store on miniredis) from two start states (a pod with one permanent host node; the same with node n and workload w added): transitions = add/remove node n, add/remove workload w, SetNodeStatus(n, ttl in {10,20,-1}), SetWorkloadStatus(w, value in {v1,v2}, ttl in {10,0,20}), advance the store clock by 4/7/11/21 s; after every transition GetNodeStatus and GetWorkloadStatus are compared with a reference model (visible <=> reported, entity not removed since, and ttl==0 or now < last report + ttl; positive-ttl report accepted <=> entity exists); the instant now == deadline is not judged (lease granularity), now >= deadline + 1 s must show no status; states are de-duplicated on (store content with remaining lifetimes in seconds, model state); non-trivial = distinct state in which a report is in force")
	c.Assume("etcd is the in-memory model memetcd (leases expire by its explicit clock; bound to the embedded etcd by ./check memetcd-conformance); Redis is miniredis (keys expire by FastForward)")
	c.Assume("a zero-TTL workload report for a workload that does not exist is outside the statement: either answer is accepted and the model follows the store")

	for _, be := range []string{"etcd", "redis"} {
		b := world.NewBackend(dir, be == "redis")
		w := &c25World{t: t, c: c, b: b, be: be, report: true}
		root, problem := w.initial()
		if problem != "" {
			c.HarnessError("initial state on %s: %s", be, problem)
			b.Close()
			return
		}
		if c.Replay != nil {
			var cc c25Case
			if err := jsonUnmarshal(c.Replay, &cc); err != nil {
				c.HarnessError("replay: %v", err)
				b.Close()
				return
			}
			if cc.Backend == be {
				if _, problem := w.expand(root, cc.History, true, false); problem != "" {
					c.HarnessError("replay: %s", problem)
				}
				c.State()
			}
			b.Close()
			continue
		}
		// Levels 1 and 2 are rebuilt by every shard (only shard 0 reports them); every state of
		// the level-2 frontier is then expanded by exactly one shard.
		// second start state: node n and workload w already exist (reached by the fixed prefix
		// AddNode(n); AddWorkload(w), so that a replay is one history from the first start state);
		// it lets "report, wait, report again, wait" fit into the quick depth
		w.report = false
		pre, problem := w.expand(root, []c25Op{{Kind: "addnode"}, {Kind: "addwl"}}, true, true)
		if problem != "" || len(pre) != 2 {
			c.HarnessError("second start state on %s: %s", be, problem)
			b.Close()
			return
		}
		seen := map[string]bool{root.key: true, pre[1].key: true}
		if c.Shard == 0 {
			c.AddStates(2)
		}
		frontier := []*c25State{root, pre[1]}
		for d := 1; d <= depth; d++ {
			var next []*c25State
			w.report = d >= 3 || c.Shard == 0
			for _, st := range frontier {
				if c.Expired() {
					c.CapHit(fmt.Sprintf("budget reached on %s at depth %d", be, d))
					b.Close()
					return
				}
				succ, problem := w.expand(st, alpha, false, d < depth)
				if problem != "" {
					c.HarnessError("expansion on %s after %v: %s", be, st.hist, problem)
					b.Close()
					return
				}
				for _, s := range succ {
					if seen[s.key] {
						continue
					}
					seen[s.key] = true
					if w.report {
						c.State()
						if s.model.N.Rep || s.model.W.Rep {
							c.Nontrivial(s.key)
						}
					}
					if d < depth {
						next = append(next, s)
					}
				}
			}
			if d == 2 {
				var mine []*c25State
				for i, s := range next {
					if c.Mine(int64(i)) {
						mine = append(mine, s)
					}
				}
				next = mine
			}
			frontier = next
		}
		b.Close()
	}
}
