package checks

import (
	"bytes"
	"context"
	"fmt"
	"os"
	"path/filepath"
	"runtime"
	"sort"
	"strings"
	"sync"
	"testing"

	"github.com/projecteru2/core/rpc"
	pb "github.com/projecteru2/core/rpc/gen"
	coretypes "github.com/projecteru2/core/types"
	"google.golang.org/grpc"

	"verif/harness/vcore"
	"verif/harness/world"
)

// C29: file transfers deliver identical content and always finish.
//
// Path "rpc":    real rpc.Vibranium.Send (hand-written pb.CoreRPC_SendServer) -> real
//                toSendLargeFileChunks -> real Calcium.SendLargeFile -> fakev engine.
// Path "direct": real Calcium.Send (the small-file API) -> fakev engine.
//
// Every case is one execution in a synctest bubble on a restored snapshot (one pod, one node,
// two workloads created through the API). A call that does not return is the bubble's exact
// report (every goroutine durably blocked until the 6 virtual hour horizon), never a timeout.

func init() {
	register(Meta{ID: "C29", Level: "fault_enumeration", BudgetQuick: 150, BudgetThor: 1500, GoMaxProcs: 2},
		func(t *testing.T, c *vcore.Ctx) { c29Explore(t, c) })
}

const c29Chunk = coretypes.SendLargeFileChunkSize // 2048: the boundary sizes of the alphabet are aligned to it

type c29Case struct {
	Path    string            `json:"path"`             // rpc | direct
	Sizes   []int             `json:"file_sizes"`       // one entry per file (/d/f0, /d/f1)
	Targets []string          `json:"targets"`          // w1 | w2 | missing (repetition = duplicated id)
	Engine  map[string]string `json:"engine,omitempty"` // w1/w2 -> reject | partial (absent = accept)
	Perm    string            `json:"perm"`             // default (uid 0, gid 0, mode 0) | 1000:2000:0640
}

type c29Msg struct {
	ID   string `json:"id"`
	Path string `json:"path,omitempty"`
	Err  string `json:"err,omitempty"`
}

type c29Stream struct {
	grpc.ServerStream
	ctx  context.Context
	mu   *sync.Mutex
	msgs *[]c29Msg
}

func (s *c29Stream) Context() context.Context { return s.ctx }
func (s *c29Stream) Send(m *pb.SendMessage) error {
	s.mu.Lock()
	*s.msgs = append(*s.msgs, c29Msg{ID: m.Id, Path: m.Path, Err: m.Error})
	s.mu.Unlock()
	return nil
}

// c29Content is deterministic and position dependent (a lost, repeated or swapped chunk and a
// byte lost at a chunk boundary all change it).
func c29Content(file, size int) []byte {
	out := make([]byte, size)
	for i := range out {
		out[i] = byte((i*7 + i/c29Chunk*31 + file*13 + 1) % 251)
	}
	return out
}

func c29Perm(p string) (uid, gid int, mode int64) {
	if p == "default" {
		return 0, 0, 0
	}
	return 1000, 2000, 0o640 // three different values: a swapped argument shows
}

var c29Missing = strings.Repeat("f", 64)

func c29Setup(t *testing.T, b *world.Backend) (*world.Snap, []string, error) {
	var err error
	tr := wexec(t, b, world.InstanceOpts{NoWAL: true}, nil, 1, func(ctx context.Context, inst *world.Instance) {
		if _, e := inst.Cal.AddPod(ctx, "p", ""); e != nil {
			err = e
			return
		}
		if _, e := inst.Cal.AddNode(ctx, world.NodeSpec{Name: "n1", Pod: "p", CPU: 2, Memory: 200, Test: true}.Options()); e != nil {
			err = e
			return
		}
		msgs, e := inst.Create(ctx, world.DeploySpec{Pod: "p", Count: 2, Strategy: "AUTO", Memory: 10})
		if e != nil {
			err = e
			return
		}
		for _, m := range msgs {
			if m.Error != nil {
				err = m.Error
			}
		}
	}, nil)
	if tr.Deadlock != "" {
		return nil, nil, fmt.Errorf("setup: %s", tr.Deadlock)
	}
	if err != nil {
		return nil, nil, err
	}
	v := b.View(false)
	var ids []string
	for id := range v.Workloads {
		ids = append(ids, id)
	}
	sort.Strings(ids)
	if len(ids) != 2 {
		return nil, nil, fmt.Errorf("setup: %d workloads", len(ids))
	}
	return b.Save(), ids, nil
}

func c29Cases(thorough bool) []c29Case {
	sizes := []int{0, 1, c29Chunk - 1, c29Chunk, c29Chunk + 1, 2 * c29Chunk, 2*c29Chunk + 1, 11 * c29Chunk, 12*c29Chunk + 1}
	second := []int{1, c29Chunk + 1}
	if thorough {
		second = sizes
	}
	type tset struct {
		ids []string
		eng []map[string]string
	}
	beh := []string{"", "reject", "partial"}
	one := func(w string) []map[string]string {
		var out []map[string]string
		for _, x := range beh {
			m := map[string]string{}
			if x != "" {
				m[w] = x
			}
			out = append(out, m)
		}
		return out
	}
	var two []map[string]string
	for _, x := range beh {
		for _, y := range beh {
			m := map[string]string{}
			if x != "" {
				m["w1"] = x
			}
			if y != "" {
				m["w2"] = y
			}
			two = append(two, m)
		}
	}
	tsets := []tset{
		{[]string{"w1"}, one("w1")},
		{[]string{"w1", "w2"}, two},
		{[]string{"w1", "missing"}, one("w1")},
		{[]string{"missing"}, []map[string]string{{}}},
		{[]string{"w1", "w1"}, one("w1")},
	}
	var out []c29Case
	for _, path := range []string{"rpc", "direct"} {
		for _, nf := range []int{1, 2} {
			for _, s0 := range sizes {
				s1s := []int{-1}
				if nf == 2 {
					s1s = second
				}
				for _, s1 := range s1s {
					for _, ts := range tsets {
						for _, eng := range ts.eng {
							// owner and mode are only observable where a file gets written: the second variant is
							// enumerated for the cases with at least one accepting existing target
							accepting := false
							for _, tn := range ts.ids {
								if tn != "missing" && eng[tn] == "" {
									accepting = true
								}
							}
							for _, perm := range []string{"default", "1000:2000:0640"} {
								if perm != "default" && !accepting {
									continue
								}
								cc := c29Case{Path: path, Sizes: []int{s0}, Targets: ts.ids, Engine: eng, Perm: perm}
								if nf == 2 {
									cc.Sizes = []int{s0, s1}
								}
								if len(eng) == 0 {
									cc.Engine = nil
								}
								out = append(out, cc)
							}
						}
					}
				}
			}
		}
	}
	return out
}

func c29Explore(t *testing.T, c *vcore.Ctx) {
	dir := os.Getenv("VERIF_TMP")
	if dir == "" {
		dir = t.TempDir()
	}
	b := world.NewBackend(dir, false)
	defer b.Close()
	snap, ids, err := c29Setup(t, b)
	if err != nil {
		c.HarnessError("setup: %v", err)
		return
	}
	c.SetRule(fmt.Sprintf("paths {rpc.Vibranium.Send -> toSendLargeFileChunks -> Calcium.SendLargeFile, Calcium.Send} x file sizes {0,1,%d,%d,%d,%d,%d,%d,%d} (chunk size %d) x 1 or 2 files x targets {[w1],[w1,w2],[w1,missing],[missing],[w1,w1]} x engine behaviour per existing target {accept, reject without reading, fail after reading one chunk} x owner/mode {all zero, 1000:2000:0640 (only where some existing target accepts)}; one execution per case in a bubble; "+
		"non-trivial = distinct case in which a non-empty file was compared byte for byte on an accepting target or a failure path (missing / rejecting / aborting / duplicated target) was exercised",
		c29Chunk-1, c29Chunk, c29Chunk+1, 2*c29Chunk, 2*c29Chunk+1, 11*c29Chunk, 12*c29Chunk+1, c29Chunk))
	c.Assume("engines are the stateful fakev engines: 'reject' returns an error without reading the content, 'partial' reads one chunk and returns an error without draining (both are what the docker engine does when CopyToContainer fails early)")
	c.Assume("for an all-zero owner/mode request either mode 0 (as requested) or 0755 (the documented default of SendOptions.Validate) is accepted")
	c.Bound("chunk_size", c29Chunk)
	c.Bound("max_files", 2)
	c.Bound("max_targets", 2)
	c.Bound("horizon_virtual_hours", 6)
	if c.Replay != nil {
		var cc c29Case
		if err := jsonUnmarshal(c.Replay, &cc); err != nil {
			c.HarnessError("replay: %v", err)
			return
		}
		c29One(t, c, b, snap, ids, &cc)
		return
	}
	cases := c29Cases(c.Thorough())
	c.Bound("cases", len(cases))
	for i := range cases {
		if !c.Mine(int64(i)) {
			continue
		}
		if c.Expired() {
			c.CapHit("budget reached")
			return
		}
		c29One(t, c, b, snap, ids, &cases[i])
	}
}

// c29Run executes one case and returns what the caller of the API saw.
func c29Run(t *testing.T, b *world.Backend, snap *world.Snap, ids []string, cc *c29Case) (got []c29Msg, ret bool, callErr string, tr execTrace) {
	b.Restore(snap)
	resolve := func(name string) string {
		switch name {
		case "w1":
			return ids[0]
		case "w2":
			return ids[1]
		}
		return c29Missing
	}
	b.Eng.Script.CopyMode = map[string]string{}
	for k, v := range cc.Engine {
		b.Eng.Script.CopyMode[resolve(k)] = v
	}
	uid, gid, mode := c29Perm(cc.Perm)
	var targets []string
	for _, tn := range cc.Targets {
		targets = append(targets, resolve(tn))
	}
	paths := make([]string, len(cc.Sizes))
	content := map[string][]byte{}
	for i, sz := range cc.Sizes {
		paths[i] = fmt.Sprintf("/d/f%d", i)
		content[paths[i]] = c29Content(i, sz)
	}
	var mu sync.Mutex
	var msgs []c29Msg
	returned := false
	tr = wexec(t, b, world.InstanceOpts{NoWAL: true}, nil, 11, func(ctx context.Context, inst *world.Instance) {
		switch cc.Path {
		case "rpc":
			opts := &pb.SendOptions{IDs: targets, Data: map[string][]byte{}, Modes: map[string]*pb.FileMode{}, Owners: map[string]*pb.FileOwner{}}
			for _, p := range paths {
				opts.Data[p] = append([]byte{}, content[p]...)
				if cc.Perm != "default" {
					opts.Modes[p] = &pb.FileMode{Mode: mode}
					opts.Owners[p] = &pb.FileOwner{Uid: int32(uid), Gid: int32(gid)}
				}
			}
			v := rpc.New(inst.Cal, inst.Cfg, make(chan struct{}))
			err := v.Send(opts, &c29Stream{ctx: ctx, mu: &mu, msgs: &msgs})
			mu.Lock()
			callErr = errStr(err)
			returned = true
			mu.Unlock()
		default:
			opts := &coretypes.SendOptions{IDs: targets}
			for _, p := range paths {
				opts.Files = append(opts.Files, coretypes.LinuxFile{Filename: p, Content: append([]byte{}, content[p]...), UID: uid, GID: gid, Mode: mode})
			}
			ch, err := inst.Cal.Send(ctx, opts)
			if err == nil {
				for m := range ch {
					mu.Lock()
					msgs = append(msgs, c29Msg{ID: m.ID, Path: m.Path, Err: errStr(m.Error)})
					mu.Unlock()
				}
			}
			mu.Lock()
			callErr = errStr(err)
			returned = true
			mu.Unlock()
		}
	}, nil)
	mu.Lock()
	defer mu.Unlock()
	return append([]c29Msg{}, msgs...), returned, callErr, tr
}

// c29Lacking counts, for one target, the files that have no result (a result without a path
// counts for any one file).
func c29Lacking(got []c29Msg, id string, paths []string) (lacking []string, pathless int, withPath map[string][]c29Msg) {
	withPath = map[string][]c29Msg{}
	for _, m := range got {
		if m.ID != id {
			continue
		}
		if m.Path == "" {
			pathless++
		} else {
			withPath[m.Path] = append(withPath[m.Path], m)
		}
	}
	for _, p := range paths {
		if len(withPath[p]) == 0 {
			lacking = append(lacking, p)
		}
	}
	return lacking, pathless, withPath
}

func c29One(t *testing.T, c *vcore.Ctx, b *world.Backend, snap *world.Snap, ids []string, cc *c29Case) {
	// the transfer runs in goroutines of the repository's own: a panic there ends the process, the call never finishes
	c.Journal("C29/process-crashed-during-transfer", cc)
	defer c.JournalDone()
	resolve := func(name string) string {
		switch name {
		case "w1":
			return ids[0]
		case "w2":
			return ids[1]
		}
		return c29Missing
	}
	name := map[string]string{ids[0]: "w1", ids[1]: "w2", c29Missing: "missing"}
	uid, gid, mode := c29Perm(cc.Perm)
	var targets []string
	for _, tn := range cc.Targets {
		targets = append(targets, resolve(tn))
	}
	paths := make([]string, len(cc.Sizes))
	content := map[string][]byte{}
	for i, sz := range cc.Sizes {
		paths[i] = fmt.Sprintf("/d/f%d", i)
		content[paths[i]] = c29Content(i, sz)
	}
	engineOf := map[string]string{}
	for k, v := range cc.Engine {
		engineOf[resolve(k)] = v
	}
	goBase := c29GoID()
	got, ret, callErr, tr := c29Run(t, b, snap, ids, cc)
	c.Eval()
	c.Exec()
	ctOf := map[string]*world.Container{} // engine state right after the call (a sibling run below restores the backend)
	for _, id := range ids {
		if ct, ok := b.Eng.Get(id); ok {
			ctOf[id] = ct
		}
	}

	// condition of each distinct target, and of the case as a whole (for call-level failures)
	mult := map[string]int{}
	var distinct []string
	for _, id := range targets {
		if mult[id] == 0 {
			distinct = append(distinct, id)
		}
		mult[id]++
	}
	cond := func(id string) string {
		switch {
		case id == c29Missing:
			return "missing-target"
		case engineOf[id] == "reject":
			return "rejecting-target"
		case engineOf[id] == "partial":
			return "aborting-target"
		case mult[id] > 1:
			return "duplicated-target"
		}
		return "accepting-target"
	}
	caseCond := "accepting-targets"
	for _, want := range []string{"missing-target", "rejecting-target", "aborting-target", "duplicated-target"} {
		found := false
		for _, id := range distinct {
			if cond(id) == want {
				found = true
			}
		}
		if found {
			caseCond = want
			break
		}
	}
	viol := func(cls, sig, f string, a ...any) {
		c.Violate("C29/"+cc.Path+"/"+cls+"/"+sig, fmt.Sprintf(f, a...)+" | case="+vcore.JSON(cc)+" messages="+vcore.JSON(c29Short(got, name)), cc)
	}
	if !ret {
		c.Outcome(cc.Path + ":never-returns")
		viol(caseCond, "call-never-finishes", "the call did not return after %d result message(s): %s; blocked: %s", len(got), firstLine(tr.Deadlock), c29Blocked(goBase))
		return
	}
	if tr.Deadlock != "" {
		// the call returned, yet the bubble cannot end: goroutines started by the call are blocked for ever
		c.Outcome(cc.Path + ":returns-with-blocked-goroutine")
		viol(caseCond, "worker-goroutine-never-finishes", "the call returned but part of its work is blocked for ever: %s; blocked: %s", firstLine(tr.Deadlock), c29Blocked(goBase))
	}
	if callErr != "" {
		viol(caseCond, "call-fails", "the call returned an error instead of per-target results: %s", callErr)
		return
	}
	nOK, nErr := 0, 0
	for _, m := range got {
		if m.Err == "" {
			nOK++
		} else {
			nErr++
		}
	}
	c.Outcome(fmt.Sprintf("%s:returned ok%d/err%d of %d", cc.Path, nOK, nErr, len(distinct)*len(paths)))

	nontrivial := false
	compared := 0
	for _, m := range got {
		if _, ok := mult[m.ID]; !ok {
			viol(caseCond, "result-for-unknown-target", "a result names %q which is not a target", short(m.ID))
		}
	}
	for _, id := range distinct {
		cls := cond(id)
		if cls != "accepting-target" {
			nontrivial = true
		}
		// exactly one result per (target, file); a result without a path counts for any one file
		lacking, pathless, withPath := c29Lacking(got, id, paths)
		for _, p := range paths {
			if n := len(withPath[p]); n > mult[id] {
				viol(cls, "more-than-one-result", "%d results for target %s file %s", n, name[id], p)
			}
		}
		for p := range withPath {
			if _, ok := content[p]; !ok {
				viol(cls, "result-for-unknown-file", "a result for target %s names %q which was not sent", name[id], p)
			}
		}
		if pathless > len(lacking)*mult[id] {
			viol(cls, "more-than-one-result", "%d results without a path for target %s although only %d file(s) have no result of their own", pathless, name[id], len(lacking))
		}
		if n := len(lacking) - pathless; n > 0 {
			// name the cause: the empty file or the target. When results without a path make that ambiguous
			// (an empty and a non-empty file lack a result of their own), the sibling case with every empty file
			// replaced by one byte decides: the same number of results lacking = the target is the cause.
			nEmpty := 0
			for _, p := range lacking {
				if len(content[p]) == 0 {
					nEmpty++
				}
			}
			k := cls
			switch {
			case nEmpty == len(lacking) || (pathless == 0 && nEmpty >= n):
				k = "empty-file"
			case nEmpty > 0 && cls != "accepting-target":
				sib := *cc
				sib.Sizes = append([]int{}, cc.Sizes...)
				for i, sz := range sib.Sizes {
					if sz == 0 {
						sib.Sizes[i] = 1
					}
				}
				sgot, sret, _, _ := c29Run(t, b, snap, ids, &sib)
				c.Exec()
				sl, sp, _ := c29Lacking(sgot, id, paths)
				if sret && len(sl)-sp < n {
					k = "empty-file"
				}
			case nEmpty > 0:
				k = "empty-file"
			}
			viol(k, "result-missing", "%d file(s) without a result for target %s (%s): files without a result of their own %v, results without a path %d | sizes %v", n, name[id], cls, lacking, pathless, cc.Sizes)
		}
		if id == c29Missing {
			for _, m := range got {
				if m.ID == id && m.Err == "" {
					viol(cls, "success-for-missing-target", "a success was reported for a target that does not exist")
				}
			}
			continue
		}
		ct, ok := ctOf[id]
		if !ok {
			c.HarnessError("container of %s vanished", name[id])
			return
		}
		for _, p := range paths {
			fr, have := ct.Files[p]
			same := have && bytes.Equal(fr.Content, content[p])
			for _, m := range withPath[p] {
				if m.Err == "" && !same && (cls == "rejecting-target" || cls == "aborting-target") {
					viol(cls, "success-without-identical-content", "target %s reported success for %s but holds %s", name[id], p, c29Diff(have, fr.Content, content[p]))
				}
			}
			if cls == "rejecting-target" || cls == "aborting-target" {
				continue // the engine refused: nothing can be written; the result must say so (checked above)
			}
			k := cls
			if len(content[p]) == 0 {
				k = "empty-file"
			}
			if !have {
				viol(k, "file-not-written", "target %s does not hold %s (%d bytes sent)", name[id], p, len(content[p]))
				continue
			}
			if !same {
				viol(k, "content-differs", "target %s holds %s", name[id], c29Diff(have, fr.Content, content[p]))
				continue
			}
			if len(content[p]) > 0 {
				compared++
			}
			okMode := fr.Mode == mode || (cc.Perm == "default" && fr.Mode == 0o755)
			if fr.UID != uid || fr.GID != gid || !okMode {
				viol(k, "wrong-owner-or-mode", "target %s file %s written with uid %d gid %d mode %o, requested uid %d gid %d mode %o", name[id], p, fr.UID, fr.GID, fr.Mode, uid, gid, mode)
			}
			if cc.Perm == "default" {
				c.Outcome(fmt.Sprintf("%s:all-zero request written with mode %o", cc.Path, fr.Mode))
			}
		}
	}
	if compared > 0 {
		nontrivial = true
	}
	if nontrivial {
		c.Nontrivial(vcore.JSON(cc))
	}
	if c.WantSample() && compared > 0 && nErr > 0 {
		c.Sample(map[string]any{"case": cc, "messages": c29Short(got, name), "files_compared_byte_for_byte": compared})
	}
}

func c29Short(ms []c29Msg, name map[string]string) []c29Msg {
	out := make([]c29Msg, 0, len(ms))
	for _, m := range ms {
		n := m
		if s, ok := name[m.ID]; ok {
			n.ID = s
		}
		if len(n.Err) > 80 {
			n.Err = n.Err[:80]
		}
		out = append(out, n)
	}
	return out
}

func c29Diff(have bool, got, want []byte) string {
	if !have {
		return "no such file"
	}
	i := 0
	for i < len(got) && i < len(want) && got[i] == want[i] {
		i++
	}
	return fmt.Sprintf("%d bytes instead of %d, first difference at offset %d", len(got), len(want), i)
}

// c29GoID is the id of the calling goroutine (ids grow, so goroutines started by a later
// execution have larger ids).
func c29GoID() int64 {
	buf := make([]byte, 64)
	buf = buf[:runtime.Stack(buf, false)]
	var id int64
	fmt.Sscanf(string(buf), "goroutine %d ", &id)
	return id
}

var c29Dumps int

// c29Blocked describes where the goroutines that the last execution left behind are blocked
// (state and innermost frame inside the repository), for the first few reports of a worker.
func c29Blocked(base int64) string {
	c29Dumps++
	if c29Dumps > 8 {
		return "(not collected)"
	}
	buf := make([]byte, 8<<20)
	buf = buf[:runtime.Stack(buf, true)]
	count := map[string]int{}
	for _, g := range strings.Split(string(buf), "\n\n") {
		var id int64
		if _, err := fmt.Sscanf(g, "goroutine %d ", &id); err != nil || id < base {
			continue
		}
		if !strings.Contains(g, "calcium/sendlarge.go") && !strings.Contains(g, "/rpc/rpc.go") {
			continue
		}
		lines := strings.Split(g, "\n")
		state := lines[0]
		if i, j := strings.Index(state, "["), strings.Index(state, "]"); i >= 0 && j > i {
			state = state[i+1 : j]
		}
		if i := strings.Index(state, ","); i > 0 {
			state = state[:i]
		}
		where := "?"
		for k := 1; k+1 < len(lines); k += 2 {
			if strings.Contains(lines[k], "projecteru2/core/") {
				fn := lines[k]
				if i := strings.LastIndex(fn, "("); i > 0 {
					fn = fn[:i]
				}
				fn = fn[strings.LastIndex(fn, "/")+1:]
				loc := strings.Fields(strings.TrimSpace(lines[k+1]))
				if len(loc) > 0 {
					where = fn + " " + filepath.Base(loc[0])
				}
				break
			}
		}
		count[state+" in "+where]++
	}
	var out []string
	for k, n := range count {
		out = append(out, fmt.Sprintf("%dx %s", n, k))
	}
	sort.Strings(out)
	return strings.Join(out, "; ")
}
