// vcheck is the orchestrator behind /verif/check: it rebuilds the harness test binary from
// the current /repo tree (build tag verif), shards one check over worker processes, merges
// their results, matches violations against known_findings.json, writes the evidence file,
// prints VIOLATION / KNOWN-FINDING lines and sets the exit code.
package main

import (
	"encoding/json"
	"fmt"
	"os"
	"os/exec"
	"path/filepath"
	"sort"
	"strconv"
	"strings"
	"sync"
	"syscall"
	"time"

	"verif/harness/vcore"
)

var root = func() string {
	if r := os.Getenv("VERIF_ROOT"); r != "" {
		return r
	}
	return "/verif"
}()

type meta struct {
	ID           string `json:"id"`
	Level        string `json:"level"`
	ShardsQuick  int    `json:"shards_quick"`
	ShardsThor   int    `json:"shards_thorough"`
	BudgetQuick  int    `json:"budget_quick_s"`
	BudgetThor   int    `json:"budget_thorough_s"`
	Race         bool   `json:"race"`
	GoMaxProcs   int    `json:"gomaxprocs"`
	MemLimitKB   int    `json:"mem_limit_kb"`
	WorkerGraceS int    `json:"worker_grace_s"`
}

type finding struct {
	Property  string `json:"property"`
	Signature string `json:"signature"`
	Status    string `json:"status"` // known | fixed
	Commit    string `json:"commit,omitempty"`
	What      string `json:"what"`
}

func die(f string, a ...any) {
	fmt.Fprintf(os.Stderr, "vcheck: "+f+"\n", a...)
	os.Exit(2)
}

func goEnv() []string {
	env := os.Environ()
	env = append(env, "GOFLAGS=-mod=mod", "GOPROXY=off", "GOSUMDB=off", "GOTOOLCHAIN=local", "GONOSUMDB=*", "GONOSUMCHECK=1")
	return env
}

func build(race bool) string {
	tags := "verif"
	if x := os.Getenv("VERIF_TAGS"); x != "" {
		tags += "," + x
	}
	out := filepath.Join(root, ".build", "harness.test")
	args := []string{"test", "-c", "-tags", tags, "-vet=off", "-o", out}
	if race {
		out = filepath.Join(root, ".build", "harness.race.test")
		args = []string{"test", "-c", "-race", "-tags", tags, "-vet=off", "-o", out}
	}
	if ov := os.Getenv("VERIF_OVERLAY"); ov != "" {
		// build against /repo with some files replaced (used to try deliberate breakages
		// and candidate fixes without touching /repo)
		args = append(args, "-overlay", ov)
	}
	args = append(args, "./checks")
	os.MkdirAll(filepath.Join(root, ".build"), 0o755)
	lk, err := os.OpenFile(filepath.Join(root, ".build", "lock"), os.O_CREATE|os.O_RDWR, 0o644)
	if err != nil {
		die("lock: %v", err)
	}
	defer lk.Close()
	syscall.Flock(int(lk.Fd()), syscall.LOCK_EX)
	defer syscall.Flock(int(lk.Fd()), syscall.LOCK_UN)
	cmd := exec.Command("go1.26", args...)
	cmd.Dir = filepath.Join(root, "harness")
	cmd.Env = goEnv()
	b, err := cmd.CombinedOutput()
	if err != nil {
		// A tree that does not compile cannot be checked; that is a broken input, not a pass.
		fmt.Printf("BUILD-FAILED\n%s\n", b)
		os.Exit(3)
	}
	// private copy so that a concurrent rebuild cannot swap the file under running workers
	priv := fmt.Sprintf("%s.%d", out, os.Getpid())
	if err := exec.Command("cp", out, priv).Run(); err != nil {
		die("copy binary: %v", err)
	}
	return priv
}

func describe(bin, id string) meta {
	cmd := exec.Command(bin, "-test.run", "^TestWorker$")
	cmd.Env = append(os.Environ(), "VERIF_CHECK="+id, "VERIF_DESCRIBE=1")
	b, err := cmd.Output()
	if err != nil {
		die("describe %s: %v\n%s", id, err, b)
	}
	var m meta
	for _, l := range strings.Split(string(b), "\n") {
		if strings.HasPrefix(l, "META ") {
			if err := json.Unmarshal([]byte(l[5:]), &m); err != nil {
				die("describe parse: %v", err)
			}
			return m
		}
	}
	die("unknown check %q (no META line)\n%s", id, b)
	return m
}

// crashInCore turns a worker that died of a panic raised in a goroutine of the repository's own
// code (nothing of the harness on the panicking goroutine's stack above the first repository frame)
// into a violation of the case the worker had journalled (vcore.Ctx.Journal).
func crashInCore(wtmp, log string) *vcore.Violation {
	b, err := os.ReadFile(filepath.Join(wtmp, "current-case.json"))
	if err != nil {
		return nil
	}
	var j struct {
		Signature string          `json:"signature"`
		Case      json.RawMessage `json:"case"`
	}
	if json.Unmarshal(b, &j) != nil || j.Signature == "" {
		return nil
	}
	i := strings.Index(log, "\npanic: ")
	if i < 0 {
		if !strings.HasPrefix(log, "panic: ") {
			return nil
		}
		i = -1
	}
	rest := log[i+1:]
	first := rest
	if k := strings.Index(rest, "\n\ngoroutine "); k >= 0 { // message, then the panicking goroutine's block
		blk := rest[k+2:]
		if e := strings.Index(blk, "\n\n"); e >= 0 {
			blk = blk[:e]
		}
		first = rest[:k] + "\n" + blk
	}
	core, harness := strings.Index(first, "github.com/projecteru2/core/"), strings.Index(first, "verif/harness/")
	if core < 0 || (harness >= 0 && harness < core) {
		return nil
	}
	msg := strings.SplitN(rest, "\n", 2)[0]
	frame := first[core:]
	if e := strings.Index(frame, "\n"); e >= 0 {
		frame = frame[:e]
	}
	var cs any
	json.Unmarshal(j.Case, &cs)
	return &vcore.Violation{Signature: j.Signature, Detail: fmt.Sprintf("the process crashed inside the repository's code while this case ran: %s at %s | case=%s", msg, frame, string(j.Case)), Replay: cs}
}

func main() {
	if len(os.Args) < 2 {
		die("usage: check <ID> [--tier quick|thorough] [--replay path] [--shards n] [--budget s]")
	}
	id := os.Args[1]
	tier := os.Getenv("VERIF_TIER")
	if tier == "" {
		tier = "quick"
	}
	replay := ""
	shardsOverride, budgetOverride := 0, 0
	for i := 2; i < len(os.Args); i++ {
		switch os.Args[i] {
		case "--tier":
			i++
			tier = os.Args[i]
		case "--replay":
			i++
			replay = os.Args[i]
		case "--shards":
			i++
			shardsOverride, _ = strconv.Atoi(os.Args[i])
		case "--budget":
			i++
			budgetOverride, _ = strconv.Atoi(os.Args[i])
		default:
			die("unknown argument %q", os.Args[i])
		}
	}
	if tier != "quick" && tier != "thorough" {
		die("bad tier %q", tier)
	}
	seed, _ := strconv.ParseInt(os.Getenv("VERIF_SEED"), 10, 64)
	start := time.Now()

	bin := build(false)
	defer os.Remove(bin)
	m := describe(bin, id)
	if m.Race {
		os.Remove(bin)
		bin = build(true)
		defer os.Remove(bin)
	}
	shards, budget := m.ShardsQuick, m.BudgetQuick
	if tier == "thorough" {
		shards, budget = m.ShardsThor, m.BudgetThor
	}
	if shardsOverride > 0 {
		shards = shardsOverride
	}
	if budgetOverride > 0 {
		budget = budgetOverride
	}
	if replay != "" {
		shards = 1
	}
	if shards < 1 {
		shards = 1
	}
	if budget < 1 {
		budget = 300
	}
	grace := m.WorkerGraceS
	if grace == 0 {
		grace = 120
	}

	// scratch space of the workers (bbolt WAL files etc.): tmpfs when available, because bbolt
	// fsyncs on every write
	tmpBase := filepath.Join(root, ".build")
	if st, err := os.Stat("/dev/shm"); err == nil && st.IsDir() {
		tmpBase = "/dev/shm"
	}
	tmp, err := os.MkdirTemp(tmpBase, "verif-run-"+id+"-")
	if err != nil {
		die("tmp: %v", err)
	}
	defer os.RemoveAll(tmp)

	results := make([]*vcore.Result, shards)
	logs := make([]string, shards)
	var wg sync.WaitGroup
	for s := 0; s < shards; s++ {
		wg.Add(1)
		go func(s int) {
			defer wg.Done()
			out := filepath.Join(tmp, fmt.Sprintf("out-%d.json", s))
			wtmp := filepath.Join(tmp, fmt.Sprintf("w%d", s))
			os.MkdirAll(wtmp, 0o755)
			shell := fmt.Sprintf("exec %s -test.run '^TestWorker$' -test.timeout 0", bin)
			if m.MemLimitKB > 0 {
				shell = fmt.Sprintf("ulimit -v %d; %s", m.MemLimitKB, shell)
			}
			cmd := exec.Command("bash", "-c", shell)
			cmd.Dir = wtmp
			env := append(os.Environ(),
				"VERIF_CHECK="+id, "VERIF_TIER="+tier,
				fmt.Sprintf("VERIF_SHARD=%d/%d", s, shards),
				fmt.Sprintf("VERIF_SEED=%d", seed),
				fmt.Sprintf("VERIF_BUDGET_S=%d", budget),
				"VERIF_OUT="+out, "VERIF_TMP="+wtmp)
			if m.GoMaxProcs > 0 {
				env = append(env, fmt.Sprintf("GOMAXPROCS=%d", m.GoMaxProcs))
			}
			if replay != "" {
				abs, _ := filepath.Abs(replay)
				env = append(env, "VERIF_REPLAY="+abs)
			}
			cmd.Env = env
			done := make(chan struct{})
			var ob []byte
			var werr error
			go func() { ob, werr = cmd.CombinedOutput(); close(done) }()
			select {
			case <-done:
			case <-time.After(time.Duration(budget+grace) * time.Second):
				if cmd.Process != nil {
					cmd.Process.Kill()
				}
				<-done
				werr = fmt.Errorf("worker exceeded budget+grace (%ds) and was killed", budget+grace)
			}
			logs[s] = string(ob)
			b, rerr := os.ReadFile(out)
			if rerr != nil {
				if v := crashInCore(wtmp, logs[s]); v != nil {
					results[s] = &vcore.Result{Property: id, Violations: []vcore.Violation{*v}, SigCounts: map[string]int64{v.Signature: 1},
						CapHit: fmt.Sprintf("worker %d crashed inside the repository's code; the rest of its shard was not explored", s)}
					return
				}
				results[s] = &vcore.Result{Property: id, HarnessErr: fmt.Sprintf("worker %d produced no result (%v)", s, werr)}
				return
			}
			var r vcore.Result
			if err := json.Unmarshal(b, &r); err != nil {
				results[s] = &vcore.Result{Property: id, HarnessErr: fmt.Sprintf("worker %d bad json: %v", s, err)}
				return
			}
			results[s] = &r
		}(s)
	}
	wg.Wait()

	// merge
	mg := vcore.Result{Property: id, Level: m.Level, Exhaustive: true, Outcomes: map[string]int64{}, SigCounts: map[string]int64{}, Bounds: map[string]any{}}
	for s, r := range results {
		if r.HarnessErr != "" {
			fmt.Printf("HARNESS-ERROR check=%s shard=%d: %s\n", id, s, r.HarnessErr)
			tail := logs[s]
			if len(tail) > 6000 {
				tail = tail[len(tail)-6000:]
			}
			fmt.Println(tail)
			mg.HarnessErr = r.HarnessErr
		}
		mg.Evaluations += r.Evaluations
		mg.Nontrivial += r.Nontrivial
		mg.States += r.States
		mg.Transitions += r.Transitions
		mg.Executions += r.Executions
		mg.Validated += r.Validated
		mg.Exhaustive = mg.Exhaustive && r.Exhaustive
		if r.CapHit != "" && mg.CapHit == "" {
			mg.CapHit = r.CapHit
		}
		if r.Rule != "" {
			mg.Rule = r.Rule
		}
		if r.Level != "" {
			mg.Level = r.Level
		}
		for k, v := range r.Bounds {
			mg.Bounds[k] = v
		}
		for k, v := range r.Outcomes {
			mg.Outcomes[k] += v
		}
		for k, v := range r.SigCounts {
			mg.SigCounts[k] += v
		}
		if len(mg.Samples) < 8 {
			for _, x := range r.Samples {
				if len(mg.Samples) < 8 {
					mg.Samples = append(mg.Samples, x)
				}
			}
		}
		if len(mg.Assumptions) == 0 {
			mg.Assumptions = r.Assumptions
		}
		if len(mg.Notes) < 20 {
			mg.Notes = append(mg.Notes, r.Notes...)
		}
		mg.Violations = append(mg.Violations, r.Violations...)
	}
	wall := time.Since(start).Seconds()

	// known findings
	var kf struct {
		Findings []finding `json:"findings"`
	}
	if b, err := os.ReadFile(filepath.Join(root, "known_findings.json")); err == nil {
		if err := json.Unmarshal(b, &kf); err != nil {
			die("known_findings.json: %v", err)
		}
	}
	known := map[string]finding{}
	for _, f := range kf.Findings {
		if f.Property == id && f.Status == "known" {
			known[f.Signature] = f
		}
	}
	sigs := make([]string, 0, len(mg.SigCounts))
	for s := range mg.SigCounts {
		sigs = append(sigs, s)
	}
	sort.Strings(sigs)
	nViol, nKnown := 0, 0
	var knownList []string
	os.MkdirAll(filepath.Join(root, "replays"), 0o755)
	if replay == "" {
		// replay files of an earlier run of this check are stale
		if old, _ := filepath.Glob(filepath.Join(root, "replays", id+"-*.json")); len(old) > 0 {
			for _, f := range old {
				os.Remove(f)
			}
		}
	}
	for _, sig := range sigs {
		if f, ok := known[sig]; ok {
			nKnown++
			knownList = append(knownList, sig)
			fmt.Printf("KNOWN-FINDING: property=%s %s [%s] (%d counterexamples this run)\n", id, f.What, sig, mg.SigCounts[sig])
			continue
		}
		nViol++
		var first *vcore.Violation
		for i := range mg.Violations {
			if mg.Violations[i].Signature == sig {
				first = &mg.Violations[i]
				break
			}
		}
		path := filepath.Join(root, "replays", fmt.Sprintf("%s-%s.json", id, vcore.Hash(sig)))
		if first != nil {
			b, _ := json.MarshalIndent(map[string]any{"property": id, "signature": sig, "detail": first.Detail, "replay": first.Replay, "tier": tier}, "", " ")
			os.WriteFile(path, b, 0o644)
			fmt.Printf("  signature=%s count=%d\n  %s\n", sig, mg.SigCounts[sig], first.Detail)
		}
		fmt.Printf("VIOLATION property=%s replay=%s\n", id, path)
	}

	if replay == "" {
		writeEvidence(id, tier, seed, &mg, wall, nViol, knownList, shards)
	}
	fmt.Printf("check=%s tier=%s shards=%d evaluations=%d nontrivial=%d states=%d transitions=%d executions=%d exhaustive=%v outcomes=%d violations=%d known=%d wall=%.1fs\n",
		id, tier, shards, mg.Evaluations, mg.Nontrivial, mg.States, mg.Transitions, mg.Executions, mg.Exhaustive, len(mg.Outcomes), nViol, nKnown, wall)
	os.RemoveAll(tmp)
	os.Remove(bin)
	if mg.HarnessErr != "" {
		os.Exit(2)
	}
	if nViol > 0 {
		os.Exit(1)
	}
}

func writeEvidence(id, tier string, seed int64, mg *vcore.Result, wall float64, nViol int, known []string, shards int) {
	cov := map[string]any{
		"evaluations":         mg.Evaluations,
		"distinct_nontrivial": mg.Nontrivial,
		"rule":                mg.Rule,
		"samples":             mg.Samples,
		"exhaustive":          mg.Exhaustive,
		"bounds":              mg.Bounds,
		"distinct_outcomes":   len(mg.Outcomes),
		"outcomes":            mg.Outcomes,
		"shards":              shards,
	}
	if mg.States > 0 || mg.Level == "model_checking" {
		cov["states"] = mg.States
		cov["transitions"] = mg.Transitions
		cov["traces_validated_against_impl"] = mg.Validated
	}
	if mg.Executions > 0 {
		cov["executions"] = mg.Executions
	}
	if mg.CapHit != "" {
		cov["cap_hit"] = mg.CapHit
	}
	if len(known) > 0 {
		cov["known_findings"] = known
	}
	if len(mg.Notes) > 0 {
		cov["notes"] = mg.Notes
	}
	if len(mg.SigCounts) > 0 {
		cov["signature_counts"] = mg.SigCounts
	}
	ev := map[string]any{
		"property_id": id,
		"tier":        tier,
		"seed":        seed,
		"level":       mg.Level,
		"coverage":    cov,
		"assumptions": mg.Assumptions,
		"wall_s":      wall,
		"violations":  nViol,
	}
	if mg.Assumptions == nil {
		ev["assumptions"] = []string{}
	}
	b, _ := json.MarshalIndent(ev, "", " ")
	evdir := filepath.Join(root, "evidence")
	if os.Getenv("VERIF_OVERLAY") != "" {
		// a run against an overlaid (deliberately changed) tree says nothing about /repo: keep it apart
		evdir = filepath.Join(root, ".build", "evidence-overlay")
	}
	os.MkdirAll(evdir, 0o755)
	if err := os.WriteFile(filepath.Join(evdir, id+".json"), b, 0o644); err != nil {
		die("evidence: %v", err)
	}
}
